#!/usr/bin/env python3
"""Validate MANIFEST.json and evidence/*.json against the schemas (run with python3-vt, which has jsonschema)."""
import glob, json, sys
import jsonschema
ok = True
try:
    jsonschema.validate(json.load(open("MANIFEST.json")), json.load(open("/root/.vp/MANIFEST.schema.json")))
    print("MANIFEST.json valid")
except Exception as e:
    ok = False; print("MANIFEST invalid:", e)
es = json.load(open("/root/.vp/EVIDENCE.schema.json"))
for p in sorted(glob.glob("evidence/*.json")):
    try:
        jsonschema.validate(json.load(open(p)), es)
    except Exception as e:
        ok = False; print(p, "invalid:", str(e)[:300])
print("evidence files:", len(glob.glob("evidence/*.json")), "ok" if ok else "PROBLEMS")
sys.exit(0 if ok else 1)
