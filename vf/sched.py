"""Deterministic thread scheduler: every source line of the library (and of generated readers) is a yield point.

sys.monitoring LINE events are enabled for code whose file is under dissect/cstruct/ or is a generated
`<compiled ...>` reader.  In a worker thread the callback calls Scheduler.point(), which hands the turn to
another thread when the current step is one of the schedule's switch points.  Exactly one worker runs between
two yield points, so a schedule is the set of switch points (plus the starting thread) and is replayable.
"""
from __future__ import annotations

import sys
import threading

from . import lib, monitors

mon = sys.monitoring
TOOL = mon.DEBUGGER_ID
_CUR = None
_FINE_FILES = ("expression.py", "bitbuffer.py")
_fine = False
_fine_codes = set()


def _is_target(fn):
    return fn.startswith(monitors.PKG_DIR) or fn.startswith("<compiled")


def _on_line(code, line):
    if not _is_target(code.co_filename):
        return mon.DISABLE
    if _fine and code not in _fine_codes and code.co_filename.endswith(_FINE_FILES):
        _fine_codes.add(code)
        mon.set_local_events(TOOL, code, mon.events.INSTRUCTION)
    s = _CUR
    if s is not None:
        s.point(code, line)
    return None


def _on_instruction(code, offset):
    s = _CUR
    if s is not None:
        s.point(code, -offset - 1)


def start(fine=False):
    global _fine
    _fine = fine
    mon.use_tool_id(TOOL, "vf-sched")
    mon.register_callback(TOOL, mon.events.LINE, _on_line)
    mon.register_callback(TOOL, mon.events.INSTRUCTION, _on_instruction)
    mon.set_events(TOOL, mon.events.LINE)


def stop():
    global _CUR
    _CUR = None
    mon.set_events(TOOL, 0)
    for code in list(_fine_codes):
        try:
            mon.set_local_events(TOOL, code, 0)
        except Exception:  # noqa: BLE001
            pass
    _fine_codes.clear()
    mon.free_tool_id(TOOL)


class Blocked(Exception):
    pass


class Scheduler:
    def __init__(self, n, switches=(), first=0, timeout=20.0):
        self.n = n
        self.switches = set(switches)
        self.cv = threading.Condition()
        self.turn = first
        self.first = first
        self.done = [False] * n
        self.step = 0
        self.tls = threading.local()
        self.trace = []
        self.switch_points = []
        self.timeout = timeout
        self.blocked = False

    def point(self, code, line):
        me = getattr(self.tls, "id", None)
        if me is None:
            return
        with self.cv:
            self.step += 1
            if len(self.trace) < 20000:
                self.trace.append((me, code.co_name, line))
            if self.step in self.switches:
                nxt = self._next_runnable(me)
                if nxt is not None and nxt != me:
                    self.switch_points.append((me, code.co_filename.rsplit("/", 1)[-1], code.co_name, line))
                    self.turn = nxt
                    self.cv.notify_all()
                    while self.turn != me:
                        if not self.cv.wait(self.timeout):
                            self.blocked = True
                            raise Blocked()

    def _next_runnable(self, me):
        for k in range(1, self.n + 1):
            c = (me + k) % self.n
            if not self.done[c]:
                return c
        return None

    def run(self, jobs):
        global _CUR
        results = [None] * self.n

        def worker(i):
            self.tls.id = i
            with self.cv:
                while self.turn != i:
                    if not self.cv.wait(self.timeout):
                        self.blocked = True
                        results[i] = ("blocked",)
                        self.tls.id = None
                        return
            try:
                results[i] = ("ok", jobs[i]())
            except Blocked:
                results[i] = ("blocked",)
            except BaseException as e:  # noqa: BLE001
                results[i] = ("err", type(e).__name__, str(e)[:200])
            with self.cv:
                self.done[i] = True
                nxt = self._next_runnable(i)
                if nxt is not None:
                    self.turn = nxt
                self.cv.notify_all()
            self.tls.id = None

        threads = [threading.Thread(target=worker, args=(i,), daemon=True) for i in range(self.n)]
        _CUR = self
        try:
            for t in threads:
                t.start()
            for t in threads:
                t.join(self.timeout * 2)
        finally:
            _CUR = None
        if any(t.is_alive() for t in threads):
            self.blocked = True
        return results
