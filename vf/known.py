"""Known findings: classification by mechanism signature; KNOWN_FINDINGS.txt decides which are honoured.

The mechanism diagnosis happens where the violation is detected (the check has the model and the case at
hand) and is encoded in the violation's `sig` as "<finding id>:<details>".  A violation is attributed to an
open finding only if (a) its diagnosed signature names that finding and (b) KNOWN_FINDINGS.txt lists the
finding as `open:` for that property.  Everything else is a VIOLATION.  The file is never written at run time.
"""
from __future__ import annotations

import os
import re

ROOT = os.path.dirname(os.path.dirname(os.path.abspath(__file__)))
FILE = os.path.join(ROOT, "KNOWN_FINDINGS.txt")

# id -> {"props": [...], "what": text}
FINDINGS = {
    "K1": {"props": ["C01", "C02", "C11"],
           "what": "union dumps() writes only the first largest non-anonymous member: bytes that are data only in "
                   "another member are zeroed"},
    "K2": {"props": ["C12", "C01", "C02"],
           "what": "flag over a signed underlying type: negative underlying values are folded by IntFlag "
                   "(int8 0xff parses to 3, 0x80 cannot be dumped)"},
    "K3": {"props": ["C20"], "what": "stub for constants of an anonymous enum uses a non-literal repr (invalid Python)"},
    "K4": {"props": ["C20"], "what": "stub for a typedef of an array/pointer type emits 'class name[4](...)'"},
    "K5": {"props": ["C20"], "what": "stub uses Python keywords as field/member names (invalid Python)"},
    "K6": {"props": ["C20"], "what": "stub generation raises AttributeError for a string alias added via add_type"},
    "K7": {"props": ["C01"],
           "what": "aligned structure ending in an [EOF] array: the tail padding written by dumps() is read back as "
                   "array elements (or a partial element)"},
    "K8": {"props": [],       # repaired (repair 85); kept for the record, no signature maps to it any more
           "what": "bit-field members of a union ignore their width (union { uint8 a:4; uint8 b:4; } parses 0xa5 as "
                   "a = b = 0xa5)"},
    "K10": {"props": ["C11"],
            "what": "a second write through a held reference to a nested structure of a union is lost (p = u.a; p.x = 1; "
                    "p.y = 2: the rebuild after the first write replaced u.a, the old proxy writes to the dead object)"},
    "K11": {"props": [],      # repaired (repair 91); kept for the record

            "what": "a pointer inside a fixed-size union keeps the union's private byte buffer as its stream: dereferencing "
                    "reads relative to the union's start instead of the absolute stream offset"},
    "K12": {"props": [],      # repaired (repair 90); kept for the record

            "what": "an array length cannot refer to a field of a preceding anonymous structure member "
                    "(struct { struct { uint8 n; }; uint8 d[n]; }: ExpressionParserError 'Unmatched token' at parse time, "
                    "although the field is a field of the structure)"},
    "K13": {"props": ["C18"],
            "what": "a structure declared before its member type is extended keeps the member's earlier size: stale size "
                    "and offsets, the interpreted reader seeks to the stale offset (struct I { uint8 a; }; struct O "
                    "{ uint8 x; I i; uint8 z; }; I.add_field('b', uint32): len(O) stays 3, O(dumps(v)).z is a byte of i.b)"},
    "K15": {"props": ["C11"],
            "what": "an assignment through a structure that is an element of an array member of a union does not reach the "
                    "union (union A { S s[2]; uint16 w[3]; }: a.s[0].x = 0xAAAA leaves a.w and the other views as they "
                    "were while dumps() writes the new bytes; only structures that are members themselves are proxied); second "
                    "witness of the same mechanism: a scalar element changed in place (union B { uint8 b[4]; uint32 w; }: "
                    "b.b[-1] = 9 leaves b.w as it was)"},
    "K14": {"props": ["C17"],
            "what": "a structure whose enum or flag field holds a plain integer equals the one holding the member (and "
                    "the parse of its own dump) but hashes differently: members compare equal to their integer value yet "
                    "hash together with their class (struct K { E e; }: K(e=1) == K(e=E.Q), hash differs)"},
    "K16": {"props": ["C06"],
            "what": "a bit-field member given an explicit offset through the API, directly after a partly used unit of the "
                    "same storage type: the layout opens a new unit at that offset, both readers keep slicing the previous "
                    "unit and the writer merges both members into one unit at the new offset (a:4 at 0, b:4 at offset 5 of "
                    "uint8: 21 00 00 00 00 43 parses b = 2, T(a=1, b=2) dumps 00 00 00 00 00 21)"},
    "K9": {"props": ["C04"],
           "what": "aligned structure used at an unaligned offset of a packed structure: its tail padding is computed "
                   "from the absolute stream position, so bytes consumed / dumped differ from len() and array elements "
                   "are not len(T) apart"},
}


def _lines():
    try:
        with open(FILE) as fh:
            return [ln.strip() for ln in fh if ln.strip() and not ln.startswith("#")]
    except FileNotFoundError:
        return []


def open_findings(prop):
    out = set()
    for ln in _lines():
        m = re.match(r"open:\s+property=(\S+)\s+id=(\S+)", ln)
        if m and m.group(1) == prop:
            out.add(m.group(2))
    return out


def classify(prop, v):
    """-> finding id or None, from the diagnosed signature only."""
    sig = v.get("sig", "")
    m = re.match(r"(K\d+|F\d+):", sig)
    if not m:
        return None
    kid = m.group(1)
    if kid in FINDINGS and prop in FINDINGS[kid]["props"]:
        return kid
    return None
