"""Adapter between the harness and the library under test (the only module family that imports it)."""
from __future__ import annotations

import enum as _enum
import io
import math
import os
import sys

REPO = os.path.realpath(os.environ.get("VERIF_REPO", "/repo"))


def import_lib():
    """Import dissect.cstruct and make sure it comes from the tree under test."""
    if REPO not in [os.path.realpath(p) for p in sys.path if p]:
        sys.path.insert(0, REPO)
    import dissect.cstruct as dc

    real = os.path.realpath(dc.__file__)
    if not real.startswith(REPO + os.sep):
        raise RuntimeError(f"monitoring the wrong tree: {real} is not under {REPO}")
    return dc


dc = import_lib()
from dissect.cstruct import Pointer, Structure, Union, cstruct  # noqa: E402
from dissect.cstruct.types.structure import UnionProxy  # noqa: E402


class NormError(Exception):
    """The library returned a value of an unexpected kind."""


def load(text, endian="<", align=False, compiled=True, ptr=None):
    cs = cstruct(endian=endian, pointer=ptr)
    cs.load(text, compiled=compiled, align=align)
    return cs


def unwrap(v):
    # structures of a union nested in a union are wrapped once per enclosing union
    while type(v) is UnionProxy:
        v = object.__getattribute__(v, "__target__")
    return v


def norm(v, node, f=None, strict=True):
    """Library value -> model value form, guided by the AST (never probes attributes blindly:
    Pointer.__getattr__ dereferences)."""
    v = unwrap(v)
    k = node["k"]
    if f is not None and f.get("bits"):
        if isinstance(v, _enum.Enum):
            return int(v.value)
        if not isinstance(v, int) or isinstance(v, Pointer):
            raise NormError(f"bit-field value {type(v).__name__}")
        return int(v)
    if k in ("int", "leb"):
        if not isinstance(v, int) or isinstance(v, (Pointer, _enum.Enum, bool)):
            raise NormError(f"int expected, got {type(v).__name__}")
        return int(v)
    if k == "float":
        if not isinstance(v, float):
            raise NormError(f"float expected, got {type(v).__name__}")
        return float(v)
    if k == "char":
        if not isinstance(v, bytes):
            raise NormError(f"bytes expected, got {type(v).__name__}")
        return bytes(v)
    if k == "wchar":
        if not isinstance(v, str):
            raise NormError(f"str expected, got {type(v).__name__}")
        return str.__str__(v)
    if k == "void":
        return None
    if k == "enum":
        if not isinstance(v, _enum.Enum):
            if not strict and isinstance(v, int) and not isinstance(v, bool):
                return int(v)  # a constructed value may hold plain integers in enum arrays
            raise NormError(f"enum member expected, got {type(v).__name__}")
        if type(v).__name__ != (node["name"] or ""):
            raise NormError(f"enum class {type(v).__name__} != {node['name']}")
        return int(v.value)
    if k == "ptr":
        if not isinstance(v, int) or isinstance(v, (_enum.Enum, bool)):
            raise NormError(f"pointer expected, got {type(v).__name__}")
        return int(v)
    if k == "array":
        ek = node["elem"]["k"]
        if ek == "char":
            if not isinstance(v, bytes):
                raise NormError(f"bytes expected, got {type(v).__name__}")
            return bytes(v)
        if ek == "wchar":
            if not isinstance(v, str):
                raise NormError(f"str expected, got {type(v).__name__}")
            return str.__str__(v)
        if not isinstance(v, list):
            raise NormError(f"list expected, got {type(v).__name__}")
        return [norm(e, node["elem"], None, strict) for e in v]
    if k == "struct":
        if not isinstance(v, Structure):
            raise NormError(f"structure expected, got {type(v).__name__}")
        lf = type(v).__fields__
        if len(lf) != len(node["fields"]):
            raise NormError("field count differs")
        out = {}
        for i, (nf, lfi) in enumerate(zip(node["fields"], lf)):
            key = nf["name"] if nf["name"] is not None else f"#{i}"
            out[key] = norm(getattr(v, lfi._name), nf["t"], nf, strict)
        return out
    raise ValueError(k)


def nan_clean(v):
    if isinstance(v, dict):
        return {k: nan_clean(x) for k, x in v.items() if not k.startswith("$")}
    if isinstance(v, list):
        return [nan_clean(x) for x in v]
    if isinstance(v, float):
        if math.isnan(v):
            return "nan"
        if v == 0 and math.copysign(1, v) < 0:
            return "-0.0"
    return v


def build(libtype, node, v, f=None, enum_members=True):
    """Model value -> library value suitable for dumping / construction."""
    k = node["k"]
    if f is not None and f.get("bits"):
        if k == "enum":
            return libtype(v)
        return v
    if enum_members == "raw" and k == "array":
        pass
    if k in ("int", "leb", "float", "ptr"):
        return v
    if k in ("char", "wchar"):
        return v
    if k == "void":
        # the value of a void member is a void object (None would mean "not given" to a constructor but is kept as it
        # is by an assignment)
        return libtype() if isinstance(libtype, type) else None
    if k == "enum":
        return v if enum_members == "raw" else libtype(v)
    if k == "array":
        ek = node["elem"]["k"]
        if ek in ("char", "wchar"):
            return v
        et = libtype.type
        if ek == "enum" and enum_members in (False, "raw"):
            return list(v)
        return [build(et, node["elem"], e, enum_members=enum_members) for e in v]
    if k == "struct":
        lf = libtype.__fields__
        kw = {}
        if node["union"]:
            via = v.get("$via")
            if via is None:
                nf0 = node["fields"][0]
                via = nf0["name"] if nf0["name"] is not None else "#0"
            for i, (nf, lfi) in enumerate(zip(node["fields"], lf)):
                key = nf["name"] if nf["name"] is not None else f"#{i}"
                if key == via:
                    kw[lfi._name] = build(lfi.type, nf["t"], v[key], nf, enum_members)
            return libtype(**kw)
        for i, (nf, lfi) in enumerate(zip(node["fields"], lf)):
            key = nf["name"] if nf["name"] is not None else f"#{i}"
            kw[lfi._name] = build(lfi.type, nf["t"], v[key], nf, enum_members)
        if not kw:
            return libtype()
        return libtype(**kw)
    raise ValueError(k)


def alt_form(libv, node, rng):
    """Another accepted spelling of the same field value: char data as a (latin-1) str, a single char as an int."""
    k = node["k"]
    if k == "char" and isinstance(libv, bytes) and len(libv) == 1:
        x = rng.random()
        return libv.decode("latin-1") if x < 0.4 else libv[0] if x < 0.7 else libv
    if k == "array" and node["elem"]["k"] == "char" and isinstance(libv, bytes) and rng.random() < 0.6:
        return libv.decode("latin-1")
    if k == "enum" and isinstance(libv, _enum.Enum) and rng.random() < 0.4:
        return int(libv.value)      # the underlying integer instead of the member
    return libv


def parse_at(T, data, offset=0, stream=None):
    """-> ("ok", obj, tell) | ("err", exc)"""
    s = stream if stream is not None else io.BytesIO(data)
    s.seek(offset)
    try:
        obj = T._read(s) if False else T(s)
    except Exception as e:  # noqa: BLE001
        return ("err", e, None)
    return ("ok", obj, s.tell())


def exc_sig(e):
    return f"{type(e).__name__}: {str(e)[:120]}"


def lib_fields(T):
    return T.__fields__


_ADDR = __import__("re").compile(r" object at 0x[0-9a-f]+")


def stable_repr(x):
    """repr() without object addresses (the default repr of a void member's value contains one)."""
    return _ADDR.sub("", repr(x))
