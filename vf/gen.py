"""Seeded generator of C-like definitions (as a JSON-able AST + rendered text), values and hostile inputs.

The AST is rendered to *text* that goes through the library's own parser; the same AST feeds the
reference model (vf/model.py).  Nothing in here imports dissect.cstruct.

Node forms (plain dicts so that replay files are self-contained):
  {"k":"int","t":"uint16"[,"as":"WORD"]}      fixed-width integer (8..128 bit)
  {"k":"float","t":"float16"|"float"|"double"}
  {"k":"char"} {"k":"wchar"} {"k":"leb","t":"uleb128"|"ileb128"} {"k":"void"}
  {"k":"enum","name":N,"flag":bool,"base":T,"members":[[name,value],..],"src":[..member texts..]}
  {"k":"array","elem":node,"len":{"f":"fixed","n":N}|{"f":"expr","text":S}|{"f":"null"}|{"f":"eof"}}
  {"k":"ptr","to":node}
  {"k":"struct","union":bool,"name":N|None,"decl":"inline"|"top"|"typedef"|"typedef2"|"typedef3"|"top2","fields":[field..]}
     field = {"name":N|None,"t":node,"bits":int|None[,"len_src":True]}
"""
from __future__ import annotations

import random

# name -> (size, signed)
PACKED_INTS = {
    "int8": (1, True), "uint8": (1, False), "int16": (2, True), "uint16": (2, False),
    "int32": (4, True), "uint32": (4, False), "int64": (8, True), "uint64": (8, False),
}
WIDE_INTS = {
    "int24": (3, True), "uint24": (3, False), "int48": (6, True), "uint48": (6, False),
    "int128": (16, True), "uint128": (16, False),
}
ALL_INTS = {**PACKED_INTS, **WIDE_INTS}
FLOATS = {"float16": 2, "float": 4, "double": 8}
INT_ALIGN = {1: 1, 2: 2, 4: 4, 8: 8, 3: 4, 6: 8, 16: 16}

# spelled alias -> canonical (the expectation table is written from the names, not from the library)
INT_ALIASES = {
    "BYTE": "uint8", "WORD": "uint16", "DWORD": "uint32", "QWORD": "uint64", "OWORD": "uint128",
    "SHORT": "int16", "LONG": "int32", "LONG32": "int32", "LONG64": "int64", "LONGLONG": "int64",
    "UCHAR": "uint8", "USHORT": "uint16", "ULONG": "uint32", "ULONG64": "uint64", "ULONGLONG": "uint64",
    "INT": "int32", "INT8": "int8", "INT16": "int16", "INT32": "int32", "INT64": "int64", "INT128": "int128",
    "UINT": "uint32", "UINT8": "uint8", "UINT16": "uint16", "UINT32": "uint32", "UINT64": "uint64",
    "UINT128": "uint128",
    "__int8": "int8", "__int16": "int16", "__int32": "int32", "__int64": "int64", "__int128": "int128",
    "int8_t": "int8", "int16_t": "int16", "int32_t": "int32", "int64_t": "int64", "int128_t": "int128",
    "uint8_t": "uint8", "uint16_t": "uint16", "uint32_t": "uint32", "uint64_t": "uint64", "uint128_t": "uint128",
    "_BYTE": "uint8", "_WORD": "uint16", "_DWORD": "uint32", "_QWORD": "uint64", "_OWORD": "uint128",
    "u1": "uint8", "u2": "uint16", "u4": "uint32", "u8": "uint64", "u16": "uint128",
    "__u8": "uint8", "__u16": "uint16", "__u32": "uint32", "__u64": "uint64",
    "uchar": "uint8", "ushort": "uint16", "uint": "uint32",
    "short": "int16", "int": "int32", "signed char": "int8", "unsigned short": "uint16", "unsigned int": "uint32",
    "signed int": "int32", "long long": "int64", "unsigned long long": "uint64", "signed short": "int16",
    "signed long long": "int64", "unsigned __int8": "uint8", "unsigned __int16": "uint16",
    "unsigned __int32": "uint32", "unsigned __int64": "uint64", "unsigned __int128": "uint128",
}
# aliases usable as a field type spelling inside struct bodies (multi-word ones are fine for the token parser)
FIELD_ALIASES = sorted(INT_ALIASES)
OTHER_ALIASES = {"CHAR": "char", "unsigned char": "char", "WCHAR": "wchar", "wchar_t": "wchar"}


def N_int(t, spelled=None):
    n = {"k": "int", "t": t}
    if spelled:
        n["as"] = spelled
    return n


def N_float(t):
    return {"k": "float", "t": t}


def N_char(spelled=None):
    n = {"k": "char"}
    if spelled:
        n["as"] = spelled
    return n


def N_wchar(spelled=None):
    n = {"k": "wchar"}
    if spelled:
        n["as"] = spelled
    return n


def N_leb(t):
    return {"k": "leb", "t": t}


def N_array(elem, length):
    return {"k": "array", "elem": elem, "len": length}


def L_fixed(n):
    return {"f": "fixed", "n": n}


def L_expr(text):
    return {"f": "expr", "text": text}


L_NULL = {"f": "null"}
L_EOF = {"f": "eof"}


def N_ptr(to):
    return {"k": "ptr", "to": to}


def N_struct(fields, name=None, union=False, decl="inline"):
    return {"k": "struct", "union": union, "name": name, "decl": decl, "fields": fields}


def F(name, t, bits=None, **kw):
    f = {"name": name, "t": t, "bits": bits}
    f.update(kw)
    return f


# ---------------------------------------------------------------------------------------------------
# rendering


def base_spelling(node, rng=None):
    k = node["k"]
    if k in ("int", "float", "leb"):
        return node.get("as", node["t"])
    if k == "char":
        return node.get("as", "char")
    if k == "wchar":
        return node.get("as", "wchar")
    if k == "void":
        return "void"
    if k == "enum":
        return node["name"]
    if k == "struct":
        kw = "union" if node["union"] else "struct"
        if node["decl"] == "inline":
            nm = f" {node['name']}" if node.get("name") else ""
            return f"{kw}{nm} {render_body(node)}"
        if node.get("spell_kw"):
            return f"{kw} {node['name']}"
        return node["name"]
    raise ValueError(f"no spelling for {k}")


def split_field_type(t):
    """array^k(ptr^j(base)) -> (dims outermost first, stars, base)"""
    dims = []
    while t["k"] == "array":
        dims.append(t["len"])
        t = t["elem"]
    stars = 0
    while t["k"] == "ptr":
        stars += 1
        t = t["to"]
    if t["k"] == "array":
        raise ValueError("pointer to array is not expressible")
    return dims, stars, t


def dim_text(length):
    f = length["f"]
    if f == "fixed":
        return str(length["n"])
    if f == "expr":
        return length["text"]
    if f == "null":
        return ""
    if f == "eof":
        return "EOF"
    raise ValueError(f)


def render_field(f):
    dims, stars, base = split_field_type(f["t"])
    sp = base_spelling(base)
    if f["name"] is None:
        return f"{sp};"
    s = f"{sp} {'*' * stars}{f['name']}"
    if f.get("bits"):
        s += f.get("bitsep", " : ") + str(f["bits"])
    for d in dims:
        s += f"[{dim_text(d)}]"
    return s + ";"


def render_body(node):
    return "{ " + " ".join(render_field(f) for f in node["fields"]) + " }"


def render_enum(node):
    kw = "flag" if node["flag"] else "enum"
    base = f" : {node.get('base_as') or node['base']}" if node.get("show_base", True) else ""
    nm = f" {node['name']}" if node["name"] else ""
    return f"{kw}{nm}{base} {{ {', '.join(node['src'])} }};"


def render_struct_decl(node):
    kw = "union" if node["union"] else "struct"
    d = node["decl"]
    if d == "top":
        return f"{kw} {node['name']} {render_body(node)};"
    if d == "typedef":
        return f"typedef {kw} {render_body(node)} {node['name']};"
    if d == "typedef2":
        return f"typedef {kw} _{node['name']} {render_body(node)} {node['name']}, {node['name']}_alt;"
    if d == "typedef3":      # no tag, several names
        return f"typedef {kw} {render_body(node)} {node['name']}, {node['name']}_alt, {node['name']}_alt2;"
    if d == "top2":          # a tag and further names after the body
        return f"{kw} {node['name']} {render_body(node)} {node['name']}_alt, {node['name']}_alt2;"
    raise ValueError(d)


def render_decl(d):
    k = d["d"]
    if k == "define":
        return f"#define {d['name']} {d['text']}"
    if k == "enum":
        return render_enum(d["node"])
    if k == "struct":
        return render_struct_decl(d["node"])
    if k == "typedef":
        return f"typedef {d['target']} {d['name']};"
    raise ValueError(k)


def render_case(case):
    return "\n".join(render_decl(d) for d in case["decls"]) + "\n"


# ---------------------------------------------------------------------------------------------------
# generator

DEFAULT_OPTS = dict(
    max_fields=6, max_depth=2, max_len=4,
    bits=True, signed_bits=True, wide_bits=True, enum_bits=True, char_bits=True,
    enums=True, nested=True, unions=True, dyn_unions=False, ptrs=True, dyn=True, eof=True, floats=True,
    wide=True, wchar=True, leb=True, void=True, multidim=True, aliases=True, consts=True,
    fixed_only=False, null_struct=True, anon=True, named_structs=True, self_ptr=False,
    expr_rich=False, bias=None, name_prefix=None,
)

# identifiers that begin like a keyword, a built-in type, a literal prefix or an integer suffix: a scanner that
# matches keywords without a proper word boundary splits them
TRICKY_PREFIXES = ["struct_", "union_", "typedef_", "enum_", "flag_", "sizeof_", "unsigned_", "signed_", "define_",
                   "EOF_", "u", "ul", "_struct", "x0x", "b0b", "include_", "char_", "void_", "long_", "int_", "uint8_",
                   "const_", "structx", "enumx", "NULL_", "ifdef_"]


class Gen:
    def __init__(self, rng: random.Random, **opts):
        self.r = rng
        self.o = dict(DEFAULT_OPTS)
        self.o.update(opts)
        self.n = 0
        self.prefix = self.o["name_prefix"]
        if self.prefix is None:
            self.prefix = rng.choice(TRICKY_PREFIXES) if rng.random() < 0.1 else ""
        self.decls = []
        self.enums = []
        self.named = []  # named static/dynamic structs declared at top level
        self.consts = {}
        self.feats = set()

    # -- helpers
    def nm(self, p="f"):
        self.n += 1
        return f"{self.prefix}{p}{self.n}"

    def chance(self, p):
        return self.r.random() < p

    def feat(self, *tags):
        self.feats.update(tags)

    # -- leaf types
    def int_node(self, names=None):
        r = self.r
        if names is None:
            names = list(PACKED_INTS) * 3 + (list(WIDE_INTS) if self.o["wide"] else [])
        t = r.choice(names)
        spelled = None
        if self.o["aliases"] and self.chance(0.15):
            cands = [a for a, c in INT_ALIASES.items() if c == t]
            if cands:
                spelled = r.choice(cands)
                self.feat("alias")
        return N_int(t, spelled)

    def scalar_node(self):
        r = self.r
        x = r.random()
        if x < 0.55:
            return self.int_node()
        if x < 0.68 and self.o["floats"]:
            self.feat("float")
            return N_float(r.choice(list(FLOATS)))
        if x < 0.82:
            return N_char("CHAR" if self.o["aliases"] and self.chance(0.1) else None)
        if x < 0.92 and self.o["wchar"]:
            self.feat("wchar")
            return N_wchar("wchar_t" if self.o["aliases"] and self.chance(0.1) else None)
        if self.o["enums"]:
            return self.enum_node()
        return self.int_node()

    def enum_node(self, base=None, flag=None):
        r = self.r
        if self.enums and self.chance(0.5) and base is None and flag is None:
            return r.choice(self.enums)
        if flag is None:
            flag = self.chance(0.35)
        if base is None:
            if flag:
                base = r.choice(["uint8", "uint16", "uint32", "uint64"])
            else:
                base = r.choice(["uint8", "uint16", "uint32", "uint64", "int8", "int16", "int32", "int64"]
                                + (["uint24", "int48"] if self.o["wide"] else []))
        name = self.nm("E")
        size, signed = ALL_INTS[base]
        members, src = [], []
        nextval = 1 if flag else 0
        top = (1 << (size * 8 - (1 if signed else 0))) - 1
        for i in range(r.randint(1, 5)):
            mname = f"{name}_M{i}"
            x = r.random()
            if x < 0.45 or not members:
                val = nextval
                text = mname
                if x < 0.1:
                    val = r.choice([0, 1, 2, 3, 5, 8, 0x10, 0x7F]) if not flag else r.choice([1, 2, 4, 8, 0x10, 3, 6])
                    text = f"{mname} = {r.choice([str(val), hex(val)])}"
            elif x < 0.8:
                if flag:
                    val = r.choice([1, 2, 4, 8, 0x10, 0x20, 0x40, 3, 5, 6, 0x18])
                else:
                    val = r.choice([0, 1, 2, 3, 5, 8, 10, 0x10, 0x7F, 100])
                text = f"{mname} = {r.choice([str(val), hex(val)])}"
            else:
                prev, pv = r.choice(members)
                if flag:
                    k = r.randint(0, 2)
                    val = pv << k
                    text = f"{mname} = {prev} << {k}"
                else:
                    k = r.randint(0, 3)
                    val = pv + k
                    text = f"{mname} = {prev} + {k}"
            if val > top:
                break
            members.append([mname, val])
            src.append(text)
            if flag:
                nextval = 1 << val.bit_length() if val > 0 else 1
            else:
                nextval = val + 1
        if not members:
            members, src = [[f"{name}_M0", 1 if flag else 0]], [f"{name}_M0"]
        node = {"k": "enum", "name": name, "flag": flag, "base": base, "members": members, "src": src}
        if base == "uint32" and self.chance(0.3):
            node["show_base"] = False
        elif self.o["aliases"] and self.chance(0.25):
            # the underlying type under another (possibly multi-word) spelling
            spell = [a for a, c in INT_ALIASES.items() if c == base]
            if spell:
                node["base_as"] = self.r.choice(spell)
                self.feat("enum:base-alias" + (":multi-word" if " " in node["base_as"] else ""))
        self.decls.append({"d": "enum", "node": node})
        self.enums.append(node)
        self.feat("flag" if flag else "enum")
        return node

    def const(self):
        if self.consts and self.chance(0.6):
            return self.r.choice(list(self.consts))
        name = self.nm("K")
        val = self.r.randint(0, 4)
        text = self.r.choice([str(val), hex(val), f"({val})", f"{val} + 0"]) if self.chance(0.5) else str(val)
        self.consts[name] = val
        self.decls.insert(0, {"d": "define", "name": name, "text": text})
        self.feat("const")
        return name

    # -- bit fields
    def bit_run(self, fields, int_names):
        r = self.r
        pool = ["uint8", "uint16", "uint32", "uint64"]
        if self.o["signed_bits"]:
            pool += ["int8", "int16", "int32", "int64"]
        if self.o["wide_bits"] and self.o["wide"] and self.chance(0.15):
            pool = list(WIDE_INTS)
        units = r.randint(1, 2)
        for _ in range(units):
            enum = None
            if self.o["enum_bits"] and self.o["enums"] and self.chance(0.2):
                enum = self.enum_node()
                t = enum["base"]
            else:
                t = r.choice(pool)
            is_char = enum is None and self.o["char_bits"] and self.chance(0.1)
            if is_char:
                t = "char"          # a one-byte storage type of its own (never shares a unit with uint8 / int8)
            size, signed = ALL_INTS[t] if not is_char else (1, False)
            spelled = None
            if enum is None and not is_char and self.o["aliases"] and self.chance(0.15):
                cands = [a for a, c in INT_ALIASES.items() if c == t and " " not in a]
                if cands:
                    spelled = r.choice(cands)  # the storage type written under one of its alias names
            rem = size * 8
            # consecutive bit-fields of the same storage type continue the open unit
            st = getattr(self, "_bits", None)
            if st and st[0] is fields and st[1] == len(fields) and st[2] == t and st[3] > 0:
                rem = st[3]
            cnt = r.randint(1, 4)
            fill = self.chance(0.4)
            for j in range(cnt):
                if rem == 0:
                    break
                b = rem if (fill and j == cnt - 1) else r.randint(1, rem)
                node = enum if (enum is not None and self.chance(0.6)) else (
                    N_char() if is_char else N_int(t, spelled if self.chance(0.7) else None))
                nm = self.nm()
                fields.append(F(nm, node, bits=b, bitsep=r.choice([" : ", ":", " :", ": "])))
                if b <= 3 and node["k"] == "int":
                    int_names.append(nm)
                rem -= b
            self._bits = (fields, len(fields), t, rem)
            self.feat("bits", "bits:signed" if signed else "bits:unsigned")
            if size in (3, 6, 16):
                self.feat("bits:wide")
            if is_char:
                self.feat("bits:char")
            if enum is not None:
                self.feat("bits:enum")

    # -- arrays
    def length_expr(self, int_names, fields=None):
        text = self._length_expr(int_names)
        if fields is not None:
            # fields that supply a length get small values when inputs are built from model values
            import re as _re

            used = set(_re.findall(r"[A-Za-z_][A-Za-z0-9_]*", text))
            for f in fields:
                if f["name"] in used and f["t"]["k"] in ("int", "enum") and not f.get("bits"):
                    f["len_src"] = True
        return text

    def _length_expr(self, int_names):
        r = self.r
        a = r.choice(int_names)
        forms = [a, f"{a} + 1", f"{a} * 2", f"{a} - 1", f"({a} & 3) + 1", f"({a} & 7) % 3", f"{a} >> 1", f"{a} | 1",
                 f"{a}+1", f"2 * {a}", f"{a} - 2", f"-{a} + 3", f"~{a} & 3", f"{a} ^ 1", f"{a} << 1"]
        if len(int_names) > 1:
            b = r.choice(int_names)
            forms += [f"{a} + {b}", f"({a} + {b}) * 2 - 1", f"{a} * {b}", f"{a} | {b}", f"{a} - {b}"]
        if self.o["consts"] and self.chance(0.3):
            k = self.const()
            forms += [f"{a} + {k}", f"{k} * {a}", f"{k} + {a} * 2"] * 2
        if self.chance(0.15):
            forms += [f"sizeof(uint16) * {a}", f"{a} + sizeof(uint8)"] * 2
        return r.choice(forms)

    def array_of(self, elem, int_names, allow_dyn, last_top, fields=None):
        r = self.r
        o = self.o
        x = r.random()
        ek = elem["k"]
        if allow_dyn and o["dyn"] and x < 0.22 and int_names:
            self.feat("arr:expr")
            return N_array(elem, L_expr(self.length_expr(int_names, fields)))
        if allow_dyn and o["dyn"] and x < 0.36 and (
            ek in ("int", "char", "wchar", "leb", "enum") or (ek == "struct" and elem.get("all_int"))
        ):
            self.feat("arr:null")
            return N_array(elem, L_NULL)
        if allow_dyn and o["dyn"] and o["eof"] and last_top and x < 0.5:
            self.feat("arr:eof")
            return N_array(elem, L_EOF)
        if o["consts"] and x < 0.56:
            k = self.const()
            self.feat("arr:const")
            n = self.consts[k]
            # constant-only expressions are evaluated at load time -> fixed
            return N_array(elem, {"f": "fixed", "n": n, "text": k})
        n = r.choice([0, 1, 1, 2, 2, 3, 3, r.randint(0, o["max_len"])])
        if n == 0:
            self.feat("arr:zero")
        if n == 1:
            self.feat("arr:one")
        arr = N_array(elem, L_fixed(n))
        if o["multidim"] and self.chance(0.15) and ek != "ptr_":
            m = r.randint(1, 3)
            arr = N_array(arr, L_fixed(m))
            self.feat("arr:multidim")
        return arr

    # -- structs
    def all_int_struct(self):
        """A small static struct with integer members only (usable as a null-terminated array element)."""
        fields = []
        for _ in range(self.r.randint(1, 3)):
            fields.append(F(self.nm(), self.int_node(list(PACKED_INTS) + (["uint24"] if self.o["wide"] else []))))
        if self.chance(0.35):
            # a fixed-size array member: its all-zero value (b"\0\0", [0, 0]) is truthy, yet the all-zero element
            # is the terminator of a null-terminated array of these structures
            elem = N_char() if self.chance(0.5) else self.int_node(["uint8", "uint16", "int32"])
            fields.insert(self.r.randint(0, len(fields)), F(self.nm(), N_array(elem, L_fixed(self.r.randint(1, 3)))))
            self.feat("null-elem:array-member")
        s = N_struct(fields)
        s["all_int"] = True
        return s

    def struct(self, depth=0, union=False, allow_dyn=True, top=False, name=None, decl="inline"):
        r = self.r
        o = self.o
        if o["fixed_only"]:
            allow_dyn = False
        fields = []
        int_names = []
        nf = r.randint(1, o["max_fields"]) if not union else r.randint(1, min(4, o["max_fields"]))
        i = 0
        while i < nf:
            i += 1
            last_top = top and i == nf and not union
            x = r.random()
            fname = self.nm()
            bias = o.get("bias")
            if o["void"] and not union and self.chance(0.05 if bias != "bits" else 0.12):
                # a member without bytes (it still ends an open bit-field unit)
                fields.append(F(fname, {"k": "void"}))
                self.feat("void-member")
                continue
            if bias == "bits" and o["bits"] and not union and self.chance(0.45):
                self.bit_run(fields, int_names)
                continue
            if bias == "arrays" and self.chance(0.5):
                x = 0.3  # array of a scalar
            if bias == "ptrs" and o["ptrs"] and self.chance(0.4):
                x = 0.7
            if bias == "unions" and o["unions"] and o["nested"] and depth < o["max_depth"] and self.chance(0.4):
                x = 0.6
            if x < 0.26:
                t = self.scalar_node()
                if t["k"] == "enum" and not union and self.chance(0.5):
                    # an enum/flag field may supply an array length as well (its value is an integer)
                    fields.append(F(fname, t, len_src=True))
                    int_names.append(fname)
                    self.feat("len:enum-field")
                    continue
                fields.append(F(fname, t))
                if t["k"] == "int" and t["t"] in ("uint8", "int8"):
                    int_names.append(fname)
            elif x < 0.44:
                elem = self.scalar_node()
                arr = self.array_of(elem, int_names, allow_dyn and not union or (allow_dyn and o["dyn_unions"]),
                                    last_top, fields)
                fields.append(F(fname, arr))
            elif x < 0.54 and o["bits"] and not union:
                self.bit_run(fields, int_names)
            elif x < 0.66 and o["nested"] and depth < o["max_depth"]:
                kind = r.random()
                if kind < 0.18 and o["named_structs"] and self.named:
                    inner = r.choice(self.named)
                    if inner.get("dynamic_") and (not allow_dyn or union):
                        inner = None
                    else:
                        inner = dict(inner)
                        inner["spell_kw"] = self.chance(0.4) and inner["decl"] == "top"
                        self.feat("nested:named")
                else:
                    inner = None
                if inner is None:
                    is_union = o["unions"] and self.chance(0.8 if bias == "unions" else 0.3)
                    inner_dyn = allow_dyn and (not is_union or o["dyn_unions"]) and not union
                    inner = self.struct(depth + 1, union=is_union, allow_dyn=inner_dyn)
                    if o["named_structs"] and self.chance(0.25):
                        inner["name"] = self.nm("N")
                        inner["decl"] = r.choice(["top", "typedef", "typedef2", "top", "typedef", "typedef2", "typedef3", "top2"])
                        inner["dynamic_"] = inner_dyn
                        self.decls.append({"d": "struct", "node": inner})
                        self.named.append(inner)
                        inner = dict(inner)
                        inner["spell_kw"] = self.chance(0.4) and inner["decl"] == "top"
                        self.feat("nested:named")
                    self.feat("union" if is_union else "nested")
                y = r.random()
                if y < 0.2 and o["anon"] and inner["decl"] == "inline" and not inner.get("name"):
                    fields.append(F(None, inner))
                    self.feat("anon:union" if inner["union"] else "anon:struct")
                    if not inner["union"] and not union:
                        # the small integer fields of an anonymous structure member can size later arrays as well,
                        # also those of anonymous structures inside it (folded in through every level)
                        def fold(node, level):
                            for ff in node["fields"]:
                                if ff["name"] and not ff.get("bits") and ff["t"]["k"] == "int" and \
                                        ff["t"]["t"] in ("uint8", "int8") and self.chance(0.7):
                                    ff["len_src"] = True
                                    int_names.append(ff["name"])
                                    self.feat("len:folded-field" if level == 0 else "len:folded-field-deep")
                                elif ff["name"] is None and ff["t"]["k"] == "struct" and not ff["t"].get("union"):
                                    fold(ff["t"], level + 1)

                        fold(inner, 0)
                elif y < 0.45:
                    arr = self.array_of(inner, int_names, False, False)
                    # arrays of dynamic elements are fine (variable size) but need allow_dyn
                    fields.append(F(fname, arr))
                    self.feat("arr:struct")
                else:
                    fields.append(F(fname, inner))
            elif x < 0.72 and o["ptrs"]:
                tgt = r.random()
                if tgt < 0.06:
                    to = {"k": "void"}
                    self.feat("ptr:void")
                elif tgt < 0.4:
                    to = self.int_node(list(PACKED_INTS))
                elif tgt < 0.65:
                    to = N_char()
                elif tgt < 0.8 and self.named:
                    to = dict(r.choice(self.named))
                elif tgt < 0.9:
                    to = N_ptr(self.int_node(list(PACKED_INTS)))
                else:
                    to = self.all_int_struct()
                p = N_ptr(to)
                if self.chance(0.25):
                    if allow_dyn and o["dyn"] and not union and self.chance(0.3):
                        p = N_array(p, L_NULL)      # argv-like: ends at the first null pointer
                        self.feat("ptr:null-terminated-array")
                    else:
                        p = N_array(p, L_fixed(r.randint(0, 3)))
                    self.feat("ptr:array")
                fields.append(F(fname, p))
                self.feat("ptr")
            elif x < 0.86 and allow_dyn and o["dyn"] and not union:
                y = r.random()
                if y < 0.3 and int_names:
                    elem = self.scalar_node()
                    fields.append(F(fname, N_array(elem, L_expr(self.length_expr(int_names, fields)))))
                    self.feat("arr:expr")
                elif y < 0.5:
                    ek = r.random()
                    if ek < 0.3:
                        elem = N_char()
                    elif ek < 0.45 and o["wchar"]:
                        elem = N_wchar()
                    elif ek < 0.75:
                        elem = self.int_node()
                    elif ek < 0.85 and o["enums"]:
                        elem = self.enum_node()
                    elif ek < 0.93 and o["leb"]:
                        elem = N_leb(r.choice(["uleb128", "ileb128"]))
                    elif o["null_struct"]:
                        elem = self.all_int_struct()
                    else:
                        elem = N_char()
                    fields.append(F(fname, N_array(elem, L_NULL)))
                    self.feat("arr:null")
                elif y < 0.68 and o["leb"]:
                    fields.append(F(fname, N_leb(r.choice(["uleb128", "ileb128"]))))
                    self.feat("leb")
                elif y < 0.78 and o["leb"]:
                    fields.append(F(fname, N_array(N_leb(r.choice(["uleb128", "ileb128"])),
                                                   L_fixed(r.randint(0, 3)))))
                    self.feat("leb", "arr:leb")
                else:
                    fields.append(F(fname, N_int(r.choice(["uint8", "int8"])), len_src=True))
                    int_names.append(fname)
            else:
                fields.append(F(fname, N_int(r.choice(["uint8", "uint8", "int8"])), len_src=True))
                int_names.append(fname)
        s = N_struct(fields, name=name, union=union, decl=decl)
        return s

    def case(self, top_decl=None):
        r = self.r
        top = self.struct(0, top=True, name="T")
        top["decl"] = top_decl or r.choice(["top", "top", "typedef", "typedef2", "top", "top", "typedef", "typedef2",
                                            "typedef3", "top2"])
        self.decls.append({"d": "struct", "node": top})
        if self.prefix:
            self.feat("names:keyword-like-prefix")
        return finish_case(self.decls, top, self.consts, self.feats)


def finish_case(decls, top, consts, feats=()):
    case = {"decls": decls, "top": top, "consts": dict(consts), "feats": sorted(feats)}
    case["text"] = render_case(case)
    return case


def simple_case(fields, union=False, decls=(), consts=None, top_decl="top"):
    """Hand-built case: fields is a list of F(...)."""
    top = N_struct(fields, name="T", union=union, decl=top_decl)
    d = list(decls) + [{"d": "struct", "node": top}]
    return finish_case(d, top, consts or {})


# ---------------------------------------------------------------------------------------------------
# structural helpers used by several checks


def walk(node, fn, path=()):
    fn(node, path)
    k = node["k"]
    if k == "array":
        walk(node["elem"], fn, path + ("[]",))
    elif k == "ptr":
        pass  # pointer targets are not part of the containing layout
    elif k == "struct":
        for i, f in enumerate(node["fields"]):
            walk(f["t"], fn, path + (f["name"] or f"#{i}",))


def has_kind(node, pred):
    found = []
    walk(node, lambda n, p: found.append(1) if pred(n) else None)
    return bool(found)


def is_dynamic_len(length):
    return length["f"] != "fixed"


def node_dynamic(node):
    """True when the encoded size of the node depends on the data."""
    k = node["k"]
    if k == "leb":
        return True
    if k == "array":
        return is_dynamic_len(node["len"]) or node_dynamic(node["elem"])
    if k == "struct":
        return any(node_dynamic(f["t"]) for f in node["fields"])
    return False


def has_dynamic_union(node):
    return has_kind(node, lambda n: n["k"] == "struct" and n["union"] and node_dynamic(n))


def has_union(node):
    return has_kind(node, lambda n: n["k"] == "struct" and n["union"])


def has_eof(node):
    return has_kind(node, lambda n: n["k"] == "array" and n["len"]["f"] == "eof")


def has_float(node):
    return has_kind(node, lambda n: n["k"] == "float")


def has_leb(node):
    return has_kind(node, lambda n: n["k"] == "leb")


def has_ptr(node):
    return has_kind(node, lambda n: n["k"] == "ptr")


def has_bits(node):
    return has_kind(node, lambda n: n["k"] == "struct" and any(f.get("bits") for f in n["fields"]))


# ---------------------------------------------------------------------------------------------------
# hostile byte inputs


def arbitrary_bytes(rng: random.Random, n: int, mode: int | None = None) -> bytes:
    if mode is None:
        mode = rng.randrange(4)
    if mode == 0:
        return bytes(rng.randrange(256) for _ in range(n))
    if mode == 1:
        return bytes(rng.choice((0x00, 0x01, 0x7F, 0x80, 0xFF)) for _ in range(n))
    if mode == 2:
        return bytes(rng.choice((1, 2, 3, 0x41, 0, 2, 1)) for _ in range(n))
    # mostly small with a few hostile bytes
    return bytes(rng.choice((0, 1, 2, 3, 4, 0x80, 0xFF, rng.randrange(256))) for _ in range(n))


def deep_folded_case(rng):
    """A structure whose array lengths (one or two dimensions, also a constant outer with a computed inner one) name
    fields folded in through two or three levels of anonymous structures, the innermost one optionally a union, with
    and without a constant of the same name.  Returns a case (hand-built)."""
    depth = rng.randint(2, 3)
    cnt = F("n", N_int("uint8"), len_src=True)
    innermost = [cnt, F("q", N_int(rng.choice(["uint8", "uint16"])))]
    if rng.random() < 0.5:
        innermost.reverse()
    node = N_struct(innermost, union=rng.random() < 0.35)
    if node.get("union"):
        node["fields"] = [cnt, F("raw", N_int("uint8"))]
    for lvl in range(depth - 1):
        extra = F(f"k{lvl}", N_int(rng.choice(["uint8", "int8", "uint16"])), len_src=lvl == 0)
        fields = [extra, F(None, node)] if rng.random() < 0.6 else [F(None, node), extra]
        node = N_struct(fields)
    elem = N_int(rng.choice(["uint8", "uint16", "uint32"]))
    expr = rng.choice(["n", "n & 3", "(n & 1) + 1"])
    arr = N_array(elem, L_expr(expr))
    x = rng.random()
    if x < 0.25:
        arr = N_array(N_array(elem, L_expr("n & 3")), L_expr("k0 & 1"))
    elif x < 0.5:
        # constant outer dimension, computed inner one
        arr = N_array(N_array(elem, L_expr(expr)), L_fixed(rng.randint(1, 3)))
    fields = [F("h", N_int("uint8")), F(None, node), F("a", arr), F("t", N_int("uint8"))]
    consts, decls = {}, ()
    if rng.random() < 0.3:
        # a constant of the same name: the field read before the array wins
        consts, decls = {"n": 2}, ({"d": "define", "name": "n", "text": "2"},)
    case = simple_case(fields, consts=consts, decls=decls)
    case["named"] = {}
    return case


def runtime_placed_units_case(rng):
    """A structure whose bit-field storage units are placed at run time: a variable-size member first, then runs of
    bit-fields -- with storage types whose size is not their alignment (int24 / int48) among them -- in which a unit is
    filled exactly and followed by another unit of the same type, then ordinary members.  (Hand-built.)"""
    fields = [F("n", N_int("uint8"), len_src=True), F("d", N_array(N_char(), L_expr("n & 3")))]
    k = 0
    for run in range(rng.randint(1, 3)):
        st = rng.choice(["uint24", "int24", "uint48", "int48", "uint16", "uint32", "uint8"])
        total = ALL_INTS[st][0] * 8
        for unit in range(rng.randint(1, 3)):
            left = total
            exact = rng.random() < 0.7
            while left:
                w = left if exact and rng.random() < 0.5 else rng.randint(1, left)
                if not exact and w == left and left > 1:
                    w = left - 1
                fields.append(F(f"b{k}", N_int(st), bits=w))
                k += 1
                left -= w
                if not exact and rng.random() < 0.5:
                    break
        if rng.random() < 0.5:
            fields.append(F(f"m{run}", N_int(rng.choice(["uint8", "uint16", "uint32"]))))
    fields.append(F("tail", N_int("uint8")))
    case = simple_case(fields)
    case["named"] = {}
    return case
