"""Shard fan-out, merge, known-finding classification, evidence and verdict.

usage: runner.py <Cxx> <quick|thorough> | runner.py <Cxx> --replay <file>
exit 0: held on everything explored (KNOWN-FINDING lines for listed open findings)
exit 1: VIOLATION property=<id> replay=<path>
exit 2: INCONCLUSIVE reason=...   (deciding monitor never reached, watchdog fired, worker crashed)
"""
from __future__ import annotations

import json
import os
import subprocess
import sys
import tempfile
import time

HERE = os.path.dirname(os.path.abspath(__file__))
ROOT = os.path.dirname(HERE)
sys.path.insert(0, ROOT)

from vf import known, registry  # noqa: E402

PY = os.environ.get("VERIF_PYTHON", "/venv/bin/python")
REPO = os.path.realpath(os.environ.get("VERIF_REPO", "/repo"))
NCPU = int(os.environ.get("VERIF_JOBS", "0") or 0) or min(16, os.cpu_count() or 4)
# evidence/ and replays/ live in the checkout; runs against a scratch tree (VERIF_REPO) can be redirected
OUT = os.environ.get("VERIF_OUT") or ROOT


def child_env():
    env = dict(os.environ)
    env["PYTHONPATH"] = REPO + os.pathsep + ROOT
    env["PYTHONDONTWRITEBYTECODE"] = "1"
    env["PYTHONHASHSEED"] = "0"
    env["VERIF_REPO"] = REPO
    return env


def run_shards(prop, tier, seed, meta, replay=None):
    nshards = 1 if replay else meta["shards"][tier]
    budget = meta["budget"][tier]
    tmp = tempfile.mkdtemp(prefix=f"vf-{prop}-")
    env = child_env()
    env["VF_SHARD_BUDGET_S"] = str(budget)
    pending = list(range(nshards))
    running = {}
    results, problems = [], []
    hard = budget * 3 + 120
    env["VF_SHARD_HARD_S"] = str(hard)
    while pending or running:
        while pending and len(running) < NCPU:
            s = pending.pop(0)
            out = os.path.join(tmp, f"{s}.json")
            cmd = [PY, "-B", "-m", "vf.worker", prop, tier, str(seed), str(s), str(nshards), out]
            if replay:
                cmd.append(replay)
            log = open(os.path.join(tmp, f"{s}.log"), "w")
            p = subprocess.Popen(cmd, cwd=ROOT, env=env, stdout=log, stderr=subprocess.STDOUT)
            running[s] = (p, out, time.time(), log)
        time.sleep(0.05)
        for s, (p, out, t0, log) in list(running.items()):
            rc = p.poll()
            if rc is None:
                if time.time() - t0 > hard:
                    p.kill()
                    p.wait()
                    log.close()
                    # the worker dumps its stack shortly before the watchdog fires: say where it was
                    where = ""
                    try:
                        lines = [ln.strip() for ln in open(os.path.join(tmp, f"{s}.log")) if ln.strip().startswith("File ")]
                        where = " (stack: " + " <- ".join(ln.split("/")[-1] for ln in lines[:6]) + ")" if lines else ""
                    except Exception:  # noqa: BLE001
                        pass
                    problems.append(f"shard {s}: watchdog fired after {hard}s{where}")
                    del running[s]
                continue
            log.close()
            del running[s]
            try:
                with open(out) as fh:
                    results.append(json.load(fh))
            except Exception:  # noqa: BLE001
                # (the scratch directory itself may be gone -- somebody cleaned /tmp: a harness problem, never a verdict)
                try:
                    tail = open(os.path.join(tmp, f"{s}.log")).read()[-800:]
                except OSError as e:
                    tail = f"no shard log: {e}"
                problems.append(f"shard {s}: worker died rc={rc}: {tail}")
            if replay:
                try:
                    sys.stdout.write(open(os.path.join(tmp, f"{s}.log")).read())
                except OSError:
                    pass
    try:
        for f in os.listdir(tmp):
            os.unlink(os.path.join(tmp, f))
        os.rmdir(tmp)
    except OSError:
        pass
    return results, problems


def merge(results):
    m = {"evaluations": 0, "distinct": set(), "cells": {}, "events": {}, "samples": [], "violations": [],
         "viol_count": 0, "known": {}, "inconclusive": [], "reach": set(), "compiled": 0, "extra": {},
         "timed_out": 0, "witness": {}}
    for r in sorted(results, key=lambda r: r["shard"]):
        m["evaluations"] += r["evaluations"]
        m["distinct"].update(r["distinct"])
        for k, v in r["cells"].items():
            m["cells"][k] = m["cells"].get(k, 0) + v
        for k, v in r["events"].items():
            m["events"][k] = m["events"].get(k, 0) + v
        if len(m["samples"]) < 4:
            m["samples"].extend(r["samples"][: 4 - len(m["samples"])])
        m["violations"].extend(r["violations"])
        m["viol_count"] += r["viol_count"]
        for x in r["inconclusive"]:
            if x not in m["inconclusive"]:
                m["inconclusive"].append(x)
        m["reach"].update(r.get("reach", {}).get("functions", []))
        m["compiled"] += r.get("reach", {}).get("compiled_readers", 0)
        m["timed_out"] += 1 if r.get("timed_out") else 0
        for k, v in (r.get("extra") or {}).items():
            if k == "witness":
                m["witness"].update(v)
            elif isinstance(v, (int, float)) and not isinstance(v, bool):
                m["extra"][k] = m["extra"].get(k, 0) + v
            elif isinstance(v, list):
                cur = m["extra"].setdefault(k, [])
                for x in v:
                    if x not in cur and len(cur) < 200:
                        cur.append(x)
            elif isinstance(v, dict):
                cur = m["extra"].setdefault(k, {})
                for kk, vv in v.items():
                    if isinstance(vv, (int, float)):
                        cur[kk] = cur.get(kk, 0) + vv
                    else:
                        cur.setdefault(kk, vv)
            else:
                m["extra"].setdefault(k, v)
    return m


def main(argv):
    if len(argv) < 1:
        print(__doc__)
        return 2
    if len(argv) < 2:
        argv = [argv[0], os.environ.get("VERIF_TIER", "quick")]
    prop = argv[0].upper()
    replay = None
    if argv[1] == "--replay":
        replay = os.path.abspath(argv[2])
        tier = json.load(open(replay)).get("tier", "quick")
    else:
        tier = argv[1]
    if tier not in ("quick", "thorough"):
        tier = os.environ.get("VERIF_TIER", "quick")
    seed = int(os.environ.get("VERIF_SEED", "0") or 0)
    meta = registry.CHECKS[prop]
    t0 = time.time()
    if not replay:
        rdir = os.path.join(OUT, "replays")
        if os.path.isdir(rdir):
            for f in os.listdir(rdir):
                if f.startswith(prop + "-") and f.endswith(".json"):
                    os.unlink(os.path.join(rdir, f))
    results, problems = run_shards(prop, tier, seed, meta, replay)
    m = merge(results)
    wall = time.time() - t0

    open_ids = known.open_findings(prop)
    real, seen_known = [], {}
    for v in m["violations"]:
        kid = known.classify(prop, v)
        if kid is not None and kid in open_ids:
            seen_known.setdefault(kid, v)
        else:
            real.append(v)
    for kid, ok in m["witness"].items():
        if ok and kid in open_ids:
            seen_known.setdefault(kid, {"kind": "pinned-witness", "sig": kid, "detail": {}})

    inconclusive = list(m["inconclusive"]) + problems
    if not replay:
        for fn in meta.get("required_reach", []):
            if fn == "<compiled>":
                if not m["compiled"]:
                    inconclusive.append("no generated reader was ever executed")
            elif fn not in m["reach"]:
                inconclusive.append(f"deciding mechanism never reached: {fn}")
        for c in meta.get("required_cells", []):
            if not m["cells"].get(c):
                inconclusive.append(f"required workload cell empty: {c}")
        if m["evaluations"] == 0:
            inconclusive.append("no evaluations")
        if m["timed_out"]:
            # shards stop generating when their budget is used up; that only shrinks the sample
            m["events"]["shards_stopped_by_budget"] = m["timed_out"]

    replay_paths = []
    if real and not replay:
        os.makedirs(os.path.join(OUT, "replays"), exist_ok=True)
        for i, v in enumerate(real[:5]):
            path = os.path.join("replays", f"{prop}-{i}.json")
            with open(os.path.join(OUT, path), "w") as fh:
                json.dump({"property": prop, "tier": tier, "seed": seed, **v}, fh, indent=1)
            replay_paths.append(path)

    if not replay:
        distinct = len(m["distinct"])
        cov = {
            "evaluations": m["evaluations"],
            "distinct_nontrivial": distinct,
            "rule": meta["rule"],
            "samples": m["samples"] or [{"note": "no sample recorded"}],
            "exhaustive": bool(meta.get("exhaustive", {}).get(tier, False)),
            "feature_cells": dict(sorted(m["cells"].items())),
            "monitor_events": dict(sorted(m["events"].items())),
            "mechanism_hits": sorted(f for f in m["reach"] if any(f.startswith(a) for a in meta.get("anchors", [""]))),
            "compiled_readers_executed": m["compiled"],
            "known_findings_seen": sorted(seen_known),
            "inconclusive_reasons": inconclusive,
            "shards": meta["shards"][tier],
            **({"extra": m["extra"]} if m["extra"] else {}),
        }
        ev = {
            "property_id": prop, "tier": tier, "seed": seed, "level": meta["level"], "coverage": cov,
            "assumptions": meta.get("assumptions", []), "wall_s": round(wall, 2),
            "violations": len(real) if real else 0,
        }
        os.makedirs(os.path.join(OUT, "evidence"), exist_ok=True)
        with open(os.path.join(OUT, "evidence", f"{prop}.json"), "w") as fh:
            json.dump(ev, fh, indent=1, sort_keys=True)

    for kid in sorted(seen_known):
        print(f"KNOWN-FINDING: property={prop} id={kid} {known.FINDINGS[kid]['what']}")
    print(f"[{prop} {tier} seed={seed}] evaluations={m['evaluations']} distinct={len(m['distinct'])} "
          f"violations={m['viol_count']} (unlisted={len(real)}) known={sorted(seen_known)} wall={wall:.1f}s")
    if real:
        for v in real[:5]:
            print(f"  violation kind={v['kind']} sig={v['sig']}")
        if replay:
            print("REPLAY: violation reproduced")
            return 1
        print(f"VIOLATION property={prop} replay={replay_paths[0]}")
        return 1
    if replay:
        print("REPLAY: no violation")
        return 0
    if inconclusive:
        for r in inconclusive:
            print(f"INCONCLUSIVE reason={r}")
        return 2
    return 0


if __name__ == "__main__":
    sys.exit(main(sys.argv[1:]))
