"""Independent reference evaluator for the C-like integer expressions of C10.

Own tokenizer + precedence climbing with the C table.  Nothing here imports dissect.cstruct.

  evaluate(text, ctx, consts, sizeof) -> (value, flags)

flags is a set; "cdiv" is set when a / or % was applied to a negative operand (C and floor semantics
differ there, and the property only claims C for non-negative operands), "negshift" when a shift count
was negative, "divzero" when a division by zero occurred (value is None then).
"""
from __future__ import annotations


class RefSyntaxError(Exception):
    pass


class RefNameError(Exception):
    pass


OPS2 = ("<<", ">>")
OPS1 = set("*/%+-&^|~()")


def tokenize(text: str):
    toks = []
    i, n = 0, len(text)
    while i < n:
        c = text[i]
        if c in " \t":
            i += 1
            continue
        if text[i:i + 2] in OPS2:
            toks.append(("op", text[i:i + 2]))
            i += 2
            continue
        if c in OPS1:
            toks.append(("op", c))
            i += 1
            continue
        if c.isdigit():
            j = i
            if c == "0" and i + 1 < n and text[i + 1] in "xX":
                j = i + 2
                while j < n and text[j] in "0123456789abcdefABCDEF":
                    j += 1
                if j == i + 2:
                    raise RefSyntaxError("bad hex literal")
                val = int(text[i + 2:j], 16)
            elif c == "0" and i + 1 < n and text[i + 1] in "bB":
                j = i + 2
                while j < n and text[j] in "01":
                    j += 1
                if j == i + 2:
                    raise RefSyntaxError("bad binary literal")
                val = int(text[i + 2:j], 2)
            else:
                while j < n and text[j].isdigit():
                    j += 1
                lit = text[i:j]
                if len(lit) > 1 and lit[0] == "0":
                    if any(ch in "89" for ch in lit):
                        raise RefSyntaxError("bad octal literal")
                    val = int(lit, 8)
                else:
                    val = int(lit, 10)
            # integer suffixes: u, l, ul, lu, ll, ull, llu (any case)
            k = j
            suf = ""
            while k < n and text[k] in "uUlL" and len(suf) < 3:
                suf += text[k].lower()
                k += 1
            if suf not in ("", "u", "l", "ul", "lu", "ll", "ull", "llu"):
                raise RefSyntaxError("bad literal suffix")
            j = k
            if j < n and (text[j].isalnum() or text[j] == "_"):
                raise RefSyntaxError("junk after literal")
            toks.append(("num", val))
            i = j
            continue
        if c.isalpha() or c == "_":
            j = i
            while j < n and (text[j].isalnum() or text[j] == "_"):
                j += 1
            toks.append(("id", text[i:j]))
            i = j
            continue
        raise RefSyntaxError(f"bad character {c!r}")
    return toks


BIN_PREC = {"|": 1, "^": 2, "&": 3, "<<": 4, ">>": 4, "+": 5, "-": 5, "*": 6, "/": 6, "%": 6}


class _P:
    def __init__(self, toks, ctx, consts, sizeof):
        self.t = toks
        self.i = 0
        self.ctx = ctx or {}
        self.consts = consts or {}
        self.sizeof = sizeof
        self.flags = set()
        self.notes = set()   # facts that matter only when comparing with a real C compiler (not verdict flags)
        self.maxabs = 0

    def peek(self):
        return self.t[self.i] if self.i < len(self.t) else None

    def take(self):
        tok = self.peek()
        if tok is None:
            raise RefSyntaxError("unexpected end")
        self.i += 1
        return tok

    def primary(self):
        kind, v = self.take()
        if kind == "num":
            return v
        if kind == "id":
            if v == "sizeof":
                if self.take() != ("op", "("):
                    raise RefSyntaxError("sizeof needs (")
                words = []
                while self.peek() is not None and self.peek()[0] == "id":
                    words.append(self.take()[1])
                if not words or self.take() != ("op", ")"):
                    raise RefSyntaxError("sizeof needs a type name")
                if self.sizeof is None:
                    raise RefNameError("sizeof")
                return self.sizeof(" ".join(words))
            if v in self.ctx:
                return int(self.ctx[v])
            if v in self.consts:
                return int(self.consts[v])
            raise RefNameError(v)
        if (kind, v) == ("op", "("):
            x = self.expr(1)
            if self.take() != ("op", ")"):
                raise RefSyntaxError("missing )")
            return x
        raise RefSyntaxError(f"unexpected {v!r}")

    def unary(self):
        tok = self.peek()
        if tok == ("op", "-"):
            self.take()
            x = self.unary()
            return None if x is None else -x
        if tok == ("op", "~"):
            self.take()
            x = self.unary()
            return None if x is None else ~x
        return self.primary()

    def expr(self, minprec):
        left = self.unary()
        while True:
            tok = self.peek()
            if tok is None or tok[0] != "op" or tok[1] not in BIN_PREC or BIN_PREC[tok[1]] < minprec:
                return left
            op = self.take()[1]
            right = self.expr(BIN_PREC[op] + 1)  # left associative
            left = self.apply(op, left, right)

    def apply(self, op, a, b):
        r = self._apply(op, a, b)
        for x in (a, b, r):
            if x is not None and abs(x) > self.maxabs:
                self.maxabs = abs(x)
        return r

    def _apply(self, op, a, b):
        if a is None or b is None:
            return None
        if op == "|":
            return a | b
        if op == "^":
            return a ^ b
        if op == "&":
            return a & b
        if op in ("<<", ">>"):
            if b < 0:
                self.flags.add("negshift")
                return None
            if a < 0:
                self.notes.add("shift-of-negative")
            if b >= 62:
                self.notes.add("wide-shift")
            if op == "<<" and b > 4096:
                self.flags.add("hugeshift")
                return None
            return a << b if op == "<<" else a >> b
        if op == "+":
            return a + b
        if op == "-":
            return a - b
        if op == "*":
            return a * b
        if op in ("/", "%"):
            if b == 0:
                self.flags.add("divzero")
                return None
            if a < 0 or b < 0:
                self.flags.add("cdiv")
            q = abs(a) // abs(b)
            if (a < 0) != (b < 0):
                q = -q
            return q if op == "/" else a - q * b
        raise RefSyntaxError(op)


def evaluate(text, ctx=None, consts=None, sizeof=None):
    toks = tokenize(text)
    if not toks:
        raise RefSyntaxError("empty")
    p = _P(toks, ctx, consts, sizeof)
    v = p.expr(1)
    if p.peek() is not None:
        raise RefSyntaxError("trailing tokens")
    return v, p.flags


def evaluate_ex(text, ctx=None, consts=None, sizeof=None):
    """Like evaluate, plus {"notes", "maxabs", "tokens"} for the cross-check against a real C compiler."""
    toks = tokenize(text)
    if not toks:
        raise RefSyntaxError("empty")
    p = _P(toks, ctx, consts, sizeof)
    v = p.expr(1)
    if p.peek() is not None:
        raise RefSyntaxError("trailing tokens")
    if v is not None and abs(v) > p.maxabs:
        p.maxabs = abs(v)
    return v, p.flags, {"notes": p.notes, "maxabs": p.maxabs, "tokens": toks}
