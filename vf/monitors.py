"""Monitors attached to the real library from the harness (no repository hooks needed).

* Reach: which library functions / generated readers were actually entered (sys.monitoring PY_START, one-shot).
* wrap_*: call wrappers that record events or compare each call with an independent oracle.  Wrappers pass
  return values and exceptions through unchanged and never raise inside the call.
"""
from __future__ import annotations

import collections
import os
import sys

from . import lib

mon = sys.monitoring
PKG_DIR = os.path.join(lib.REPO, "dissect", "cstruct") + os.sep


class Reach:
    TOOL = mon.COVERAGE_ID

    def __init__(self):
        self.funcs = collections.Counter()
        self.compiled = 0
        self.active = False

    def _on_start(self, code, offset):
        fn = code.co_filename
        if fn.startswith(PKG_DIR):
            self.funcs[f"{fn[len(PKG_DIR):]}:{code.co_qualname}"] += 1
        elif fn.startswith("<compiled"):
            self.compiled += 1
        return mon.DISABLE

    def start(self):
        try:
            mon.use_tool_id(self.TOOL, "vf-reach")
        except ValueError:
            return
        mon.register_callback(self.TOOL, mon.events.PY_START, self._on_start)
        mon.set_events(self.TOOL, mon.events.PY_START)
        self.active = True

    def stop(self):
        if self.active:
            mon.set_events(self.TOOL, 0)
            mon.free_tool_id(self.TOOL)
            self.active = False

    def report(self):
        return {"functions": sorted(self.funcs), "compiled_readers": self.compiled}


# ---------------------------------------------------------------------------------------------------
# generic wrapping helpers (preserve descriptor kinds)


class Patch:
    """Reversible monkeypatches."""

    def __init__(self):
        self.undo = []

    def set(self, owner, name, value):
        had = name in owner.__dict__
        old = owner.__dict__.get(name)
        self.undo.append((owner, name, had, old))
        setattr(owner, name, value)

    def restore(self):
        for owner, name, had, old in reversed(self.undo):
            if had:
                setattr(owner, name, old)
            else:
                try:
                    delattr(owner, name)
                except AttributeError:
                    pass
        self.undo = []

    def __enter__(self):
        return self

    def __exit__(self, *a):
        self.restore()


def wrap_classmethod(patch, owner, name, before=None, after=None):
    """Wrap a classmethod defined on `owner` (a class).  after(cls, args, kwargs, result, exc, token)."""
    raw = owner.__dict__[name]
    func = raw.__func__

    def wrapper(cls, *args, **kwargs):
        token = before(cls, args, kwargs) if before else None
        try:
            res = func(cls, *args, **kwargs)
        except BaseException as e:
            if after:
                try:
                    after(cls, args, kwargs, None, e, token)
                except Exception:  # noqa: BLE001
                    pass
            raise
        if after:
            after(cls, args, kwargs, res, None, token)
        return res

    wrapper.__wrapped__ = func
    patch.set(owner, name, classmethod(wrapper))


def wrap_method(patch, owner, name, before=None, after=None):
    """Wrap a plain function attribute (instance method or metaclass method)."""
    func = owner.__dict__[name]

    def wrapper(self, *args, **kwargs):
        token = before(self, args, kwargs) if before else None
        try:
            res = func(self, *args, **kwargs)
        except BaseException as e:
            if after:
                try:
                    after(self, args, kwargs, None, e, token)
                except Exception:  # noqa: BLE001
                    pass
            raise
        if after:
            after(self, args, kwargs, res, None, token)
        return res

    wrapper.__wrapped__ = func
    patch.set(owner, name, wrapper)
