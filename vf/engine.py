"""Shared workload helpers: case generation, configurations, inputs, layout/size signatures, comparisons."""
from __future__ import annotations

import io
import re

from . import gen, lib, model
from .lib import Pointer, Structure


def make_case(rng, **opts):
    g = gen.Gen(rng, **opts)
    case = g.case()
    case["named"] = {n["name"]: n for n in g.named}
    return case


def mcfg(case, endian, align, ptr="uint64"):
    return model.Cfg(endian, align, ptr or "uint64", case["consts"], case.get("named", {}))


def case_brief(case, **kw):
    d = {"text": case["text"]}
    d.update(kw)
    return d


def case_detail(case, **kw):
    """Self-contained replayable description."""
    ast = model.strip_cache({"decls": case["decls"], "top": case["top"], "consts": case["consts"],
                             "named": case.get("named", {})})
    d = {"text": case["text"], "ast": ast}
    d.update(kw)
    return d


def case_from_detail(detail):
    ast = detail["ast"]
    case = {"decls": ast["decls"], "top": ast["top"], "consts": ast["consts"], "named": ast.get("named", {}),
            "text": detail["text"], "feats": []}
    return case


def unhex(x):
    if isinstance(x, str) and x.startswith("hex:"):
        return bytes.fromhex(x[4:])
    return x


# ---------------------------------------------------------------------------------------------------
# inputs


def model_input(case, cfg, rng, tail=64, maxlen=4):
    """-> (input bytes, consumed length, mask, value) built from a random model value, garbage in padding."""
    top = case["top"]
    v = model.random_value(top, rng, cfg, maxlen=maxlen)
    data, mask = model.dump(top, v, cfg)
    inp = model.garbage_fill(data, mask, rng)
    if gen.has_eof(top):
        tail = 0
    inp += bytes(rng.randrange(256) for _ in range(tail))
    return inp, len(data), mask, v


def expected_parse(case, cfg, inp, pos=0):
    """Model outcome on arbitrary bytes: ("ok", value, end, notes) | ("eof",) | ("decode",) | ("unsupported",)"""
    notes = model.Notes()
    try:
        v, end = model.parse(case["top"], inp, pos, cfg, None, notes)
    except model.ModelEOF:
        return ("eof", None, None, notes)
    except model.ModelDecodeError:
        return ("decode", None, None, notes)
    except model.ModelUnsupported:
        return ("unsupported", None, None, notes)
    return ("ok", v, end, notes)


# ---------------------------------------------------------------------------------------------------
# layout and sizes signatures of library types / values


def type_sig(t, depth=0):
    """Structural signature of a library type class (names of anonymous types normalised)."""
    from dissect.cstruct.types.base import BaseArray
    from dissect.cstruct.types.enum import EnumMetaType

    name = re.sub(r"__anonymous_\d+__", "__anon__", t.__name__)
    if isinstance(t, EnumMetaType):
        return ("enum", name, t.type.__name__, tuple((k, int(v.value)) for k, v in t.__members__.items()))
    if issubclass(t, Structure):
        if depth > 6:
            return ("struct", name, "...")
        return ("union" if issubclass(t, lib.Union) else "struct", name, t.size, t.alignment,
                bool(getattr(t, "__align__", False)),
                tuple((f.name, f.offset, f.bits, type_sig(f.type, depth + 1)) for f in t.__fields__))
    if issubclass(t, BaseArray):
        n = t.num_entries
        n = n if isinstance(n, int) or n is None else "expr:" + "".join(str(n.expression).split())
        return ("array", n, bool(t.null_terminated), t.size, t.alignment, type_sig(t.type, depth + 1))
    if issubclass(t, Pointer):
        return ("ptr", t.size, t.alignment, re.sub(r"__anonymous_\d+__", "__anon__", t.type.__name__))
    return ("scalar", name, t.size, t.alignment)


def sizes_tree(obj, node, path="", out=None):
    """{path: _sizes} for the structure and every nested structure value (guided by the AST)."""
    if out is None:
        out = {}
    obj = lib.unwrap(obj)
    k = node["k"]
    if k == "struct":
        if not isinstance(obj, Structure):
            return out
        out[path or "."] = {re.sub(r"__anonymous_\d+__", "__anon__", kk): vv
                            for kk, vv in dict(getattr(obj, "_sizes", {}) or {}).items()}
        for i, (nf, lf) in enumerate(zip(node["fields"], type(obj).__fields__)):
            if nf.get("bits"):
                continue
            sizes_tree(getattr(obj, lf._name), nf["t"], f"{path}.{nf['name'] or '#%d' % i}", out)
    elif k == "array" and node["elem"]["k"] in ("struct", "array"):
        if isinstance(obj, list):
            for j, e in enumerate(obj):
                sizes_tree(e, node["elem"], f"{path}[{j}]", out)
    return out


def sizes_agree(a, b):
    """Compare two size trees on the entries both record."""
    for p in set(a) & set(b):
        for k in set(a[p]) & set(b[p]):
            if a[p][k] != b[p][k]:
                return False, (p, k, a[p][k], b[p][k])
    return True, None


SRC_FMT = re.compile(r'_struct\(cls\.cs\.endian, "([^"]*)"\)')


def source_shapes(T, shapes):
    """Collect the distinct shapes of generated reader source reachable from T."""
    seen = set()

    def rec(t):
        if id(t) in seen:
            return
        seen.add(id(t))
        from dissect.cstruct.types.base import BaseArray

        if issubclass(t, Structure):
            if getattr(t, "__compiled__", False):
                src = getattr(t._read.__func__, "__source__", "")
                for m in SRC_FMT.finditer(src):
                    shapes["fmt"].add(m.group(1))
                if "stream.seek(o + " in src:
                    shapes["flags"]["seek_static"] = shapes["flags"].get("seek_static", 0) + 1
                if "-stream.tell() &" in src:
                    shapes["flags"]["seek_align"] = shapes["flags"].get("seek_align", 0) + 1
                if "bit_reader" in src:
                    shapes["flags"]["bit_reader"] = shapes["flags"].get("bit_reader", 0) + 1
                if "_pt.__new__" in src or "_et.__new__" in src:
                    shapes["flags"]["pointer"] = shapes["flags"].get("pointer", 0) + 1
                if "buf[" in src:
                    shapes["flags"]["byte_slice"] = shapes["flags"].get("byte_slice", 0) + 1
                shapes["flags"]["compiled"] = shapes["flags"].get("compiled", 0) + 1
            else:
                shapes["flags"]["fallback"] = shapes["flags"].get("fallback", 0) + 1
            for f in t.__fields__:
                rec(f.type)
        elif issubclass(t, BaseArray):
            rec(t.type)

    rec(T)


class ParseAbandoned(Exception):
    """Raised *into* a parse that did not finish within PARSE_LIMIT_S (see guard)."""


PARSE_LIMIT_S = 15.0
ABANDONED = [0]


class guard:
    """A parse of hostile bytes can be asked for billions of entries that occupy no bytes (a count taken from a 32-bit
    field, an inner dimension of 0): the library then loops without touching the stream and without end in sight.  That
    is slow, not wrong, and nothing a property speaks about -- but it would stall the run.  The guard raises
    ParseAbandoned in the parsing thread after a generous wall-clock limit; the outcome then is an error like any
    other (the reference model answers such counts with 'data missing', so the two agree).  When the model reads the
    input and the library is abandoned, judge_parse reports it: a reader that does not finish on readable input.
    One watchdog thread per process looks at the current deadline twice a second (no thread per parse)."""

    _state = {"deadline": None, "tid": None, "thread": None}

    @classmethod
    def _watch(cls):
        import ctypes
        import time

        st = cls._state
        while True:
            time.sleep(0.5)
            d, tid = st["deadline"], st["tid"]
            if d is not None and time.monotonic() > d:
                st["deadline"] = None
                ABANDONED[0] += 1
                ctypes.pythonapi.PyThreadState_SetAsyncExc(ctypes.c_ulong(tid), ctypes.py_object(ParseAbandoned))

    def __enter__(self):
        import threading
        import time

        st = self._state
        if st["thread"] is None:
            st["thread"] = threading.Thread(target=self._watch, daemon=True)
            st["thread"].start()
        self.outer = (st["deadline"], st["tid"])
        st["tid"] = threading.get_ident()
        st["deadline"] = time.monotonic() + PARSE_LIMIT_S
        return self

    def __exit__(self, exc_type, *a):
        st = self._state
        if st["deadline"] is None and exc_type is None:
            # the watchdog fired while the block was finishing: its exception is still pending for this thread and
            # would surface somewhere after the block -- withdraw it
            import ctypes

            ctypes.pythonapi.PyThreadState_SetAsyncExc(ctypes.c_ulong(st["tid"] or 0), None)
            ABANDONED[0] -= 1
        st["deadline"], st["tid"] = self.outer if self.outer[0] is not None else (None, None)
        return False


def outcome(T, data, offset=0):
    """("ok", obj, tell) | ("err", exc, None)"""
    s = io.BytesIO(data)
    s.seek(offset)
    try:
        with guard():
            obj = T(s)
    except Exception as e:  # noqa: BLE001
        return ("err", e, None)
    return ("ok", obj, s.tell())


def norm_or_err(obj, node):
    try:
        return lib.nan_clean(lib.norm(obj, node)), None
    except lib.NormError as e:
        return None, str(e)


# ---------------------------------------------------------------------------------------------------
# shared judgement helpers for the model-based checks


def load_cfg(ctx, case, cfgd):
    """Load the case's text under a configuration; returns T or None (recording load failures)."""
    try:
        cs = lib.load(case["text"], cfgd["endian"], cfgd["align"], cfgd["compiled"], cfgd["ptr"])
    except Exception as e:  # noqa: BLE001
        return None, e
    return cs, None


def bits_differ(a: bytes, b: bytes, mask: bytes):
    """positions (byte index, differing bits) where a and b differ under mask"""
    out = []
    for i in range(min(len(a), len(b), len(mask))):
        x = (a[i] ^ b[i]) & mask[i]
        if x:
            out.append((i, x))
    return out


def inv(mask: bytes) -> bytes:
    return bytes(~m & 0xFF for m in mask)


def k1_explains(diffs, d: bytes, k1: bytes):
    """Every differing bit is a K1 bit (data in another union member only) and is zero in the library's dump."""
    if not diffs:
        return False
    for i, x in diffs:
        if i >= len(k1) or x & ~k1[i] & 0xFF:
            return False
        if d[i] & x:
            return False
    return True


def std_configs(rng, thorough, top, compiled_both=True):
    # (the odd widths are integer types whose alignment differs from their size: 3 -> 4, 6 -> 8)
    ptr_pool = ["uint64", "uint32", "uint16", "uint8", "uint64", "uint32", "uint16", "uint8", "uint24", "uint48"]
    out = []
    for endian in ("<", ">"):
        for align in (False, True):
            for compiled in ((True, False) if compiled_both else (rng.random() < 0.5,)):
                out.append({"endian": endian, "align": align, "compiled": compiled,
                            "ptr": rng.choice(ptr_pool) if gen.has_ptr(top) else "uint64"})
    if rng.random() < (1.0 if thorough else 0.5):
        # the network byte order code is a third spelling of big endian
        out.append({"endian": "!", "align": rng.random() < 0.5, "compiled": rng.random() < 0.5,
                    "ptr": rng.choice(ptr_pool) if gen.has_ptr(top) else "uint64"})
    return out


def eof_padding_variant(case, cfg, inp, offset, got):
    """If zero-padding the input by k < 16 bytes makes the model read `got`, and those k bytes are padding only
    (data-bit mask empty there), return the model outcome for the padded input."""
    for k in range(1, 16):
        padded = inp + bytes(k)
        exp = expected_parse(case, cfg, padded, offset)
        if exp[0] != "ok" or lib.nan_clean(model.clean(exp[1])) != got:
            continue
        try:
            dm, mask = model.dump(case["top"], exp[1], cfg)
        except Exception:  # noqa: BLE001
            return None
        missing = mask[len(inp) - offset:]
        if len(dm) == len(padded) - offset and not any(missing):
            return exp
        return None
    return None


def judge_parse(ctx, case, cfgd, cfg, T, inp, offset=0, label="parse", sig_prefix=""):
    """Compare the real reader's outcome on (inp, offset) with the reference model.  Returns (lib outcome, expected)."""
    top = case["top"]
    exp = expected_parse(case, cfg, inp, offset)
    if "absurd_count" in exp[3]:
        # hostile bytes ask for more than 100 000 entries: when the entries occupy bytes the input ends long before,
        # when they do not the library loops for hours -- slow, not wrong, and not what this comparison is about
        ctx.event("skipped:absurd-element-count")
        return ("err", ParseAbandoned("not run: absurd element count"), None), exp
    r = outcome(T, inp, offset)
    key = (case["text"], tuple(sorted(cfgd.items())), inp.hex(), offset)
    if exp[0] == "unsupported":
        ctx.event("model_unsupported")
        ctx.evaluation(key, nontrivial=False)
        return r, exp
    ctx.evaluation(key)

    def viol(kind, sig, **kw):
        ctx.violation(kind, sig_prefix + sig, case_detail(case, cfg=cfgd, data=inp, offset=offset, label=label, **kw))

    if exp[0] == "ok":
        want = lib.nan_clean(model.clean(exp[1]))
        if r[0] == "ok":
            got, e = norm_or_err(r[1], top)
            if not e and got != want and "eof_partial" in exp[3]:
                # the input ends inside the last element of an [EOF] array.  If only that element's trailing
                # padding is missing (all of its data-carrying bytes are there) either outcome is acceptable.
                alt = eof_padding_variant(case, cfg, inp, offset, got)
                if alt is not None:
                    ctx.event("accepted_last_eof_element_without_its_padding")
                    return r, alt
            if e:
                viol("norm", "unexpected-value-kind", error=e)
            elif got != want:
                viol("value", "parsed-value-differs-from-model", got=got, want=want)
            elif r[2] != exp[2]:
                viol("tell", "consumed-differs-from-model", got=r[2], want=exp[2])
            else:
                ctx.event(f"agree_ok:{label}")
        else:
            if "eof_partial" in exp[3] or "tail_padding_missing" in exp[3]:
                ctx.event("accepted_error_on_partial_tail")
            elif isinstance(r[1], ParseAbandoned):
                # confirm on an otherwise idle interpreter state with five times the limit before saying so (a loaded
                # machine must not turn into a verdict); the model needed milliseconds for the same bytes
                global PARSE_LIMIT_S
                keep = PARSE_LIMIT_S
                PARSE_LIMIT_S = keep * 5
                try:
                    r2 = outcome(T, inp, offset)
                finally:
                    PARSE_LIMIT_S = keep
                if r2[0] == "err" and isinstance(r2[1], ParseAbandoned):
                    viol("raises", "reader-does-not-finish-on-input-the-model-reads", limit_s=keep * 5, want=want)
                else:
                    ctx.event("slow_parse_finished_on_second_attempt")
            else:
                viol("raises", f"reader-raises-on-complete-input:{type(r[1]).__name__}", error=lib.exc_sig(r[1]),
                     want=want)
    elif exp[0] == "eof":
        if r[0] == "ok":
            got, e = norm_or_err(r[1], top)
            viol("fabricated", "value-returned-although-data-bytes-missing", got=got)
        else:
            ctx.event(f"agree_err:{label}")
    elif exp[0] == "decode":
        if r[0] == "ok":
            got, e = norm_or_err(r[1], top)
            viol("decode", "value-returned-for-invalid-utf16", got=got)
        else:
            ctx.event(f"agree_decode_err:{label}")
    return r, exp


# ---------------------------------------------------------------------------------------------------
# non-structure types used directly (cs.uint32(stream), cs.char[8](...), enums, arrays, unions)

DIRECT_TEXT = ("enum E : uint16 { EA, EB = 5 };\nflag FL : uint8 { F1, F2 };\nstruct S { uint8 a; uint24 b; };\n"
               "union U { uint32 w; uint8 b[4]; };\nstruct T { uint8 x; };\n")


def direct_kinds():
    from .gen import F, L_NULL, L_fixed, N_array, N_char, N_float, N_int, N_leb, N_struct, N_wchar

    enode = {"k": "enum", "name": "E", "flag": False, "base": "uint16", "members": [["EA", 0], ["EB", 5]], "src": []}
    fnode = {"k": "enum", "name": "FL", "flag": True, "base": "uint8", "members": [["F1", 1], ["F2", 2]], "src": []}
    snode = N_struct([F("a", N_int("uint8")), F("b", N_int("uint24"))], name="S", decl="top")
    unode = N_struct([F("w", N_int("uint32")), F("b", N_array(N_int("uint8"), L_fixed(4)))], name="U", union=True,
                     decl="top")
    return [
        ("uint32", N_int("uint32"), lambda cs: cs.uint32), ("int24", N_int("int24"), lambda cs: cs.int24),
        ("uint128", N_int("uint128"), lambda cs: cs.uint128), ("double", N_float("double"), lambda cs: cs.double),
        ("uleb128", N_leb("uleb128"), lambda cs: cs.uleb128), ("ileb128", N_leb("ileb128"), lambda cs: cs.ileb128),
        ("enum", enode, lambda cs: cs.E), ("flag", fnode, lambda cs: cs.FL),
        ("char[8]", N_array(N_char(), L_fixed(8)), lambda cs: cs.char[8]),
        ("char[]", N_array(N_char(), L_NULL), lambda cs: cs.char[None]),
        ("wchar[3]", N_array(N_wchar(), L_fixed(3)), lambda cs: cs.wchar[3]),
        ("wchar[]", N_array(N_wchar(), L_NULL), lambda cs: cs.wchar[None]),
        ("uint16[4]", N_array(N_int("uint16"), L_fixed(4)), lambda cs: cs.uint16[4]),
        ("uint16[2][3]", N_array(N_array(N_int("uint16"), L_fixed(3)), L_fixed(2)), lambda cs: cs.uint16[3][2]),
        ("int48[]", N_array(N_int("int48"), L_NULL), lambda cs: cs.int48[None]),
        ("E[3]", N_array(enode, L_fixed(3)), lambda cs: cs.E[3]),
        ("S[2]", N_array(snode, L_fixed(2)), lambda cs: cs.S[2]),
        ("S", snode, lambda cs: cs.S), ("U", unode, lambda cs: cs.U),
    ]
