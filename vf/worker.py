"""One shard of one check, run in its own process:  python -m vf.worker PROP TIER SEED SHARD NSHARDS OUT [REPLAY]"""
from __future__ import annotations

import faulthandler
import importlib
import json
import os
import sys
import time
import traceback


def main(argv):
    prop, tier, seed, shard, nshards, out = argv[:6]
    replay = argv[6] if len(argv) > 6 else None
    seed, shard, nshards = int(seed), int(shard), int(nshards)
    faulthandler.enable()
    hard = float(os.environ.get("VF_SHARD_HARD_S", "0") or 0)
    if hard > 30:
        # a hang diagnostic: the stack of every thread goes to the shard log shortly before the runner's watchdog fires
        faulthandler.dump_traceback_later(hard - 15, exit=False)
    budget = float(os.environ.get("VF_SHARD_BUDGET_S", "0") or 0)
    deadline = time.time() + budget if budget else None

    cov = None
    if os.environ.get("VF_COVERAGE_DIR"):
        # diagnostic only (tools/coverage_gaps.sh): which library lines no workload reaches
        import coverage

        cov = coverage.Coverage(data_file=os.path.join(os.environ["VF_COVERAGE_DIR"], f"cov-{prop}"), data_suffix=True,
                                branch=True, include=[os.path.join(os.environ.get("VERIF_REPO", "/repo"), "dissect/cstruct/*")])
        cov.start()

    from .ctx import Ctx
    from . import monitors

    ctx = Ctx(prop, tier, seed, shard, nshards, deadline)
    reach = monitors.Reach()
    reach.start()
    mod = importlib.import_module(f"vf.checks.{prop.lower()}")
    status = "ok"
    try:
        if replay:
            with open(replay) as fh:
                rp = json.load(fh)
            mod.replay(ctx, rp["detail"])
        else:
            mod.run(ctx)
    except Exception:  # noqa: BLE001  harness failure: never a verdict on the property
        status = "harness_error"
        ctx.note_inconclusive("harness error: " + traceback.format_exc()[-1500:])
    reach.stop()
    if cov is not None:
        cov.stop()
        cov.save()
    res = ctx.result()
    try:
        from . import engine

        if engine.ABANDONED[0]:
            res["events"]["parses_abandoned_after_wall_clock_limit"] = engine.ABANDONED[0]
    except Exception:  # noqa: BLE001
        pass
    res["status"] = status
    res["reach"] = reach.report()
    with open(out, "w") as fh:
        json.dump(res, fh)


if __name__ == "__main__":
    main(sys.argv[1:])
