"""Instrumented streams: every read/seek/tell/write is recorded as an event; faults can be injected at read calls."""
from __future__ import annotations

import io


class SpinWatchdog(Exception):
    """More than LIMIT consecutive zero-length reads: the parser is spinning at end of input (logical-step verdict)."""


class RecordingStream:
    """Wraps a BytesIO; log entries: (op, arg, pos_before, n_returned_or_written, pos_after)."""

    SPIN_LIMIT = 10000

    def __init__(self, data=b"", pos=0):
        self._s = io.BytesIO(data)
        self._s.seek(pos)
        self.log = []
        self._empty_reads = 0

    # file-like API used by the library
    def read(self, n=-1):
        before = self._s.tell()
        out = self._do_read(n, len(self.log))
        after = self._s.tell()
        self.log.append(("read", n, before, len(out), after))
        if n != 0 and len(out) == 0:
            self._empty_reads += 1
            if self._empty_reads > self.SPIN_LIMIT:
                raise SpinWatchdog()
        else:
            self._empty_reads = 0
        return out

    def _do_read(self, n, index):
        return self._s.read(n if n is not None else -1)

    def seek(self, pos, whence=0):
        before = self._s.tell()
        r = self._s.seek(pos, whence)
        self.log.append(("seek", (pos, whence), before, 0, self._s.tell()))
        return r

    def tell(self):
        p = self._s.tell()
        self.log.append(("tell", None, p, 0, p))
        return p

    def write(self, b):
        before = self._s.tell()
        n = self._s.write(b)
        self.log.append(("write", len(b), before, n, self._s.tell()))
        return n

    def getvalue(self):
        return self._s.getvalue()

    # the rest of the io.IOBase vocabulary (a caller may ask before it seeks or reads)
    def seekable(self):
        return True

    def readable(self):
        return True

    def writable(self):
        return True

    def flush(self):
        pass

    @property
    def closed(self):
        return False

    # analysis helpers
    def reads(self):
        return [e for e in self.log if e[0] == "read"]

    def lowest_read_offset(self):
        offs = [e[2] for e in self.log if e[0] == "read" and e[3] > 0]
        return min(offs) if offs else None

    def highest_read_end(self):
        ends = [e[2] + e[3] for e in self.log if e[0] == "read" and e[3] > 0]
        return max(ends) if ends else None

    def position(self):
        return self._s.tell()


class InjectedFault(OSError):
    pass


class FaultyStream(RecordingStream):
    """At the k-th read call: deliver nothing ("empty"), half the bytes ("half") or raise ("raise")."""

    def __init__(self, data, pos, k, kind):
        super().__init__(data, pos)
        self.k = k
        self.kind = kind
        self.nreads = 0
        self.fired = None

    def _do_read(self, n, index):
        i = self.nreads
        self.nreads += 1
        if i != self.k:
            return self._s.read(n if n is not None else -1)
        if self.kind == "raise":
            self.fired = ("raise", n)
            raise InjectedFault(f"injected fault at read call {i}")
        full_pos = self._s.tell()
        full = self._s.read(n if n is not None else -1)
        if self.kind == "empty":
            out = b""
        else:
            out = full[: len(full) // 2]
        self._s.seek(full_pos + len(out))
        self.fired = (self.kind, n, len(full), len(out))
        return out
