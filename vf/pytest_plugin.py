"""pytest plugin: run the repository's own test suite with the /verif monitors installed.

  cd /repo && PYTHONPATH=/verif:/repo VERIF_REPO=/repo /venv/bin/python -m pytest -q -p no:cacheprovider -p vf.pytest_plugin

A monitor that fires here is either too strict (false alarm -> fix the monitor) or a defect the tests do not assert.
"""
from __future__ import annotations

import json

_state = {}


def pytest_configure(config):
    from vf.ctx import Ctx
    from vf.checks import c05, c06, c10, c11, c17

    ctx = Ctx("REPO-TESTS", "quick", 0, 0, 1)
    mons = [c06.BitMonitor(ctx), c05.CodecMonitor(ctx), c10.ExprMonitor(ctx), c11.UnionMonitor(ctx),
            c17.MethodMonitor(ctx)]
    for m in mons:
        m.install()
    _state["ctx"] = ctx
    _state["mons"] = mons


def pytest_unconfigure(config):
    for m in _state.get("mons", []):
        m.uninstall()


def pytest_terminal_summary(terminalreporter, exitstatus, config):
    ctx = _state.get("ctx")
    if ctx is None:
        return
    tr = terminalreporter
    tr.write_line(f"[vf monitors] events: {json.dumps(dict(ctx.events), sort_keys=True)}")
    tr.write_line(f"[vf monitors] violations: {ctx.viol_count}")
    for v in ctx.violations[:10]:
        tr.write_line(f"[vf monitors]   {v['kind']} {v['sig']} {json.dumps(v['detail'])[:300]}")


def pytest_sessionfinish(session, exitstatus):
    ctx = _state.get("ctx")
    if ctx is not None and ctx.viol_count and session.exitstatus == 0:
        session.exitstatus = 1
