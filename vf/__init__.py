"""Runtime-monitoring machinery for dissect.cstruct properties C01-C20 (see /verif/DESIGN.md)."""
