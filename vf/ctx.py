"""Per-shard recording context: evaluations, distinct cases, feature cells, monitor events, violations."""
from __future__ import annotations

import collections
import hashlib
import json
import os
import random
import sys
import time


def h64(obj) -> int:
    if not isinstance(obj, (bytes, str)):
        obj = json.dumps(obj, sort_keys=True, default=repr)
    if isinstance(obj, str):
        obj = obj.encode()
    return int.from_bytes(hashlib.blake2b(obj, digest_size=8).digest(), "big")


def jsonable(x):
    if isinstance(x, (bytes, bytearray, memoryview)):
        return "hex:" + bytes(x).hex()
    if isinstance(x, dict):
        return {str(k): jsonable(v) for k, v in x.items() if not str(k).startswith("_lay")}
    if isinstance(x, (list, tuple, set, frozenset)):
        return [jsonable(v) for v in x]
    if isinstance(x, float):
        if x != x:
            return "nan"
        if x in (float("inf"), float("-inf")):
            return repr(x)
        return x
    if isinstance(x, (int, str, bool)) or x is None:
        if isinstance(x, int) and not isinstance(x, bool) and abs(x) > 2 ** 62:
            return f"int:{x}"
        return x
    return repr(x)


class Ctx:
    MAX_VIOL = 40

    def __init__(self, prop, tier, seed, shard, nshards, deadline=None):
        self.prop = prop
        self.tier = tier
        self.seed = seed
        self.shard = shard
        self.nshards = nshards
        self.thorough = tier == "thorough"
        self.deadline = deadline
        self.t0 = time.time()
        self.evaluations = 0
        self.distinct = set()
        self.cells = collections.Counter()
        self.events = collections.Counter()
        self.samples = []
        self.violations = []
        self.viol_count = 0
        self.viol_sigs = collections.Counter()
        self.inconclusive = []
        self.extra = {}
        self.timed_out = False

    # randomness: everything derives from (VERIF_SEED, property, shard, label)
    def rng(self, *label):
        return random.Random(f"{self.seed}:{self.prop}:{self.shard}:{':'.join(map(str, label))}")

    def out_of_time(self):
        if self.deadline is not None and time.time() > self.deadline:
            self.timed_out = True
            return True
        return False

    # accounting
    def evaluation(self, key=None, nontrivial=True, n=1):
        """One execution judged by an oracle.  key identifies the case; non-trivial ones are counted distinct."""
        self.evaluations += n
        if key is not None and nontrivial:
            self.distinct.add(h64(key))

    def cell(self, *names):
        for n in names:
            self.cells[n] += 1

    def event(self, name, n=1):
        self.events[name] += n

    def sample(self, obj, limit=3):
        if len(self.samples) < limit:
            self.samples.append(jsonable(obj))

    def note_inconclusive(self, reason):
        if reason not in self.inconclusive:
            self.inconclusive.append(reason)

    def violation(self, kind, sig, detail):
        """kind: short oracle name; sig: mechanism signature (used for known-finding classification and dedup);
        detail: self-contained replayable case."""
        if "ParseAbandoned" in sig and "does-not-finish" not in sig:
            # a parse that the wall-clock guard gave up on is not an outcome of the library: nothing is judged on it
            # (the one deliberate exception is judge_parse's confirmed "reader does not finish on readable input")
            self.event("parse_abandoned_outcome_not_judged")
            return
        self.viol_count += 1
        self.viol_sigs[f"{kind}|{sig}"] += 1
        if self.viol_sigs[f"{kind}|{sig}"] <= 3 and len(self.violations) < self.MAX_VIOL:
            self.violations.append({"kind": kind, "sig": sig, "detail": jsonable(detail)})

    def result(self):
        return {
            "prop": self.prop, "tier": self.tier, "seed": self.seed, "shard": self.shard,
            "evaluations": self.evaluations,
            "distinct": sorted(self.distinct),
            "cells": dict(self.cells), "events": dict(self.events), "samples": self.samples,
            "violations": self.violations, "viol_count": self.viol_count, "viol_sigs": dict(self.viol_sigs),
            "inconclusive": self.inconclusive, "extra": jsonable(self.extra), "timed_out": self.timed_out,
            "wall_s": round(time.time() - self.t0, 3),
        }
