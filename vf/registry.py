"""Per-property run parameters (no library import here)."""

ASSUME_COMMON = [
    "CPython's int/struct/codecs and the host ABI (ctypes) are correct",
    "the reference model (vf/model.py) is a faithful reading of the property statements",
    "held only on the executions observed: definitions/inputs within the generator bounds",
]

GEN_RULE = ("definitions are generated as an AST (vf/gen.py), rendered to text and loaded through the library's own "
            "parser; a case = (definition text, endianness, alignment mode, reader mode, pointer width, input bytes "
            "or operation list); distinct = distinct hash of that tuple; non-trivial = the oracle was actually "
            "evaluated on it (definition loaded and at least one comparison made)")

CHECKS = {
    "C03": {
        "level": "exploration",
        "shards": {"quick": 16, "thorough": 32},
        "budget": {"quick": 40, "thorough": 420},
        "rule": GEN_RULE + "; here both readers are run on the same input and start offset and compared "
                           "(value, tell, _sizes, layout), plus cut inputs for contradiction",
        "anchors": ["compiler.py", "types/structure.py"],
        "required_reach": [
            "<compiled>",
            "compiler.py:_ReadSourceGenerator._generate_packed",
            "compiler.py:_ReadSourceGenerator._generate_bits",
            "compiler.py:_ReadSourceGenerator._generate_structure",
            "compiler.py:_ReadSourceGenerator._generate_array",
            "compiler.py:_generate_struct_info",
            "compiler.py:_optimize_struct_fmt",
            "types/structure.py:StructureMetaType._read",
        ],
        "required_cells": ["compiled:True", "fallback", "align:True", "align:False", "endian:<", "endian:>"],
        "assumptions": ASSUME_COMMON,
    },
}

NOT_APPLICABLE = {}

MANIFEST_TEXT = {
    "C03": {
        "text": "Differential runtime monitoring: every generated definition is loaded twice (compiled/interpreted) in "
                "each endianness x alignment x pointer width and both real readers are executed on model-built and "
                "arbitrary inputs, at two start offsets and on cut inputs; values, consumed bytes, _sizes and layout "
                "are compared. Held-on-observed only; reach of the source generator's branches is measured and a run "
                "without compiled readers is inconclusive.",
        "design_ref": "DESIGN.md 4 C03",
        "note": "trusts the interpreted reader only as the other side of the comparison (its own correctness is "
                "C04-C09); generator bounds: <=6 (quick) / <=12 (thorough) fields, nesting <=2/3",
        "technique": "differential execution of generated definitions under both readers with reach accounting",
    },
}
