"""Per-property run parameters (no library import here)."""

ASSUME_COMMON = [
    "CPython's int/struct/codecs and the host ABI (ctypes) are correct",
    "the reference model (vf/model.py) is a faithful reading of the property statements",
    "held only on the executions observed: definitions/inputs within the generator bounds",
]

GEN_RULE = ("definitions are generated as an AST (vf/gen.py), rendered to text and loaded through the library's own "
            "parser; a case = (definition text, endianness, alignment mode, reader mode, pointer width, input bytes "
            "or operation list); distinct = distinct hash of that tuple; non-trivial = the oracle was actually "
            "evaluated on it (definition loaded and at least one comparison made)")

CHECKS = {
    "C03": {
        "level": "exploration",
        "shards": {"quick": 16, "thorough": 32},
        "budget": {"quick": 120, "thorough": 420},
        "rule": GEN_RULE + "; here both readers are run on the same input and start offset and compared "
                           "(value, tell, _sizes, layout), plus cut inputs for contradiction; start offsets 0, a multiple of "
                           "16 and an odd one (also for aligned structures: position dependent there, but equally in "
                           "both readers); after the comparisons the byte order of both cstruct objects is switched and "
                           "the readers compared again; declarations loaded one by one with differing align flags "
                           "(aligned structures inside packed ones and the reverse); structures built through the API "
                           "with explicit offsets",
        "anchors": ["compiler.py", "types/structure.py"],
        "required_reach": [
            "<compiled>",
            "compiler.py:_ReadSourceGenerator._generate_packed",
            "compiler.py:_ReadSourceGenerator._generate_bits",
            "compiler.py:_ReadSourceGenerator._generate_structure",
            "compiler.py:_ReadSourceGenerator._generate_array",
            "compiler.py:_generate_struct_info",
            "compiler.py:_optimize_struct_fmt",
            "types/structure.py:StructureMetaType._read",
        ],
        "required_cells": ["compiled:True", "fallback", "align:True", "align:False", "endian:<", "endian:>",
                           "explicit-offsets", "mixed-modes", "deep-folded-length-source", "special:nocompile-flag",
                           "special:char-only-blocks-at-every-cut", "special:dereference-with-odd-pointer-types"],
        "assumptions": ASSUME_COMMON,
    },
}

CHECKS["C02"] = {
    "level": "exploration",
    "shards": {"quick": 16, "thorough": 32},
    "budget": {"quick": 120, "thorough": 420},
    "rule": GEN_RULE + "; inputs are model-built encodings with random garbage in padding and unassigned bit-field "
                       "bits, plus arbitrary bytes; the real dumps() of the real parse is compared bit by bit with the "
                       "input under the reference model's data-bit mask",
    "anchors": ["types/structure.py", "bitbuffer.py", "types/base.py", "types/char.py", "types/wchar.py"],
    "required_reach": ["types/structure.py:StructureMetaType._write", "types/structure.py:StructureMetaType._read",
                       "bitbuffer.py:BitBuffer.flush", "types/base.py:MetaType._write_0",
                       "types/char.py:CharArray._write", "<compiled>"],
    "required_cells": ["pinned-witnesses", "align:True", "align:False", "endian:<", "endian:>", "feat:bits", "feat:arr:null",
                       "bit-field-units-placed-at-run-time", "long-array:fixed", "long-array:counted", "long-array:rows"],
    "assumptions": ASSUME_COMMON,
}

CHECKS["C01"] = {
    "level": "exploration",
    "shards": {"quick": 16, "thorough": 32},
    "budget": {"quick": 120, "thorough": 420},
    "rule": GEN_RULE + "; values come from parsing hostile bytes and from direct construction out of random model "
                       "values; each is dumped by the real writer and re-parsed by the real reader; for every "
                       "integer-like leaf an out-of-range value is assigned and dumps() must raise",
    "anchors": ["types/", "bitbuffer.py"],
    "required_reach": ["types/structure.py:StructureMetaType._write", "types/structure.py:StructureMetaType._read",
                       "bitbuffer.py:BitBuffer.write", "bitbuffer.py:BitBuffer.read", "types/base.py:BaseArray._write",
                       "types/int.py:Int._write", "types/packed.py:Packed._write", "types/enum.py:EnumMetaType._write",
                       "types/pointer.py:Pointer._write", "<compiled>"],
    "required_cells": ["pinned-witnesses", "align:True", "align:False", "endian:<", "endian:>", "feat:bits:signed", "feat:union",
                       "feat:ptr", "feat:arr:struct", "deep-folded-length-source", "endian-switched-after-use", "explicit-forward-offsets", "written-then-extended",
                       "pointer-width-switched-after-definition"],
    "assumptions": ASSUME_COMMON,
}

CHECKS["C04"] = {
    "level": "exploration",
    "shards": {"quick": 16, "thorough": 32},
    "budget": {"quick": 120, "thorough": 300},
    "rule": GEN_RULE + "; fixed-size definitions only; size, alignment and every member offset (recursively) are "
                       "compared with an independent layout model and, on the mappable subset, with ctypes "
                       "(the host C ABI) and with a real C compiler (the same declarations are compiled with cc, "
                       "incl. __int128 and __attribute__((packed)), and sizeof/_Alignof/offsetof are printed); len(T), sizeof(T) inside an expression, bytes consumed and bytes dumped "
                       "must agree",
    "anchors": ["types/structure.py", "cstruct.py", "expression.py"],
    "required_reach": ["types/structure.py:StructureMetaType._calculate_size_and_offsets",
                       "types/structure.py:UnionMetaType._calculate_size_and_offsets",
                       "cstruct.py:cstruct._make_array", "cstruct.py:cstruct._make_pointer",
                       "expression.py:Expression.evaluate"],
    "required_cells": ["align:True", "align:False", "alignclass:1", "alignclass:2", "alignclass:4", "alignclass:8",
                       "alignclass:16", "mixed-modes:aligned-offset", "mixed-modes:unaligned-offset", "empty-structures", "explicit-forward-offsets", "declared-after-extension", "pointer-width-switched",
                       "sizeof-of-names:alias", "sizeof-of-names:other", "sizeof-of-names:also-a-member", "custom-type-alignment"],
    "assumptions": ASSUME_COMMON,
}

CHECKS["C06"] = {
    "level": "exploration",
    "shards": {"quick": 16, "thorough": 32},
    "budget": {"quick": 120, "thorough": 420},
    "rule": GEN_RULE + "; three workloads: (1) exhaustive: every composition of <=8 bits into <=3 fields on uint8/int8 "
                       "units x all 256 unit contents x 2 endians x 2 readers; (2) straddling declarations that must "
                       "be rejected; (3) generated bit-field-heavy definitions x pattern inputs (all ones, top bit, "
                       "walking one, garbage); every BitBuffer.read/write/flush/reset anywhere is additionally "
                       "checked by an invariant monitor (slices disjoint, contiguous from LSB/MSB, in range; written "
                       "unit equals an independent accumulation)",
    "anchors": ["bitbuffer.py", "types/structure.py", "compiler.py"],
    "required_reach": ["bitbuffer.py:BitBuffer.read", "bitbuffer.py:BitBuffer.write", "bitbuffer.py:BitBuffer.flush",
                       "bitbuffer.py:BitBuffer.reset", "compiler.py:_ReadSourceGenerator._generate_bits",
                       "types/structure.py:StructureMetaType._calculate_size_and_offsets", "<compiled>"],
    "required_cells": ["straddle", "aligned", "feat:bits:signed", "feat:bits:enum", "feat:bits:wide",
                       "exh:uint8:<:compiled", "exh:uint8:>:interpreted", "exh:int8:>:compiled",
                       "exh:int8:<:interpreted", "char-units:compiled", "char-units:interpreted", "union-bit-fields",
                       "single-bit-field-structures", "enum-vs-base-bit-fields", "width-twins:compiled", "width-twins:interpreted", "bit-field-at-an-explicit-offset",
                       "endian-switched-after-load:compiled", "endian-switched-after-load:interpreted"],
    "exhaustive": {"quick": False, "thorough": False},
    "assumptions": ASSUME_COMMON,
}

CHECKS["C07"] = {
    "level": "exploration",
    "shards": {"quick": 16, "thorough": 32},
    "budget": {"quick": 120, "thorough": 420},
    "rule": GEN_RULE + "; the element-kind x length-form matrix (14 kinds x 9 forms, null-terminated only for the "
                       "statement's element list) is instantiated on every run in both readers, plus array-heavy "
                       "generated definitions, direct use (cs.uint24[3](...)) and wrong-count dumps that must be "
                       "refused; parse and dump are compared with the reference model",
    "anchors": ["types/base.py", "types/", "cstruct.py", "parser.py"],
    "required_reach": ["types/base.py:BaseArray._read", "types/base.py:BaseArray._write",
                       "types/base.py:MetaType._read_array", "types/packed.py:Packed._read_array",
                       "types/packed.py:Packed._read_0", "types/int.py:Int._read_0", "types/char.py:Char._read_0",
                       "types/wchar.py:Wchar._read_0", "types/leb128.py:LEB128._read_0",
                       "types/enum.py:EnumMetaType._read_0", "types/structure.py:StructureMetaType._read_0",
                       "cstruct.py:cstruct._make_array", "<compiled>"],
    "required_cells": ['packedxexprenum:interpreted', 'widexexprenum:interpreted', 'floatxexprenum:interpreted', 'charxexprenum:interpreted', 'wcharxexprenum:interpreted', 'enumxexprenum:interpreted', 'flagxexprenum:interpreted', 'lebxexprenum:interpreted', 'structxexprenum:interpreted', 'intstructxexprenum:interpreted', 'dynstructxexprenum:interpreted', 'arrayxexprenum:interpreted', 'chararrayxexprenum:interpreted', 'ptrxexprenum:interpreted', 'packedxfixed0:interpreted', 'packedxfixed1:interpreted', 'packedxfixedk:interpreted', 'packedxexpr:interpreted', 'packedxexprneg:interpreted', 'packedxexprconst:interpreted', 'packedxexprsizeof:interpreted', 'packedxnull:interpreted', 'packedxeof:interpreted', 'widexfixed0:interpreted', 'widexfixed1:interpreted', 'widexfixedk:interpreted', 'widexexpr:interpreted', 'widexexprneg:interpreted', 'widexexprconst:interpreted', 'widexexprsizeof:interpreted', 'widexnull:interpreted', 'widexeof:interpreted', 'floatxfixed0:interpreted', 'floatxfixed1:interpreted', 'floatxfixedk:interpreted', 'floatxexpr:interpreted', 'floatxexprneg:interpreted', 'floatxexprconst:interpreted', 'floatxexprsizeof:interpreted', 'floatxeof:interpreted', 'charxfixed0:interpreted', 'charxfixed1:interpreted', 'charxfixedk:interpreted', 'charxexpr:interpreted', 'charxexprneg:interpreted', 'charxexprconst:interpreted', 'charxexprsizeof:interpreted', 'charxnull:interpreted', 'charxeof:interpreted', 'wcharxfixed0:interpreted', 'wcharxfixed1:interpreted', 'wcharxfixedk:interpreted', 'wcharxexpr:interpreted', 'wcharxexprneg:interpreted', 'wcharxexprconst:interpreted', 'wcharxexprsizeof:interpreted', 'wcharxnull:interpreted', 'wcharxeof:interpreted', 'enumxfixed0:interpreted', 'enumxfixed1:interpreted', 'enumxfixedk:interpreted', 'enumxexpr:interpreted', 'enumxexprneg:interpreted', 'enumxexprconst:interpreted', 'enumxexprsizeof:interpreted', 'enumxnull:interpreted', 'enumxeof:interpreted', 'flagxfixed0:interpreted', 'flagxfixed1:interpreted', 'flagxfixedk:interpreted', 'flagxexpr:interpreted', 'flagxexprneg:interpreted', 'flagxexprconst:interpreted', 'flagxexprsizeof:interpreted', 'flagxnull:interpreted', 'flagxeof:interpreted', 'lebxfixed0:interpreted', 'lebxfixed1:interpreted', 'lebxfixedk:interpreted', 'lebxexpr:interpreted', 'lebxexprneg:interpreted', 'lebxexprconst:interpreted', 'lebxexprsizeof:interpreted', 'lebxnull:interpreted', 'lebxeof:interpreted', 'structxfixed0:interpreted', 'structxfixed1:interpreted', 'structxfixedk:interpreted', 'structxexpr:interpreted', 'structxexprneg:interpreted', 'structxexprconst:interpreted', 'structxexprsizeof:interpreted', 'structxeof:interpreted', 'intstructxfixed0:interpreted', 'intstructxfixed1:interpreted', 'intstructxfixedk:interpreted', 'intstructxexpr:interpreted', 'intstructxexprneg:interpreted', 'intstructxexprconst:interpreted', 'intstructxexprsizeof:interpreted', 'intstructxnull:interpreted', 'intstructxeof:interpreted', 'dynstructxfixed0:interpreted', 'dynstructxfixed1:interpreted', 'dynstructxfixedk:interpreted', 'dynstructxexpr:interpreted', 'dynstructxexprneg:interpreted', 'dynstructxexprconst:interpreted', 'dynstructxexprsizeof:interpreted', 'dynstructxeof:interpreted', 'arrayxfixed0:interpreted', 'arrayxfixed1:interpreted', 'arrayxfixedk:interpreted', 'arrayxexpr:interpreted', 'arrayxexprneg:interpreted', 'arrayxexprconst:interpreted', 'arrayxexprsizeof:interpreted', 'arrayxeof:interpreted', 'chararrayxfixed0:interpreted', 'chararrayxfixed1:interpreted', 'chararrayxfixedk:interpreted', 'chararrayxexpr:interpreted', 'chararrayxexprneg:interpreted', 'chararrayxexprconst:interpreted', 'chararrayxexprsizeof:interpreted', 'chararrayxeof:interpreted', 'ptrxfixed0:interpreted', 'ptrxfixed1:interpreted', 'ptrxfixedk:interpreted', 'ptrxexpr:interpreted', 'ptrxexprneg:interpreted', 'ptrxexprconst:interpreted', 'ptrxexprsizeof:interpreted', 'ptrxeof:interpreted', 'exprarrayxfixed0:interpreted', 'exprarrayxfixed1:interpreted', 'exprarrayxfixedk:interpreted', 'exprarrayxexpr:interpreted', 'exprarrayxexprneg:interpreted', 'exprarrayxexprconst:interpreted', 'exprarrayxexprsizeof:interpreted', 'exprarrayxexprenum:interpreted', 'exprarrayxeof:interpreted'] + ["direct-use", "shadowing", "folded-length-source", "long:charxnull", "long:wcharxnull",
                                                             "long:packedxexpr", "long:lebxnull", "array-count-is-an-enum-member", "terminator-reappended"],
    "assumptions": ASSUME_COMMON,
}

CHECKS["C08"] = {
    "level": "fault_enumeration",
    "shards": {"quick": 16, "thorough": 32},
    "budget": {"quick": 120, "thorough": 420},
    "rule": GEN_RULE + "; for every accepted (definition, configuration, input) the cut points k < extent are "
                       "enumerated (thorough: all, or 600 incl. both ends and the last-data-byte boundary when the extent "
                       "is longer; quick: <=90 per input incl. that boundary) and "
                       "a fault (0 bytes / half the bytes / OSError) is injected at EVERY read call of the fault-free "
                       "run, taken from its recorded event log (240 sampled calls when a run has more than 400); one evaluation = one cut or one injected fault; "
                       "after failures a fault-free parse must reproduce the baseline (residue)",
    "anchors": ["types/", "compiler.py"],
    "required_reach": ["types/packed.py:Packed._read_array", "types/int.py:Int._read", "types/char.py:Char._read_array",
                       "types/wchar.py:Wchar._read_array", "types/leb128.py:LEB128._read",
                       "types/structure.py:UnionMetaType._read", "<compiled>"],
    "required_cells": ["structure-ends-in-a-counted-array", "align:True", "align:False", "compiled:True", "compiled:False", "dynamic-union", "feat:union",
                       "feat:bits", "direct-types",
                       "eof-elements:struct", "eof-elements:int24", "eof-elements:uleb128", "single-char-member-at-offset",
                       "failed-dereference-then-next-record", "long-leb128", "long-array:direct", "long-array:counted-tail", "long-array:counted-middle"],
    "assumptions": ASSUME_COMMON + ["faults are injected at read() calls of file-like streams; bytes inputs are "
                                    "covered through the cut points"],
}

CHECKS["C09"] = {
    "level": "exploration",
    "shards": {"quick": 16, "thorough": 32},
    "budget": {"quick": 120, "thorough": 420},
    "rule": GEN_RULE + "; every input is parsed alone, at several start offsets with random prefix/suffix through a "
                       "recording stream (event log: lowest offset read, highest read end, final position), in "
                       "histories of 2-4 reads on one stream, and through every input kind x call form",
    "anchors": ["types/base.py", "types/structure.py", "cstruct.py", "compiler.py"],
    "required_reach": ["types/base.py:MetaType.__call__", "types/base.py:MetaType.read", "types/base.py:MetaType.reads",
                       "cstruct.py:cstruct.read", "types/base.py:_is_eof", "types/structure.py:UnionMetaType._read_fields",
                       "<compiled>"],
    "required_cells": ["input-ends-inside-trailing-padding", "names-read-after-rebinding", "align:True", "align:False", "offsets", "dynamic-union", "top-level-union:static",
                       "top-level-union:dynamic", "form:T.reads(memoryview)",
                       "form:cs.read(name, BytesIO)", "char-shortcut", "direct:buffered-file",
                       "direct:unbuffered-file", "direct:BytesIO",
                       "direct:forward-only-stream", "text-mode-stream", "direct:mmap",
                       "pointer-table:mmap", "pointer-table:unbuffered-file", "pointer-table:minimal-reader",
                       "pointer-table:memoryview", "pointer-table:slots-reader", "pointer-table:bytes-subclass",
                       "form:T(bytes-subclass)", "form:T(char-array-value)"],
    "assumptions": ASSUME_COMMON,
}

CHECKS["C05"] = {
    "level": "exploration",
    "shards": {"quick": 16, "thorough": 32},
    "budget": {"quick": 120, "thorough": 300},
    "rule": "direct calls cs.<type>(bytes) / cs.<type>.dumps(v) / arrays for every built-in integer type and alias "
            "(expectation table written from the names) x {<, >, !} x boundary, pattern and random values (8-bit types "
            "and all 1- and 2-byte LEB128 encodings exhaustively; LEB128 values to +-2^70), floats against struct, "
            "wchar against str.encode; plus generated definitions parsed/dumped after cs.endian was switched on "
            "already loaded compiled and interpreted structures; every call of the real codec functions is "
            "additionally compared in situ by a codec monitor; distinct = distinct (type, endian, value) tuples",
    "anchors": ["types/int.py", "types/packed.py", "types/leb128.py", "types/char.py", "types/wchar.py", "cstruct.py"],
    "required_reach": ["types/int.py:Int._read", "types/int.py:Int._write", "types/packed.py:Packed._read_array",
                       "types/packed.py:Packed._write", "types/packed.py:Packed._write_array",
                       "types/leb128.py:LEB128._read", "types/leb128.py:LEB128._write",
                       "types/wchar.py:Wchar._read_array", "types/wchar.py:Wchar._write",
                       "types/char.py:Char._read_array", "<compiled>"],
    "required_cells": ["float-arrays-with-signed-zeros", "long-arrays", "int:int24:>", "int:uint128:<", "int:int64:!", "float:float16:>", "wchar:!", "leb:ileb128",
                       "leb:uleb128", "switch:compiled", "switch:interpreted"],
    "assumptions": ASSUME_COMMON + ["the native byte orders '@' and '=' are outside the claimed domain"],
}

CHECKS["C10"] = {
    "level": "exploration",
    "shards": {"quick": 16, "thorough": 32},
    "budget": {"quick": 120, "thorough": 400},
    "rule": "every well-formed token sequence of the expression grammar with <= 5 tokens over 14 operands (decimal, "
            "hex, octal, binary, suffixed literals, identifiers a/b/u, constant K, sizeof(uint32), sizeof(unsigned short)), 10 binary and 2 "
            "unary operators and parentheses is enumerated completely (about 5*10^5 expressions, spaced and unspaced), "
            "each under one of three identifier bindings (one where the context shadows the constant); random "
            "expressions to depth 5/6 and literal form x suffix x value sweeps beyond; every evaluation is compared "
            "with an independent precedence-climbing evaluator (C semantics, / and % judged for non-negative operands "
            "only) and re-evaluated on the same object (again, after a failed evaluation, with another context) against "
            "a fresh object; in-situ evaluations (array lengths, enum values, #defines) are checked by a monitor on "
            "Expression.evaluate; distinct = distinct (text, binding)",
    "anchors": ["expression.py"],
    "required_reach": ["expression.py:Expression.evaluate", "expression.py:Expression.evaluate_exp",
                       "expression.py:ExpressionTokenizer.tokenize", "types/base.py:BaseArray._read",
                       "parser.py:TokenParser._enum", "parser.py:TokenParser._constant"],
    "required_cells": ["exhaustive", "random", "literal-forms", "in-situ", "c-compiler", "identifier-spellings",
                       "character-valued-names", "length-expression:flat", "length-expression:eof-rows", "length-expression:fixed-rows",
                       "length-expression:counted-rows", "length-expression:name-between-sizeof-and-a-later-parenthesis",
                       "length-expression:fields-folded-1-levels", "length-expression:fields-folded-2-levels"],
    "exhaustive": {"quick": False, "thorough": False},
    "assumptions": ASSUME_COMMON + ["the reference evaluator vf/refexpr.py is the C-precedence specification"],
}

CHECKS["C12"] = {
    "level": "exploration",
    "shards": {"quick": 16, "thorough": 32},
    "budget": {"quick": 120, "thorough": 300},
    "rule": "random enum/flag declarations (gaps, duplicates, expressions over earlier members, literal forms, all 14 "
            "underlying integer types, token and legacy parser, anonymous) are loaded; __members__ is compared with "
            "the statement's numbering rule; then every underlying value (all 256 for 8-bit types; members, "
            "boundaries, combinations, unknown and random values otherwise) is parsed as scalar, stream, array, "
            "struct field and bit-field in both endians and readers and checked for value preservation, dump, "
            "equality and hash rules; distinct = (declaration, endian, reader, underlying value)",
    "anchors": ["types/enum.py", "types/flag.py", "parser.py"],
    "required_reach": ["types/enum.py:Enum._missing_", "types/enum.py:_fix_alias_members",
                       "types/enum.py:EnumMetaType._read", "types/enum.py:EnumMetaType._read_array",
                       "types/enum.py:EnumMetaType._write", "types/enum.py:EnumMetaType._write_array",
                       "parser.py:TokenParser._enum", "parser.py:CStyleParser._enums", "types/enum.py:Enum.__eq__",
                       "types/flag.py:Flag.__eq__", "types/enum.py:Enum.__hash__", "types/flag.py:Flag.__hash__"],
    "required_cells": ["namesake-enums", "zero-ended-null-terminated-arrays", "pinned-witnesses", "enum:compiled", "enum:interpreted", "flag:compiled", "flag:interpreted", "legacy-parser",
                       "anonymous-enum", "anonymous-constants:flag", "anonymous-constants:enum", "enum-over-enum", "members-named-name-or-value", "dumps-across-endian-switches", "enum:int8", "flag:uint8", "enum:uint24", "flag:int16"],
    "assumptions": ASSUME_COMMON,
}

CHECKS["C13"] = {
    "level": "exploration",
    "shards": {"quick": 16, "thorough": 32},
    "budget": {"quick": 120, "thorough": 300},
    "rule": "metamorphic: a generated definition text is loaded as the reference; mutants are produced by pure "
            "insertion of block comments (containing quotes, semicolons, braces, keywords, newlines), line comments and "
            "whitespace (space, tab, LF, CRLF) at token boundaries outside [...] and #define lines, by "
            "dependency-respecting reordering of the top-level declarations and by splitting them over several load() "
            "calls; type table signature (anonymous names normalised), constants and parse results on fixed inputs "
            "must be identical; alias identity / redeclaration / unknown / cyclic aliases are checked separately; "
            "distinct = (text, mutation)",
    "anchors": ["parser.py", "cstruct.py"],
    "required_reach": ["parser.py:TokenParser._remove_comments", "parser.py:TokenParser.parse",
                       "parser.py:TokenParser._struct", "parser.py:TokenParser._typedef", "parser.py:TokenParser._enum",
                       "parser.py:TokenParser._constant", "parser.py:TokenParser._parse_field_type",
                       "parser.py:TokenParser._names", "cstruct.py:cstruct.add_type", "cstruct.py:cstruct.resolve"],
    "required_cells": ["loads-with-differing-options", "tagged-typedef-declarators", "shared-local-names:split", "shared-local-names:one-load", "reordered", "split-loads", "builtin-aliases", "alias-chain", "unknown-alias", "cyclic-alias",
                       "keyword-like-field-names", "string-constants", "alias-replace", "boundary:line-ends",
                       "comment-replaces-whitespace", "define-without-value", "alias-of-array-or-pointer-redeclared"],
    "assumptions": ASSUME_COMMON,
}

CHECKS["C19"] = {
    "level": "exploration",
    "shards": {"quick": 16, "thorough": 32},
    "budget": {"quick": 120, "thorough": 300},
    "rule": "random byte strings (lengths around multiples of 16), offsets and prefixes are hex-dumped and compared "
            "with an independent formatter; random palettes (zero-length entries, totals below/above the data length, "
            "entries crossing line ends) must change nothing after the colour codes are stripped; dumpstruct of parsed "
            "generated structures must contain the hexdump of exactly obj.dumps() and one line per field; "
            "pack/unpack/p8..u64/swap are compared with int.to_bytes/from_bytes in all endianness spellings; "
            "distinct = distinct argument tuple",
    "anchors": ["utils.py"],
    "required_reach": ["utils.py:_hexdump", "utils.py:hexdump", "utils.py:_dumpstruct", "utils.py:dumpstruct",
                       "utils.py:pack", "utils.py:unpack", "utils.py:swap", "utils.py:p8", "utils.py:u64",
                       "utils.py:swap16", "utils.py:swap32", "utils.py:swap64"],
    "required_cells": ["len%16=0", "len%16=1", "len%16=15", "palette:zeros", "palette:long", "palette:short",
                       "palette:lineends", "dumpstruct:bits", "dumpstruct:plain", "dumpstruct:display-offset", "dumpstruct:repeated-discard-members", "pack:@", "pack:=", "pack:network", "pack:!", "pack:<", "pack:odd-width", "dumpstruct:forms", "dumpstruct:after-assignment", "dumpstruct:after-extension", "swap:width-not-a-multiple-of-8"],
    "assumptions": ASSUME_COMMON,
}

CHECKS["C20"] = {
    "level": "exploration",
    "shards": {"quick": 8, "thorough": 32},
    "budget": {"quick": 120, "thorough": 300},
    "rule": "generated definition sets (structs, unions, nested and anonymous members, enums, flags, typedef names, "
            "arrays, pointers, constants) plus a list of special forms (anonymous enums, typedefs of array/pointer "
            "types, keyword names, string/bytes/float constants, string aliases) are loaded and passed to the real stub "
            "generator; the output is parsed with ast and the names bound in the class body, the field annotations and "
            "enum members are compared with what the cstruct object provides; distinct = distinct definition text",
    "anchors": ["tools/stubgen.py"],
    "required_reach": ["tools/stubgen.py:generate_cstruct_stub", "tools/stubgen.py:generate_structure_stub",
                       "tools/stubgen.py:generate_enum_stub", "tools/stubgen.py:generate_typehint"],
    "required_cells": ["form:anonymous-enum", "form:array-typedef", "form:keyword-field", "form:string-const",
                       "form:enum-and-flag-aliases", "form:tagged-inline-members",
                       "form:nested-anon-array", "form:string-alias", "feat:union", "feat:nested", "feat:enum"],
    "assumptions": ASSUME_COMMON + ["ast.parse decides syntactic validity"],
}

CHECKS["C15"] = {
    "level": "exploration",
    "shards": {"quick": 16, "thorough": 32},
    "budget": {"quick": 240, "thorough": 600},
    "rule": "eighteen workloads (expression-sized arrays, bit-fields+enums incl. dumping, unions with member assignment, "
            "dereferenced pointers, nested arrays of structures with null-terminated wchar, LEB128 parse+dump, "
            "wchar/multi-dimensional/expression tails, null-terminated arrays of structures, unknown enum/flag values "
            "(pseudo-members created while threads interleave), parse + construct-and-dump + default construction, "
            "unary operators in lengths, unions written through a member that is not the first, long NUL-terminated "
            "strings in place and behind a pointer, two-dimensional arrays with a run-time inner dimension, NUL-terminated "
            "wide strings with surrogate pairs, constructed instances changed in place below the top level, several threads "
            "writing multi-byte LEB128 values, arrays sized by a field of an anonymous member) x "
            "{compiled, interpreted}; 2-3 threads run jobs on independent streams with shared type objects under a "
            "deterministic scheduler that makes every source line of the library (thorough: every bytecode instruction "
            "of expression.py/bitbuffer.py) a yield point; ALL single-preemption schedules (both starting threads) are "
            "enumerated on warm types and again on cold ones (a fresh cstruct object per schedule, so lazily created "
            "state is created while the threads interleave; quick: every third), plus random 2-6-preemption schedules with 2 and 3 threads (thorough: all two-preemption "
            "schedules of the small workloads) and a free-running stress run; one evaluation = one schedule; a "
            "schedule is non-trivial when a switch actually happened at a library yield point",
    "anchors": ["expression.py", "types/base.py", "types/structure.py", "bitbuffer.py"],
    "required_reach": ["expression.py:Expression.evaluate", "types/base.py:BaseArray._read",
                       "types/structure.py:StructureMetaType._read", "bitbuffer.py:BitBuffer.read",
                       "types/pointer.py:Pointer.dereference", "types/structure.py:Union._rebuild", "<compiled>"],
    "required_cells": ["workload:expr:compiled", "workload:expr:interpreted", "workload:bits:compiled",
                       "workload:union:interpreted", "workload:ptr:compiled", "workload:nested:interpreted",
                       "workload:leb:compiled", "workload:wide:interpreted", "workload:nullstructs:compiled",
                       "workload:enums:interpreted", "workload:dumpmix:compiled", "workload:exprneg:compiled",
                       "workload:exprneg:interpreted", "workload:unionwrite:interpreted", "workload:longstr:compiled",
                       "workload:longstr:interpreted", "workload:grid:compiled", "workload:grid:interpreted",
                       "workload:wsurrogate:compiled", "workload:wsurrogate:interpreted", "workload:enumunk:compiled", "workload:enumunk:interpreted",
                       "workload:unionbits:compiled", "workload:unionbits:interpreted", "workload:construct:compiled",
                       "workload:construct:interpreted", "workload:lebdump:compiled", "workload:lebdump:interpreted",
                       "workload:anonlen:compiled", "workload:anonlen:interpreted"],
    "assumptions": ASSUME_COMMON + ["context switches are modelled at source-line granularity (CPython can switch "
                                    "between bytecodes; thorough adds instruction granularity for the evaluator and the "
                                    "bit buffer)"],
}

CHECKS["C16"] = {
    "level": "exploration",
    "shards": {"quick": 16, "thorough": 32},
    "budget": {"quick": 120, "thorough": 300},
    "rule": "the full product target kind {scalar, float, char, struct, pointer-to-pointer} x pointer type "
            "{uint8,16,24,32,48,64} x endian x alignment x reader is instantiated on every run: a structure with a "
            "pointer, following fields and an array of pointers is placed in a stream at a random base together with "
            "encoded targets at the stored absolute addresses; a recording stream observes dereferences (position "
            "restored, second dereference without stream events), arithmetic, dumps, null / stream-less / out-of-range "
            "/ beyond-the-stream addresses; distinct = (definition, configuration, stream contents, pointer index)",
    "anchors": ["types/pointer.py", "cstruct.py", "compiler.py"],
    "required_reach": ["types/pointer.py:Pointer._read", "types/pointer.py:Pointer._write",
                       "types/pointer.py:Pointer.dereference", "types/pointer.py:Pointer.__default__",
                       "types/pointer.py:Pointer.__add__", "cstruct.py:cstruct._make_pointer", "<compiled>"],
    "required_cells": ["native-byte-orders", "width:uint8", "width:uint16", "width:uint24", "width:uint32", "width:uint48", "width:uint64",
                       "target:char", "target:wchar", "target:struct", "target:ptrptr", "reader:compiled", "reader:interpreted",
                       "endian:>", "union-pointers", "union-pointers:built-from-values", "reconfigured-width", "context-target:first", "context-target:last",
                       "context-target:both", "context-target:folded", "context-target:deep",
                       "copied-pointers", "linked-structures"],
    "assumptions": ASSUME_COMMON,
}

CHECKS["C11"] = {
    "level": "exploration",
    "shards": {"quick": 16, "thorough": 32},
    "budget": {"quick": 120, "thorough": 400},
    "rule": "union-centred definitions (2-4 members: scalars of every width, arrays, char arrays, nested structures "
            "with bit-fields, anonymous structures, enums, pointers; as top-level union, named field or anonymous "
            "member of a structure) x endian x alignment x reader; after parsing and after every step of a random "
            "assignment history (direct member, nested field through the proxy, anonymous-structure field incl. "
            "two-level attribute forwarding, whole-array replacement) every member must equal the reference parse of a "
            "shadow byte buffer and dumps() must equal it on data bits; an in-situ monitor on Union._rebuild checks "
            "buffer length and member coherence after every mutation; distinct = (definition, config, input, history)",
    "anchors": ["types/structure.py"],
    "required_reach": ["types/structure.py:UnionMetaType._read_fields", "types/structure.py:Union._update",
                       "types/structure.py:Union.__setattr__", "types/structure.py:Union._rebuild",
                       "types/structure.py:Union._proxify", "types/structure.py:UnionProxy.__setattr__",
                       "types/structure.py:UnionMetaType._write",
                       "types/structure.py:UnionMetaType._calculate_size_and_offsets"],
    "required_cells": ["pinned-witnesses", "align:True", "align:False", "shape:top", "shape:field", "shape:anon", "route:direct",
                       "route:nested-via-proxy", "route:nested-deep", "route:anonymous-struct-field",
                       "route:array-replace", "route:nested-union", "route:explicit-offset-member",
                       "shape:explicit-offsets", "held-reference", "route:refused-assignment", "route:refused-array-assignment", "route:copy-assigned", "route:array-assigned-back",
                       "route:refused-nested-assignment",
                       "route:structure-in-array-member", "defaults-and-falsy-values"],
    "assumptions": ASSUME_COMMON + ["an assignment writes the member's full encoding (its padding as zero) into the "
                                    "union's bytes"],
}

CHECKS["C17"] = {
    "level": "exploration",
    "shards": {"quick": 16, "thorough": 32},
    "budget": {"quick": 120, "thorough": 400},
    "rule": "fixed-size generated definitions with 1-10 (thorough: 1-40) fields, each loaded together with a twin "
            "structure of identical fields under another name; pairs of instances (parsed/constructed, identical or "
            "differing in exactly one field) are compared with a field-wise model for ==, !=, hash and bool; keyword/"
            "positional construction is compared with assignment on a default instance; after single-field assignments "
            "dumps() must equal the model encoding and differ from the previous dump only inside the field's extent; "
            "a monitor on _update_fields checks the generated code objects of every class built; distinct = "
            "(definition, config, value pair or assignment)",
    "anchors": ["types/structure.py"],
    "required_reach": ["types/structure.py:_patch_attributes", "types/structure.py:_generate__eq__",
                       "types/structure.py:_generate__hash__", "types/structure.py:_generate__bool__",
                       "types/structure.py:_generate_structure__init__", "types/structure.py:StructureMetaType._update_fields",
                       "types/structure.py:attrsetter"],
    "required_cells": ["align:True", "align:False", "fields:0+", "fields:5+", "fields:10+", "nested-struct-in-union",
                       "discard-field",
                       "special-forms", "falsy-values-and-default-elements", "duplicate-folded-names", "enum-field-holding-a-plain-integer"],
    "assumptions": ASSUME_COMMON + ["NaN-containing values are not used (NaN != NaN as in Python)"],
}

CHECKS["C14"] = {
    "level": "exploration",
    "shards": {"quick": 16, "thorough": 32},
    "budget": {"quick": 120, "thorough": 400},
    "rule": "random histories of 10-24 operations over three cstruct objects (two with the same type names and "
            "definitions but different byte order, one with other definitions): default and keyword construction, "
            "in-place mutation of lists / nested structures / array elements, parse, dump, failed parse, endianness "
            "change, further load(), add_type; after every step all live instances are re-read and compared with their "
            "expected values, every parse is replayed on a fresh cstruct (isolation), and an instance-graph monitor "
            "checks that no mutable object is shared between two instances or with the defaults stored in the class's "
            "generated __init__; distinct = distinct history",
    "anchors": ["types/structure.py", "types/base.py", "cstruct.py", "types/packed.py"],
    "required_reach": ["types/structure.py:_generate_structure__init__", "types/structure.py:StructureMetaType.__call__",
                       "types/base.py:BaseArray.__default__", "types/base.py:MetaType.__default__",
                       "cstruct.py:cstruct.add_type", "types/packed.py:_struct"],
    "required_cells": ["failed-length-evaluations", "alias-used-before-its-target-is-re-bound", "failed-dumps", "union-bit-fields-on-objects-of-different-byte-orders",
                       "element-type-extended-after-a-null-terminated-parse",
                       "op:default", "op:keyword", "op:mutate", "op:parse", "op:failparse", "op:endian", "op:load",
                       "op:add_type", "two-cstructs-same-names", "load-histories", "load-histories:align",
                       "load-histories:compiled",
                       "deepcopy:union", "deepcopy:plain", "custom-type-on-several-cstructs", "failed-load-then-corrected-load", "same-text-other-constants"],
    "assumptions": ASSUME_COMMON,
}

CHECKS["C18"] = {
    "level": "exploration",
    "shards": {"quick": 16, "thorough": 32},
    "budget": {"quick": 120, "thorough": 400},
    "rule": GEN_RULE + "; the field list of each generated structure is replayed through random splits into "
                       "add_field / start_update batches / commits on an initially empty (optionally compiled) class and "
                       "compared with the one-shot class: layout signature, compiled state, generated reader source, "
                       "field tables, parse/dump/_sizes/bool/eq/hash/default behaviour; self-referential definitions go "
                       "through the parser's pre-registration path",
    "anchors": ["types/structure.py", "parser.py"],
    "required_reach": ["types/structure.py:StructureMetaType.add_field", "types/structure.py:StructureMetaType.start_update",
                       "types/structure.py:StructureMetaType.commit", "types/structure.py:StructureMetaType._update_fields",
                       "parser.py:TokenParser._struct", "compiler.py:Compiler.compile_read"],
    "required_cells": ["size-named-in-the-length-of-another-structure", "pattern:all-single", "pattern:mixed", "transition:becomes-dynamic", "transition:gains-bit-fields",
                       "transition:alignment-grows", "self-reference", "instances-exist-before-extension",
                       "batch-left-by-exception", "discard-fields-sequence", "array-of-intermediate-state", "refused-extension-in-between",
                       "container-declared-before-member-extension",
                       "explicit-offset-after-dynamic-field", "explicit-offsets-in-later-commits", "lone-char-member-then-extended", "straddling-bit-field-in-a-later-commit", "union-written-before-extension", "self-referential-array-member"],
    "assumptions": ASSUME_COMMON,
}

NOT_APPLICABLE = {}

MANIFEST_TEXT = {
    "C18": {
        "text": "Differential runtime testing of histories of add_field/start_update/commit against the one-shot class "
                "for generated field lists in every configuration: layout, compiled state, the generated reader's "
                "source text, field tables and observable behaviour must be identical after the last commit; "
                "self-referential definitions are walked through their pointers. Held-on-observed; split patterns "
                "and transitions seen are accounted.",
        "design_ref": "DESIGN.md 4 C18",
        "note": "named top-level structures already take the incremental path inside the parser, so every other check "
                "exercises it as well",
        "technique": "history-vs-one-shot differential testing incl. generated source text",
    },
    "C14": {
        "text": "History-based runtime monitoring over several live cstruct objects and instances: random operation "
                "histories (construct / mutate in place / parse / dump / failed parse / endian switch / load / "
                "add_type) are executed on the real library; after every step every live instance is compared with "
                "its expected value, parses are replayed in isolation on a fresh cstruct, and an object-graph monitor "
                "asserts that instances share no mutable object with each other or with the class defaults. "
                "Held-on-observed.",
        "design_ref": "DESIGN.md 4 C14",
        "note": "the graph walker descends only through lists, Structure instances and union proxies and never "
                "touches pointers, classes or streams",
        "technique": "operation histories with replay-in-isolation and an object-graph aliasing monitor",
    },
    "C17": {
        "text": "Runtime monitoring of the generated methods of real structure classes: a hook on _update_fields checks "
                "the patched code objects of every class built in the process (many classes sharing cached templates), "
                "and field-wise oracles judge ==/!=/hash/bool on instance pairs, constructor forms against assignment "
                "on defaults, and byte locality of single-field assignments against the layout model. Held-on-observed.",
        "design_ref": "DESIGN.md 4 C17",
        "note": "equality of union-typed members is by their bytes; pairs differ only in non-union fields",
        "technique": "code-object invariant hook + field-wise model oracle on generated instance pairs",
    },
    "C11": {
        "text": "History-based runtime monitoring of real union objects: a shadow byte buffer (the sequential "
                "specification) is updated alongside random assignment histories over all routes, and after every "
                "step every member view and dumps() are compared with it; a hook on Union._rebuild additionally "
                "asserts buffer length and member/buffer coherence after every mutation anywhere. Held-on-observed; "
                "the known dump defect K1 is classified bitwise.",
        "design_ref": "DESIGN.md 4 C11",
        "note": "dynamic unions are outside the property (fixed-size unions only); NaN-containing states skip the dump "
                "comparison",
        "technique": "shadow-model history checking + invariant hook on Union._rebuild",
    },
    "C16": {
        "text": "Recording-stream monitoring of real pointer fields over the complete product of target kind x pointer "
                "width (8-64 bit incl. 24/48) x endianness x alignment x reader: integer value, width, dereference "
                "against a reference parse of the target at the absolute address, stream position and event log "
                "around first and repeated dereference, arithmetic, dump, and the null / stream-less / out-of-range "
                "cases. Held-on-observed (addresses and contents are sampled).",
        "design_ref": "DESIGN.md 4 C16",
        "note": "non-struct pointer types (uint24/uint48) fall back to the interpreted reader after fix; the reader "
                "cell counts the mode actually used",
        "technique": "recorded stream event log around dereference + reference parse of the target",
    },
    "C15": {
        "text": "Systematic schedule exploration of real threads running the real library: a sys.monitoring-based "
                "deterministic scheduler turns every library source line into a yield point; for eighteen workloads in both "
                "reader modes every single-preemption schedule is executed (exhaustive for that bound) on warm and on "
                "cold (freshly loaded) types, plus random "
                "multi-preemption schedules with 2-3 threads (and all two-preemption schedules of the small workloads "
                "in thorough); each thread's result must equal its sequential result, which in turn must be what the job gives alone on fresh types. The schedules, yield points and "
                "distinct switch points seen are reported.",
        "design_ref": "DESIGN.md 4 C15",
        "note": "bounded preemptions at line granularity; a thread that never reaches a yield point makes the run "
                "inconclusive",
        "technique": "deterministic thread scheduler on sys.monitoring LINE events, bounded-preemption enumeration",
    },
    "C20": {
        "text": "The real stub generator is run on generated definition sets and on a list of special forms; ast.parse "
                "decides validity, and the declared names, structure field annotations and enum members are compared "
                "with the loaded cstruct object. Held-on-observed; four known stub-generator defects (K3-K6) are "
                "classified by the offending construct.",
        "design_ref": "DESIGN.md 4 C20",
        "note": "a field hint is required to name the field's base type (innermost type of Array[...]/Pointer[...])",
        "technique": "generated definition sets + ast-based oracle on the emitted stub",
    },
    "C19": {
        "text": "The real utility functions are run on thousands of random inputs and judged by independent oracles: "
                "an own hexdump formatter, colour-code stripping for arbitrary palettes, containment of the hexdump "
                "of obj.dumps() and of one line per field in dumpstruct output for parsed generated structures, and "
                "int.to_bytes/from_bytes for pack/unpack/swap in every endianness spelling. Held-on-observed.",
        "design_ref": "DESIGN.md 4 C19",
        "note": "swap of a negative value is compared modulo 2^n (the function returns the unsigned image)",
        "technique": "randomised differential testing against independent formatters/encoders",
    },
    "C13": {
        "text": "Metamorphic runtime testing of the real definition parser: thousands of mutants (comment/whitespace "
                "insertions at token boundaries, dependency-respecting reorderings, split loads) of generated "
                "definitions must produce the same type table, constants and parse results as the original; alias "
                "identity, redeclaration and unknown/cyclic alias handling are exercised directly. Held-on-observed; "
                "insertion points are accounted per boundary kind.",
        "design_ref": "DESIGN.md 4 C13",
        "note": "insertions are pure (the text's own separators stay); array brackets and #define lines are "
                "line-oriented by the statement and excluded",
        "technique": "metamorphic mutation of generated definition texts with a type-table/behaviour oracle",
    },
    "C12": {
        "text": "Runtime observation of real enum/flag classes built from random declarations over every underlying "
                "integer type: member numbering against the stated rule (both parsers), then value preservation, "
                "dump, equality and hash for every underlying value of 8-bit types and boundary/combination/unknown/"
                "random values of wider ones, as scalar, array, struct field and bit-field, in both endians and "
                "reader modes. Held-on-observed.",
        "design_ref": "DESIGN.md 4 C12",
        "note": "alias members compare equal but may hash differently (only two parses of one value are required to "
                "hash equally); known finding K2 (flag over a signed type, negative values) is classified by mechanism",
        "technique": "generated declarations + value sweeps with a numbering/equality oracle",
    },
    "C10": {
        "text": "The real evaluator is run on the complete set of well-formed expressions up to 5 tokens (enumerated "
                "from the grammar on every run), on random deeper ones and on literal-form sweeps, each judged against "
                "an independent evaluator and re-evaluated on the same object for repeatability; a monitor on "
                "Expression.evaluate additionally re-checks every evaluation that happens inside load() and parsing. "
                "Exhaustive for the <=5-token bound over the stated operand pool, held-on-observed beyond.",
        "design_ref": "DESIGN.md 4 C10",
        "note": "/ and % with a negative operand, negative shift counts and division by zero are outside the claimed "
                "domain and only used for the repeatability part",
        "technique": "bounded-exhaustive grammar enumeration + reference evaluator + call monitor",
    },
    "C05": {
        "text": "Runtime contracts on the real codec functions (Int/Packed/LEB128/Wchar read+write wrapped from the "
                "harness, each call compared with int.from_bytes/struct/str.encode/an independent LEB128 codec under "
                "the endianness current at call time) plus direct API sweeps over all built-in types and aliases x "
                "{<,>,!} with boundary/pattern/random values, exhaustive for 8-bit types and 1-2 byte LEB128, and "
                "endianness switches on already loaded compiled and interpreted structures. Held-on-observed.",
        "design_ref": "DESIGN.md 4 C05",
        "note": "signedness/width expectations are written from the type names; 'long'/'ulong' are only checked for "
                "self-consistency",
        "technique": "call-level codec monitor + value sweeps against independent encoders",
    },
    "C09": {
        "text": "Recording-stream monitoring of the real readers: each parse is repeated at several start offsets with "
                "random surrounding bytes, in multi-read histories on one stream and through all input kinds and call "
                "forms; an offline checker over the recorded read/seek/tell events demands equal values, final "
                "position = start + encoded size, equal _sizes, no read before the start or beyond the extent. "
                "Held-on-observed.",
        "design_ref": "DESIGN.md 4 C09",
        "note": "aligned structures are parsed at offsets that are multiples of 16 (the statement says 'an aligned "
                "p'); EOF arrays are exempt from the upper extent bound",
        "technique": "recorded stream event logs checked offline + metamorphic comparison across offsets/forms",
    },
    "C08": {
        "text": "Fault enumeration on the real readers: for generated definitions x configurations x accepted inputs, "
                "every cut point of the input and every read call of the recorded fault-free run x {empty, half, "
                "raise} is executed; an oracle over the outcomes demands an error whenever a data-carrying byte "
                "(reference-model mask) is missing, never a different value, no swallowed stream exception, no "
                "spinning on empty reads (logical-step watchdog) and no residue in later parses.",
        "design_ref": "DESIGN.md 4 C08",
        "note": "per case the enumeration of cut points (thorough) and read calls is complete; the case space itself "
                "is sampled; EOF arrays are exempt inside their own extent as the statement says",
        "technique": "fault injection at every recorded read call + every cut point, outcome oracle",
    },
    "C07": {
        "text": "Runtime monitoring of the real array readers/writers over the complete element-kind x length-form "
                "matrix (every cell instantiated on every run, both readers, both endians, packed and aligned) and "
                "array-heavy generated definitions; lengths, contents, consumed bytes and dumps are compared with a "
                "reference model whose length expressions are evaluated by an independent evaluator; wrong-count "
                "dumps of fixed arrays must raise. Held-on-observed; an empty matrix cell makes the run inconclusive.",
        "design_ref": "DESIGN.md 4 C07",
        "note": "EOF arrays over a partial last element may raise (only returned values are judged); float [] arrays "
                "are outside the statement's element list",
        "technique": "matrix workload + reference model oracle on the real array code paths",
    },
    "C06": {
        "text": "Invariant-at-a-hook monitoring of the real BitBuffer (every read/write/flush/reset of interpreted and "
                "generated readers and of the writer) plus model comparison of parse and dump; the 8-bit sub-space "
                "(all compositions of <=8 bits into <=3 fields x 256 contents x endian x reader x signedness) is "
                "enumerated completely on every run, wider units/neighbours/alignment are sampled; straddling "
                "declarations must be rejected at load. Held-on-observed outside the enumerated sub-space.",
        "design_ref": "DESIGN.md 4 C06",
        "note": "out-of-range values written to a bit-field are outside the property ('every value that fits')",
        "technique": "BitBuffer invariant monitor + reference bit-slicing model; exhaustive 8-bit sub-space",
    },
    "C04": {
        "text": "Runtime observation of the real type objects built from generated fixed-size definitions in packed and "
                "aligned mode and all pointer widths: size, alignment and member offsets are compared with an "
                "independent layout model, with ctypes.Structure/Union (host C ABI) and with the output of a real C "
                "compiler for the same declarations on the mappable subset, and "
                "the four size observations (len, sizeof in an expression, bytes consumed, bytes dumped) are taken "
                "from real executions. Held-on-observed.",
        "design_ref": "DESIGN.md 4 C04",
        "note": "ctypes covers 8-64 bit ints, floats, char, wchar, enums, pointers, arrays, nested structs/unions; "
                "int24/48/128 and bit-field cases are judged by the model only",
        "technique": "generated definitions checked against a C compiler, ctypes (C ABI oracles) and a layout model",
    },
    "C01": {
        "text": "Runtime monitoring of the real dump->parse round trip over generated definitions x values (parsed "
                "from hostile bytes and constructed directly) x endianness x alignment x reader mode; equality is "
                "judged on normalised values and consumed length, and every integer-like leaf is additionally "
                "assigned out-of-range values whose dump must raise. Held-on-observed.",
        "design_ref": "DESIGN.md 4 C01",
        "note": "NaN-aware equality; known findings K1 (union dump) and K7 (aligned struct ending in an EOF array) "
                "are classified by mechanism, anything else is a violation",
        "technique": "generated workloads on the real reader/writer with a round-trip oracle and overflow probes",
    },
    "C02": {
        "text": "Runtime monitoring of parse-then-dump on the real library: for thousands of generated definitions "
                "in every endianness x alignment x reader mode, canonical inputs with random garbage in all padding and "
                "unassigned bit-field bits (and arbitrary bytes) are parsed and dumped, and the dump is compared bit by "
                "bit with the input under the data-bit mask of an independent layout model; non-data bits must be "
                "zero. Held-on-observed.",
        "design_ref": "DESIGN.md 4 C02",
        "note": "the data-bit mask comes from the reference model; NaN and non-minimal LEB128 inputs are outside the "
                "property's domain and skipped (counted)",
        "technique": "generated workloads + offline bitwise comparison under a reference-model mask",
    },
    "C03": {
        "text": "Differential runtime monitoring: every generated definition is loaded twice (compiled/interpreted) in "
                "each endianness x alignment x pointer width and both real readers are executed on model-built and "
                "arbitrary inputs, at three start offsets (0, aligned, odd) and on cut inputs; values, consumed bytes, "
                "_sizes and layout are compared; then again after switching the byte order of the loaded objects, and "
                "for declarations loaded with mixed align flags. Held-on-observed only; reach of the source generator's branches is measured and a run "
                "without compiled readers is inconclusive.",
        "design_ref": "DESIGN.md 4 C03",
        "note": "trusts the interpreted reader only as the other side of the comparison (its own correctness is "
                "C04-C09); generator bounds: <=6 (quick) / <=12 (thorough) fields, nesting <=2/3",
        "technique": "differential execution of generated definitions under both readers with reach accounting",
    },
}
