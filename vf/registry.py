"""Per-property run parameters (no library import here)."""

ASSUME_COMMON = [
    "CPython's int/struct/codecs and the host ABI (ctypes) are correct",
    "the reference model (vf/model.py) is a faithful reading of the property statements",
    "held only on the executions observed: definitions/inputs within the generator bounds",
]

GEN_RULE = ("definitions are generated as an AST (vf/gen.py), rendered to text and loaded through the library's own "
            "parser; a case = (definition text, endianness, alignment mode, reader mode, pointer width, input bytes "
            "or operation list); distinct = distinct hash of that tuple; non-trivial = the oracle was actually "
            "evaluated on it (definition loaded and at least one comparison made)")

CHECKS = {
    "C03": {
        "level": "exploration",
        "shards": {"quick": 16, "thorough": 32},
        "budget": {"quick": 40, "thorough": 420},
        "rule": GEN_RULE + "; here both readers are run on the same input and start offset and compared "
                           "(value, tell, _sizes, layout), plus cut inputs for contradiction",
        "anchors": ["compiler.py", "types/structure.py"],
        "required_reach": [
            "<compiled>",
            "compiler.py:_ReadSourceGenerator._generate_packed",
            "compiler.py:_ReadSourceGenerator._generate_bits",
            "compiler.py:_ReadSourceGenerator._generate_structure",
            "compiler.py:_ReadSourceGenerator._generate_array",
            "compiler.py:_generate_struct_info",
            "compiler.py:_optimize_struct_fmt",
            "types/structure.py:StructureMetaType._read",
        ],
        "required_cells": ["compiled:True", "fallback", "align:True", "align:False", "endian:<", "endian:>"],
        "assumptions": ASSUME_COMMON,
    },
}

CHECKS["C02"] = {
    "level": "exploration",
    "shards": {"quick": 16, "thorough": 32},
    "budget": {"quick": 40, "thorough": 420},
    "rule": GEN_RULE + "; inputs are model-built encodings with random garbage in padding and unassigned bit-field "
                       "bits, plus arbitrary bytes; the real dumps() of the real parse is compared bit by bit with the "
                       "input under the reference model's data-bit mask",
    "anchors": ["types/structure.py", "bitbuffer.py", "types/base.py", "types/char.py", "types/wchar.py"],
    "required_reach": ["types/structure.py:StructureMetaType._write", "types/structure.py:StructureMetaType._read",
                       "bitbuffer.py:BitBuffer.flush", "types/base.py:MetaType._write_0",
                       "types/char.py:CharArray._write", "<compiled>"],
    "required_cells": ["align:True", "align:False", "endian:<", "endian:>", "feat:bits", "feat:arr:null"],
    "assumptions": ASSUME_COMMON,
}

CHECKS["C01"] = {
    "level": "exploration",
    "shards": {"quick": 16, "thorough": 32},
    "budget": {"quick": 40, "thorough": 420},
    "rule": GEN_RULE + "; values come from parsing hostile bytes and from direct construction out of random model "
                       "values; each is dumped by the real writer and re-parsed by the real reader; for every "
                       "integer-like leaf an out-of-range value is assigned and dumps() must raise",
    "anchors": ["types/", "bitbuffer.py"],
    "required_reach": ["types/structure.py:StructureMetaType._write", "types/structure.py:StructureMetaType._read",
                       "bitbuffer.py:BitBuffer.write", "bitbuffer.py:BitBuffer.read", "types/base.py:BaseArray._write",
                       "types/int.py:Int._write", "types/packed.py:Packed._write", "types/enum.py:EnumMetaType._write",
                       "types/pointer.py:Pointer._write", "<compiled>"],
    "required_cells": ["align:True", "align:False", "endian:<", "endian:>", "feat:bits:signed", "feat:union",
                       "feat:ptr", "feat:arr:struct"],
    "assumptions": ASSUME_COMMON,
}

CHECKS["C04"] = {
    "level": "exploration",
    "shards": {"quick": 16, "thorough": 32},
    "budget": {"quick": 40, "thorough": 300},
    "rule": GEN_RULE + "; fixed-size definitions only; size, alignment and every member offset (recursively) are "
                       "compared with an independent layout model and, on the mappable subset, with ctypes "
                       "(the host C ABI); len(T), sizeof(T) inside an expression, bytes consumed and bytes dumped "
                       "must agree",
    "anchors": ["types/structure.py", "cstruct.py", "expression.py"],
    "required_reach": ["types/structure.py:StructureMetaType._calculate_size_and_offsets",
                       "types/structure.py:UnionMetaType._calculate_size_and_offsets",
                       "cstruct.py:cstruct._make_array", "cstruct.py:cstruct._make_pointer",
                       "expression.py:Expression.evaluate"],
    "required_cells": ["align:True", "align:False", "alignclass:1", "alignclass:2", "alignclass:4", "alignclass:8",
                       "alignclass:16"],
    "assumptions": ASSUME_COMMON,
}

CHECKS["C06"] = {
    "level": "exploration",
    "shards": {"quick": 16, "thorough": 32},
    "budget": {"quick": 45, "thorough": 420},
    "rule": GEN_RULE + "; three workloads: (1) exhaustive: every composition of <=8 bits into <=3 fields on uint8/int8 "
                       "units x all 256 unit contents x 2 endians x 2 readers; (2) straddling declarations that must "
                       "be rejected; (3) generated bit-field-heavy definitions x pattern inputs (all ones, top bit, "
                       "walking one, garbage); every BitBuffer.read/write/flush/reset anywhere is additionally "
                       "checked by an invariant monitor (slices disjoint, contiguous from LSB/MSB, in range; written "
                       "unit equals an independent accumulation)",
    "anchors": ["bitbuffer.py", "types/structure.py", "compiler.py"],
    "required_reach": ["bitbuffer.py:BitBuffer.read", "bitbuffer.py:BitBuffer.write", "bitbuffer.py:BitBuffer.flush",
                       "bitbuffer.py:BitBuffer.reset", "compiler.py:_ReadSourceGenerator._generate_bits",
                       "types/structure.py:StructureMetaType._calculate_size_and_offsets", "<compiled>"],
    "required_cells": ["straddle", "aligned", "feat:bits:signed", "feat:bits:enum", "feat:bits:wide",
                       "exh:uint8:<:compiled", "exh:uint8:>:interpreted", "exh:int8:>:compiled",
                       "exh:int8:<:interpreted"],
    "exhaustive": {"quick": False, "thorough": False},
    "assumptions": ASSUME_COMMON,
}

NOT_APPLICABLE = {}

MANIFEST_TEXT = {
    "C06": {
        "text": "Invariant-at-a-hook monitoring of the real BitBuffer (every read/write/flush/reset of interpreted and "
                "generated readers and of the writer) plus model comparison of parse and dump; the 8-bit sub-space "
                "(all compositions of <=8 bits into <=3 fields x 256 contents x endian x reader x signedness) is "
                "enumerated completely on every run, wider units/neighbours/alignment are sampled; straddling "
                "declarations must be rejected at load. Held-on-observed outside the enumerated sub-space.",
        "design_ref": "DESIGN.md 4 C06",
        "note": "out-of-range values written to a bit-field are outside the property ('every value that fits')",
        "technique": "BitBuffer invariant monitor + reference bit-slicing model; exhaustive 8-bit sub-space",
    },
    "C04": {
        "text": "Runtime observation of the real type objects built from generated fixed-size definitions in packed and "
                "aligned mode and all pointer widths: size, alignment and member offsets are compared with an "
                "independent layout model and with ctypes.Structure/Union (host C ABI) on the mappable subset, and "
                "the four size observations (len, sizeof in an expression, bytes consumed, bytes dumped) are taken "
                "from real executions. Held-on-observed.",
        "design_ref": "DESIGN.md 4 C04",
        "note": "ctypes covers 8-64 bit ints, floats, char, wchar, enums, pointers, arrays, nested structs/unions; "
                "int24/48/128 and bit-field cases are judged by the model only",
        "technique": "generated definitions checked against ctypes (C ABI oracle) and a layout model",
    },
    "C01": {
        "text": "Runtime monitoring of the real dump->parse round trip over generated definitions x values (parsed "
                "from hostile bytes and constructed directly) x endianness x alignment x reader mode; equality is "
                "judged on normalised values and consumed length, and every integer-like leaf is additionally "
                "assigned out-of-range values whose dump must raise. Held-on-observed.",
        "design_ref": "DESIGN.md 4 C01",
        "note": "NaN-aware equality; known findings K1 (union dump) and K7 (aligned struct ending in an EOF array) "
                "are classified by mechanism, anything else is a violation",
        "technique": "generated workloads on the real reader/writer with a round-trip oracle and overflow probes",
    },
    "C02": {
        "text": "Runtime monitoring of parse-then-dump on the real library: for thousands of generated definitions "
                "in every endianness x alignment x reader mode, canonical inputs with random garbage in all padding and "
                "unassigned bit-field bits (and arbitrary bytes) are parsed and dumped, and the dump is compared bit by "
                "bit with the input under the data-bit mask of an independent layout model; non-data bits must be "
                "zero. Held-on-observed.",
        "design_ref": "DESIGN.md 4 C02",
        "note": "the data-bit mask comes from the reference model; NaN and non-minimal LEB128 inputs are outside the "
                "property's domain and skipped (counted)",
        "technique": "generated workloads + offline bitwise comparison under a reference-model mask",
    },
    "C03": {
        "text": "Differential runtime monitoring: every generated definition is loaded twice (compiled/interpreted) in "
                "each endianness x alignment x pointer width and both real readers are executed on model-built and "
                "arbitrary inputs, at two start offsets and on cut inputs; values, consumed bytes, _sizes and layout "
                "are compared. Held-on-observed only; reach of the source generator's branches is measured and a run "
                "without compiled readers is inconclusive.",
        "design_ref": "DESIGN.md 4 C03",
        "note": "trusts the interpreted reader only as the other side of the comparison (its own correctness is "
                "C04-C09); generator bounds: <=6 (quick) / <=12 (thorough) fields, nesting <=2/3",
        "technique": "differential execution of generated definitions under both readers with reach accounting",
    },
}
