"""Executable reference model of the documented semantics (layout, parse, dump, data-bit mask).

Written from the property statements; depends only on int.from_bytes/to_bytes, struct and codecs.
Nothing here imports dissect.cstruct.

Value forms: int -> int, float -> float, char -> bytes, wchar -> str, leb -> int, void -> None,
enum/flag -> int, pointer -> int, array -> list (char arrays -> bytes, wchar arrays -> str),
struct/union -> dict keyed by field name ("#i" for the i-th, anonymous, member; keys starting with "$"
are annotations).
"""
from __future__ import annotations

import math
import random
import struct as _st

from . import refexpr
from .gen import ALL_INTS, FLOATS, INT_ALIGN, PACKED_INTS


class ModelEOF(Exception):
    """A data-carrying byte is missing."""


class ModelReject(Exception):
    """The definition must be rejected (e.g. straddling bit-field)."""


class ModelUnsupported(Exception):
    """Outside what the model describes (dynamic unions)."""


class ModelDecodeError(Exception):
    """Bytes are not a valid encoding (UTF-16); the library may raise too."""


class Cfg:
    def __init__(self, endian="<", align=False, ptr="uint64", consts=None, named=None):
        self.endian = endian
        self.big = endian in (">", "!")
        self.order = "big" if self.big else "little"
        self.align = align
        self.ptr = ptr
        self.consts = consts or {}
        self.named = named or {}  # name -> struct node, for sizeof(name)

    def key(self):
        return f"{self.endian}{'A' if self.align else 'P'}{self.ptr}"


FLOAT_FMT = {"float16": "e", "float": "f", "double": "d"}


def fkey(i, f):
    return f["name"] if f["name"] is not None else f"#{i}"


def roundup(pos, a):
    return pos + (-pos % a) if a > 1 else pos


# ---------------------------------------------------------------------------------------------------
# static layout


def storage_of(node):
    """Storage integer type name of a bit-field's declared type."""
    if node["k"] == "enum":
        return node["base"]
    if node["k"] == "int":
        return node["t"]
    if node["k"] == "char":
        return "uint8"
    raise ModelReject("bit-field over a non-integer type")


def align_of(node, cfg):
    k = node["k"]
    if k == "int":
        return INT_ALIGN[ALL_INTS[node["t"]][0]]
    if k == "float":
        return FLOATS[node["t"]]
    if k == "char":
        return 1
    if k == "wchar":
        return 2
    if k in ("leb", "void"):
        return 1
    if k == "enum":
        return INT_ALIGN[ALL_INTS[node["base"]][0]]
    if k == "array":
        return align_of(node["elem"], cfg)
    if k == "ptr":
        return INT_ALIGN[ALL_INTS[cfg.ptr][0]]
    if k == "struct":
        return max([align_of(f["t"], cfg) for f in node["fields"]] + [1])
    raise ValueError(k)


def size_of(node, cfg):
    """Encoded size in bytes, None when it depends on the data."""
    k = node["k"]
    if k == "int":
        return ALL_INTS[node["t"]][0]
    if k == "float":
        return FLOATS[node["t"]]
    if k == "char":
        return 1
    if k == "wchar":
        return 2
    if k == "leb":
        return None
    if k == "void":
        return 0
    if k == "enum":
        return ALL_INTS[node["base"]][0]
    if k == "ptr":
        return ALL_INTS[cfg.ptr][0]
    if k == "array":
        if node["len"]["f"] != "fixed":
            return None
        es = size_of(node["elem"], cfg)
        return None if es is None else es * max(0, node["len"]["n"])
    if k == "struct":
        return layout(node, cfg)["size"]
    raise ValueError(k)


def layout(node, cfg):
    """offsets (None after a variable-size member), bit-field unit allocation, size, alignment."""
    ck = "_lay" + cfg.key()
    if ck in node:
        return node[ck]
    fields = node["fields"]
    alignment = max([align_of(f["t"], cfg) for f in fields] + [1])
    offsets, units = [], []
    if node["union"]:
        size = 0
        for f in fields:
            if f.get("bits"):
                raise ModelUnsupported("bit-field directly in a union")
            s = size_of(f["t"], cfg)
            offsets.append(0)
            units.append(None)
            size = None if (s is None or size is None) else max(size, s)
        if size is not None and cfg.align:
            size = roundup(size, alignment)
        res = {"offsets": offsets, "units": units, "size": size, "alignment": alignment}
        node[ck] = res
        return res
    off = 0
    cur = None  # (storage type, bits remaining, unit offset)
    for f in fields:
        if f.get("bits"):
            st = storage_of(f["t"])
            # (char is a storage type of its own: it is read like uint8 but never shares a unit with it)
            ukey = "char" if f["t"]["k"] == "char" else st
            usize = ALL_INTS[st][0]
            total = usize * 8
            if f["bits"] > total:
                raise ModelReject("bit-field wider than its type")
            if cur is None or cur[0] != ukey or cur[1] == 0:
                if off is not None and cfg.align:
                    off = roundup(off, INT_ALIGN[usize])
                cur = [ukey, total, off]
                units.append({"new": True, "st": st, "used": 0})
                offsets.append(off)
                if off is not None:
                    off += usize
            else:
                units.append({"new": False, "st": st, "used": total - cur[1]})
                offsets.append(cur[2])
            if f["bits"] > cur[1]:
                raise ModelReject("straddling bit-field")
            cur[1] -= f["bits"]
            continue
        cur = None
        units.append(None)
        if off is not None and cfg.align:
            off = roundup(off, align_of(f["t"], cfg))
        offsets.append(off)
        if off is not None:
            s = size_of(f["t"], cfg)
            off = None if s is None else off + s
    size = off
    if size is not None and cfg.align:
        size = roundup(size, alignment)
    res = {"offsets": offsets, "units": units, "size": size, "alignment": alignment}
    node[ck] = res
    return res


def strip_cache(obj):
    """Remove memoised layouts (so that ASTs stay JSON-clean in replay files)."""
    if isinstance(obj, dict):
        for k in [k for k in obj if k.startswith("_lay")]:
            del obj[k]
        for v in obj.values():
            strip_cache(v)
    elif isinstance(obj, list):
        for v in obj:
            strip_cache(v)
    return obj


def sizeof_cb(cfg):
    def cb(name):
        from .gen import INT_ALIASES, OTHER_ALIASES

        name = INT_ALIASES.get(name, name)
        name = OTHER_ALIASES.get(name, name)
        if name in ALL_INTS:
            return ALL_INTS[name][0]
        if name in FLOATS:
            return FLOATS[name]
        if name == "char":
            return 1
        if name == "wchar":
            return 2
        if name == "void":
            return 0
        if name in cfg.named:
            s = size_of(cfg.named[name], cfg)
            if s is None:
                raise refexpr.RefNameError(f"sizeof dynamic {name}")
            return s
        raise refexpr.RefNameError(name)

    return cb


def _flatten_ctx(ctx, out):
    """The integer fields read so far, including those folded in from anonymous structure / union members (whose
    values sit under the member's '#i' key)."""
    for k, v in ctx.items():
        if isinstance(k, str) and k.startswith("#") and isinstance(v, dict):
            _flatten_ctx(v, out)
        elif isinstance(v, int) and not isinstance(v, bool) and isinstance(k, str) and not k.startswith("$"):
            out.setdefault(k, v)
    return out


def eval_len(text, ctx, cfg):
    ictx = _flatten_ctx(ctx, {})
    v, flags = refexpr.evaluate(text, ictx, cfg.consts, sizeof_cb(cfg))
    if v is None or "cdiv" in flags:
        raise ModelUnsupported("expression outside the claimed domain")
    return max(0, v)


# ---------------------------------------------------------------------------------------------------
# parse


def _need(buf, pos, n):
    # a zero-size read needs nothing, also when the position lies in padding beyond the end of the input
    if n and pos + n > len(buf):
        raise ModelEOF(f"need {n} at {pos}, have {len(buf)}")


def _int(buf, pos, size, signed, cfg):
    _need(buf, pos, size)
    return int.from_bytes(buf[pos:pos + size], cfg.order, signed=signed)


def _leb(buf, pos, signed):
    result = 0
    shift = 0
    while True:
        _need(buf, pos, 1)
        b = buf[pos]
        pos += 1
        result |= (b & 0x7F) << shift
        shift += 7
        if not b & 0x80:
            break
    if signed and b & 0x40:
        result -= 1 << shift
    return result, pos


def _wdecode(raw, cfg):
    try:
        return bytes(raw).decode("utf-16-be" if cfg.big else "utf-16-le")
    except UnicodeDecodeError as e:
        raise ModelDecodeError(str(e)) from None


def is_zero_elem(node, v):
    """'zero element' that terminates a null-terminated array."""
    k = node["k"]
    if k in ("int", "leb", "enum", "ptr"):
        return v == 0
    if k == "float":
        return v == 0
    if k == "struct":
        # falsy (no field is truthy) or equal to the default value: fixed-size array members of the all-zero
        # element are truthy (b"\0\0", [0, 0]) but it still is the terminator that dumping appends
        return (not any(truthy(f["t"], v[fkey(i, f)], f) for i, f in enumerate(node["fields"]))
                or all(is_default(f["t"], v[fkey(i, f)], f) for i, f in enumerate(node["fields"])))
    raise ModelUnsupported(f"null-terminated array of {k}")


def is_default(node, v, f=None):
    """v is what default construction gives for this node (all zero; variable-length arrays empty)."""
    k = node["k"]
    if f is not None and f.get("bits"):
        return v == 0
    if k in ("int", "leb", "enum", "ptr", "float"):
        return v == 0
    if k == "char":
        return v == b"\x00"
    if k == "wchar":
        return v == "\x00"
    if k == "void":
        return True
    if k == "array":
        elem, ln = node["elem"], node["len"]
        if ln["f"] != "fixed":
            return len(v) == 0
        n = ln["n"]
        if elem["k"] == "char":
            return v == b"\x00" * n
        if elem["k"] == "wchar":
            return v == "\x00" * n
        return len(v) == n and all(is_default(elem, x) for x in v)
    if k == "struct":
        if node["union"]:
            raise ModelUnsupported("default test of a union")
        return all(is_default(ff["t"], v[fkey(i, ff)], ff) for i, ff in enumerate(node["fields"]))
    raise ValueError(k)


def truthy(node, v, f=None):
    k = node["k"]
    if f is not None and f.get("bits"):
        return v != 0
    if k in ("int", "leb", "enum", "ptr", "float"):
        return v != 0
    if k in ("char", "wchar"):
        return len(v) > 0
    if k == "void":
        return False
    if k == "array":
        return len(v) > 0
    if k == "struct":
        return any(truthy(ff["t"], v[fkey(i, ff)], ff) for i, ff in enumerate(node["fields"]))
    raise ValueError(k)


class Notes(set):
    pass


def parse(node, buf, pos, cfg, ctx=None, notes=None):
    """-> (value, end position).  Raises ModelEOF when a data byte is missing."""
    if notes is None:
        notes = Notes()
    k = node["k"]
    if k == "int":
        size, signed = ALL_INTS[node["t"]]
        return _int(buf, pos, size, signed, cfg), pos + size
    if k == "float":
        size = FLOATS[node["t"]]
        _need(buf, pos, size)
        return _st.unpack((">" if cfg.big else "<") + FLOAT_FMT[node["t"]], bytes(buf[pos:pos + size]))[0], pos + size
    if k == "char":
        _need(buf, pos, 1)
        return bytes(buf[pos:pos + 1]), pos + 1
    if k == "wchar":
        _need(buf, pos, 2)
        return _wdecode(buf[pos:pos + 2], cfg), pos + 2
    if k == "leb":
        return _leb(buf, pos, node["t"] == "ileb128")
    if k == "void":
        return None, pos
    if k == "enum":
        size, signed = ALL_INTS[node["base"]]
        return _int(buf, pos, size, signed, cfg), pos + size
    if k == "ptr":
        size, signed = ALL_INTS[cfg.ptr]
        return _int(buf, pos, size, False, cfg), pos + size
    if k == "array":
        return parse_array(node, buf, pos, cfg, ctx or {}, notes)
    if k == "struct":
        return parse_struct(node, buf, pos, cfg, notes)
    raise ValueError(k)


def parse_array(node, buf, pos, cfg, ctx, notes):
    elem = node["elem"]
    ek = elem["k"]
    f = node["len"]["f"]
    if f == "null":
        if ek == "char":
            start = pos
            while True:
                _need(buf, pos, 1)
                if buf[pos] == 0:
                    return bytes(buf[start:pos]), pos + 1
                pos += 1
        if ek == "wchar":
            start = pos
            while True:
                _need(buf, pos, 2)
                if buf[pos] == 0 and buf[pos + 1] == 0:
                    return _wdecode(buf[start:pos], cfg), pos + 2
                pos += 2
        out = []
        while True:
            v, pos = parse(elem, buf, pos, cfg, ctx, notes)
            if is_zero_elem(elem, v):
                return out, pos
            out.append(v)
    if f == "eof":
        es = size_of(elem, cfg)
        if ek in ("char", "wchar"):
            raw = buf[pos:]
            if ek == "wchar":
                if len(raw) % 2:
                    notes.add("eof_partial")
                    raw = raw[:len(raw) - 1]
                return _wdecode(raw, cfg), pos + len(raw)
            return bytes(raw), len(buf)
        out = []
        if es is not None:
            if es == 0:
                return [], pos
            while pos + es <= len(buf):
                v, pos = parse(elem, buf, pos, cfg, ctx, notes)
                out.append(v)
            if pos != len(buf):
                notes.add("eof_partial")
            return out, pos
        while pos < len(buf):
            before = pos
            v, pos = parse(elem, buf, pos, cfg, ctx, notes)
            if pos == before:
                break       # an element without bytes can never take "every remaining whole element": none are taken
            out.append(v)
        return out, pos
    if f == "fixed":
        n = max(0, node["len"]["n"])
    else:
        n = eval_len(node["len"]["text"], ctx, cfg)
    if ek == "char":
        _need(buf, pos, n)
        return bytes(buf[pos:pos + n]), pos + n
    if ek == "wchar":
        _need(buf, pos, 2 * n)
        return _wdecode(buf[pos:pos + 2 * n], cfg), pos + 2 * n
    if n > 100000:
        if notes is not None:
            notes.add("absurd_count")
        raise ModelEOF("absurd element count")
    out = []
    for _ in range(n):
        v, pos = parse(elem, buf, pos, cfg, ctx, notes)
        out.append(v)
    return out, pos


def parse_struct(node, buf, start, cfg, notes):
    lay = layout(node, cfg)
    fields = node["fields"]
    if node["union"]:
        if lay["size"] is None:
            raise ModelUnsupported("dynamic union")
        _need(buf, start, 0)
        # a union reads its whole extent; members are views of it
        sub = bytes(buf[start:start + lay["size"]])
        vals = {}
        short = len(sub) < lay["size"]
        for i, f in enumerate(fields):
            try:
                v, _ = parse(f["t"], sub, 0, cfg, vals, notes)
            except ModelEOF:
                raise
            vals[fkey(i, f)] = v
        if short:
            # every member fitted although the declared extent is not there: only padding is missing
            notes.add("union_short_padding")
            raise ModelEOF("union extent incomplete (padding only)")
        return vals, start + lay["size"]
    pos = start
    vals = {}
    unit_val = unit_rem = unit_total = None
    for i, f in enumerate(fields):
        off = lay["offsets"][i]
        u = lay["units"][i]
        if u is not None:
            size, signed = ALL_INTS[u["st"]]
            if u["new"]:
                if off is not None:
                    pos = start + off
                elif cfg.align:
                    pos = roundup(pos, INT_ALIGN[size])
                unit_val = _int(buf, pos, size, False, cfg)
                pos += size
                unit_total = unit_rem = size * 8
            b = f["bits"]
            if cfg.big:
                v = (unit_val >> (unit_rem - b)) & ((1 << b) - 1)
            else:
                v = (unit_val >> (unit_total - unit_rem)) & ((1 << b) - 1)
            unit_rem -= b
            vals[fkey(i, f)] = v
            continue
        if off is not None:
            pos = start + off
        elif cfg.align:
            pos = roundup(pos, align_of(f["t"], cfg))
        v, pos = parse(f["t"], buf, pos, cfg, vals, notes)
        vals[fkey(i, f)] = v
    if lay["size"] is not None:
        end = start + lay["size"]
        if end > len(buf):
            notes.add("tail_padding_missing")
        pos = end
    elif cfg.align:
        pos = roundup(pos, lay["alignment"])
        if pos > len(buf):
            notes.add("tail_padding_missing")
    return vals, pos


# ---------------------------------------------------------------------------------------------------
# dump (bytes + data-bit mask)


class Writer:
    def __init__(self):
        self.out = bytearray()
        self.mask = bytearray()
        # (start, size, union data mask, mask of the member the library's writer selects) per fixed-size union
        self.unions = []

    def tell(self):
        return len(self.out)

    def pad_to(self, pos):
        n = pos - len(self.out)
        if n > 0:
            self.out += bytes(n)
            self.mask += bytes(n)

    def put(self, data):
        self.out += data
        self.mask += b"\xff" * len(data)

    def put_masked(self, data, mask):
        self.out += data
        self.mask += mask


class ModelValueError(Exception):
    """The value cannot be encoded (does not fit / wrong length): dumping must raise."""


def _enc_int(v, size, signed, cfg):
    try:
        return int(v).to_bytes(size, cfg.order, signed=signed)
    except OverflowError:
        raise ModelValueError(f"{v} does not fit {size} bytes signed={signed}") from None


def enc_leb(v, signed):
    if v < 0 and not signed:
        raise ModelValueError("negative uleb128")
    out = bytearray()
    while True:
        byte = v & 0x7F
        v >>= 7
        if signed:
            done = (v == 0 and not byte & 0x40) or (v == -1 and byte & 0x40)
        else:
            done = v == 0
        if done:
            out.append(byte)
            return bytes(out)
        out.append(byte | 0x80)


def _wenc(s, cfg):
    try:
        return s.encode("utf-16-be" if cfg.big else "utf-16-le")
    except UnicodeEncodeError as e:
        raise ModelValueError(str(e)) from None


def dump(node, v, cfg, w=None, ctx=None):
    top = w is None
    if top:
        w = Writer()
    k = node["k"]
    if k == "int":
        size, signed = ALL_INTS[node["t"]]
        w.put(_enc_int(v, size, signed, cfg))
    elif k == "float":
        try:
            w.put(_st.pack((">" if cfg.big else "<") + FLOAT_FMT[node["t"]], v))
        except (OverflowError, _st.error) as e:
            raise ModelValueError(str(e)) from None
    elif k == "char":
        w.put(bytes(v))
    elif k == "wchar":
        w.put(_wenc(v, cfg))
    elif k == "leb":
        w.put(enc_leb(v, node["t"] == "ileb128"))
    elif k == "void":
        pass
    elif k == "enum":
        size, signed = ALL_INTS[node["base"]]
        w.put(_enc_int(v, size, signed, cfg))
    elif k == "ptr":
        size, _ = ALL_INTS[cfg.ptr]
        w.put(_enc_int(v, size, False, cfg))
    elif k == "array":
        dump_array(node, v, cfg, w, ctx)
    elif k == "struct":
        dump_struct(node, v, cfg, w)
    else:
        raise ValueError(k)
    if top:
        return bytes(w.out), bytes(w.mask)
    return None


def dump_array(node, v, cfg, w, ctx):
    elem = node["elem"]
    ek = elem["k"]
    f = node["len"]["f"]
    if ek == "char":
        w.put(bytes(v))
        if f == "null":
            w.put(b"\x00")
        return
    if ek == "wchar":
        w.put(_wenc(v, cfg))
        if f == "null":
            w.put(b"\x00\x00")
        return
    if f == "fixed" and size_of(node, cfg) is not None and len(v) != max(0, node["len"]["n"]):
        raise ModelValueError("wrong element count for a fixed-size array")
    for e in v:
        dump(elem, e, cfg, w)
    if f == "null":
        dump(elem, default_value(elem, cfg), cfg, w)


def dump_struct(node, v, cfg, w):
    lay = layout(node, cfg)
    fields = node["fields"]
    start = w.tell()
    if node["union"]:
        if lay["size"] is None:
            raise ModelUnsupported("dynamic union")
        size = lay["size"]
        out = bytearray(size)
        mask = bytearray(size)
        member_masks = []
        for i, f in enumerate(fields):
            sw = Writer()
            dump(f["t"], v[fkey(i, f)], cfg, sw)
            for j in range(min(len(sw.out), size)):
                m = sw.mask[j]
                out[j] = (out[j] & ~m & 0xFF) | (sw.out[j] & m)
                mask[j] |= m
            member_masks.append(bytes(sw.mask[:size]).ljust(size, b"\x00"))
            for (s0, n0, um, cm) in sw.unions:
                w.unions.append((start + s0, n0, um, cm))
        sel = lib_union_write_choice(node, cfg)
        w.unions.append((start, size, bytes(mask), member_masks[sel] if sel is not None else bytes(size)))
        w.put_masked(bytes(out), bytes(mask))
        return
    unit = None  # [value, mask, remaining, total, size]
    for i, f in enumerate(fields):
        off = lay["offsets"][i]
        u = lay["units"][i]
        val = v[fkey(i, f)]
        if u is not None:
            size, signed = ALL_INTS[u["st"]]
            if u["new"]:
                flush_unit(unit, w, cfg)
                if off is not None:
                    w.pad_to(start + off)
                elif cfg.align:
                    w.pad_to(roundup(w.tell(), INT_ALIGN[size]))
                unit = [0, 0, size * 8, size * 8, size]
            b = f["bits"]
            if not 0 <= val < (1 << b):
                raise ModelValueError(f"{val} does not fit {b} bits")
            if cfg.big:
                sh = unit[2] - b
            else:
                sh = unit[3] - unit[2]
            unit[0] |= val << sh
            unit[1] |= ((1 << b) - 1) << sh
            unit[2] -= b
            continue
        flush_unit(unit, w, cfg)
        unit = None
        if off is not None:
            w.pad_to(start + off)
        elif cfg.align:
            w.pad_to(roundup(w.tell(), align_of(f["t"], cfg)))
        dump(f["t"], val, cfg, w, v)
    flush_unit(unit, w, cfg)
    if lay["size"] is not None:
        w.pad_to(start + lay["size"])
    elif cfg.align:
        w.pad_to(roundup(w.tell(), lay["alignment"]))


def lib_union_write_choice(node, cfg):
    """Index of the member the library's union writer dumps (used only to classify known finding K1):
    members sorted by size, largest first (stable); anonymous structures are tried last."""
    fields = node["fields"]
    order = sorted(range(len(fields)), key=lambda i: -(size_of(fields[i]["t"], cfg) or 0))
    anon = None
    for i in order:
        f = fields[i]
        if f["t"]["k"] == "struct" and f["name"] is None:
            # of several anonymous structures the largest one (the first in this order) is written (repair 94)
            anon = i if anon is None else anon
            continue
        if (size_of(f["t"], cfg) or 0) > 0:
            return i
        # a zero-size first choice writes nothing; the writer then falls back to the anonymous structure
        return anon if anon is not None else i
    return anon


def k1_bits(w_unions, total):
    """Bit mask (bytes) of bits that are data in some union member but not in the member the library dumps."""
    out = bytearray(total)
    for (s0, n0, um, cm) in w_unions:
        for j in range(n0):
            if s0 + j < total:
                out[s0 + j] |= um[j] & ~cm[j] & 0xFF
    return bytes(out)


def dump_full(node, v, cfg):
    """-> (bytes, mask, k1 bit mask)"""
    w = Writer()
    dump(node, v, cfg, w)
    return bytes(w.out), bytes(w.mask), k1_bits(w.unions, len(w.out))


def flush_unit(unit, w, cfg):
    if unit is None:
        return
    w.put_masked(unit[0].to_bytes(unit[4], cfg.order), unit[1].to_bytes(unit[4], cfg.order))


# ---------------------------------------------------------------------------------------------------
# values


def default_value(node, cfg):
    k = node["k"]
    if k in ("int", "leb", "enum", "ptr"):
        return 0
    if k == "float":
        return 0.0
    if k == "char":
        return b"\x00"
    if k == "wchar":
        return "\x00"
    if k == "void":
        return None
    if k == "array":
        n = node["len"]["n"] if node["len"]["f"] == "fixed" else 0
        ek = node["elem"]["k"]
        if ek == "char":
            return b"\x00" * n
        if ek == "wchar":
            return "\x00" * n
        return [default_value(node["elem"], cfg) for _ in range(max(0, n))]
    if k == "struct":
        return {fkey(i, f): (0 if f.get("bits") else default_value(f["t"], cfg)) for i, f in enumerate(node["fields"])}
    raise ValueError(k)


def rand_int(rng, size, signed, small=False):
    bits = size * 8
    lo, hi = (-(1 << (bits - 1)), (1 << (bits - 1)) - 1) if signed else (0, (1 << bits) - 1)
    if small:
        return rng.choice([0, 1, 1, 2, 2, 3, 4])
    x = rng.random()
    if x < 0.35:
        return rng.choice([lo, hi, 0, 1, hi - 1, lo + 1, -1 if signed else hi, 1 << (bits - 1) if not signed else hi // 2,
                           (hi >> 1) + 1 if not signed else lo // 2])
    if x < 0.55:
        return rng.randint(0, min(hi, 255))
    if x < 0.7:
        # byte-distinct pattern
        raw = bytes(((rng.randrange(1, 255) + 17 * j) & 0xFF) or 1 for j in range(size))
        return int.from_bytes(raw, "little", signed=signed)
    return rng.randint(lo, hi)


FLOAT_POOL = [0.0, 1.0, -1.0, 0.5, -2.5, 3.140625, 65504.0, -65504.0, 1e-5, 2.0 ** -14, 1e10, -1e30, 123456.789,
              float("inf"), float("-inf"), 2.0 ** 100, 7.0]


def rand_float(rng, t, nonzero=False, allow_negzero=False):
    for _ in range(20):
        v = rng.choice(FLOAT_POOL) if rng.random() < 0.7 else rng.uniform(-1000, 1000)
        try:
            v = _st.unpack("<" + FLOAT_FMT[t], _st.pack("<" + FLOAT_FMT[t], v))[0]
        except (OverflowError, _st.error):
            continue
        if nonzero and v == 0:
            continue
        return v
    return 1.0


WCHARS = "AZaz09 éÿĀЖ中￮�☃\u0001\u007f퟿\ufeff\ufffe\uffff"   # incl. the byte-order marks (U+FEFF, U+FFFE) and U+FFFF


def rand_wstr(rng, units, no_nul=True):
    """A str that encodes to exactly `units` UTF-16 code units."""
    out = []
    left = units
    while left > 0:
        if left >= 2 and rng.random() < 0.15:
            out.append(chr(rng.choice([0x10000, 0x1F600, 0x10FFFF, 0x2F800])))
            left -= 2
        else:
            c = rng.choice(WCHARS) if (no_nul or rng.random() < 0.8) else "\x00"
            out.append(c)
            left -= 1
    return "".join(out)


def rand_bytes(rng, n, no_nul=False):
    lo = 1 if no_nul else 0
    mode = rng.random()
    if mode < 0.5:
        return bytes(rng.choice(b"ABCxyz019 _\xff\x80\x7f\x01") for _ in range(n))
    return bytes(rng.randint(lo, 255) or 1 if no_nul else rng.randint(0, 255) for _ in range(n))


def enum_value(rng, node):
    size, signed = ALL_INTS[node["base"]]
    vals = [m[1] for m in node["members"]]
    x = rng.random()
    hi = (1 << (size * 8 - (1 if signed else 0))) - 1
    if x < 0.5:
        return rng.choice(vals)
    if x < 0.6:
        return 0
    if node["flag"]:
        if x < 0.8:
            v = 0
            for m in rng.sample(vals, rng.randint(1, len(vals))):
                v |= m
            return v
        return rng.randint(0, hi)
    if x < 0.75:
        return min(hi, max(vals) + rng.randint(1, 5))
    if x < 0.85:
        return hi
    if signed and x < 0.93:
        return rng.choice([-1, -(hi + 1), -2])
    return rng.randint(0, hi)


def random_value(node, rng, cfg, ctx=None, f=None, nonzero=False, maxlen=4):
    k = node["k"]
    if f is not None and f.get("bits"):
        b = f["bits"]
        top = (1 << b) - 1
        if b <= 3 and f["t"]["k"] == "int":
            return rng.randint(0, top)
        return rng.choice([0, top, 1, 1 << (b - 1), top - 1 if top else 0, rng.randint(0, top), rng.randint(0, top)])
    if k == "int":
        size, signed = ALL_INTS[node["t"]]
        v = rand_int(rng, size, signed, small=bool(f and f.get("len_src")) or False)
        if nonzero and v == 0:
            v = 1
        return v
    if k == "float":
        return rand_float(rng, node["t"], nonzero=nonzero)
    if k == "char":
        return rand_bytes(rng, 1)
    if k == "wchar":
        return rand_wstr(rng, 1, no_nul=False)
    if k == "leb":
        signed = node["t"] == "ileb128"
        x = rng.random()
        if x < 0.4:
            v = rng.choice([0, 1, 63, 64, 127, 128, 129, 8191, 8192, 16383, 16384, 2 ** 32, 2 ** 63, 2 ** 64, 2 ** 70])
        else:
            v = rng.randint(0, 2 ** rng.choice([7, 14, 21, 35, 64, 70]))
        if signed and rng.random() < 0.5:
            v = -v - rng.choice([0, 1])
        if nonzero and v == 0:
            v = 1
        return v
    if k == "void":
        return None
    if k == "enum":
        if f is not None and f.get("len_src") and not f.get("bits"):
            small = [m[1] for m in node["members"] if 0 <= m[1] <= 4] + [0, 1, 2, 3]
            return rng.choice(small)
        v = enum_value(rng, node)
        if nonzero and v == 0:
            v = node["members"][-1][1] or 1
        return v
    if k == "ptr":
        size, _ = ALL_INTS[cfg.ptr]
        v = rng.choice([0, 1, 2, 8, 16, (1 << (size * 8)) - 1, rng.randint(0, (1 << (size * 8)) - 1)])
        return v or 1 if nonzero else v
    if k == "array":
        return random_array(node, rng, cfg, ctx or {}, maxlen)
    if k == "struct":
        return random_struct(node, rng, cfg, nonzero=nonzero, maxlen=maxlen)
    raise ValueError(k)


def random_array(node, rng, cfg, ctx, maxlen):
    elem = node["elem"]
    ek = elem["k"]
    f = node["len"]["f"]
    if f == "fixed":
        n = max(0, node["len"]["n"])
    elif f == "expr":
        n = eval_len(node["len"]["text"], ctx, cfg)
    else:
        n = rng.choice([0, 1, 2, 3, rng.randint(0, maxlen)])
    null = f == "null"
    if ek == "char":
        return rand_bytes(rng, n, no_nul=null)
    if ek == "wchar":
        return rand_wstr(rng, n, no_nul=True if null else rng.random() < 0.7)
    return [random_value(elem, rng, cfg, ctx, nonzero=null, maxlen=maxlen) for _ in range(n)]


def random_struct(node, rng, cfg, nonzero=False, maxlen=4):
    lay = layout(node, cfg)
    fields = node["fields"]
    if node["union"]:
        if lay["size"] is None:
            raise ModelUnsupported("dynamic union")
        vals = None
        for attempt in range(12):
            i = rng.randrange(len(fields))
            f = fields[i]
            v = random_value(f["t"], rng, cfg, maxlen=maxlen)
            raw, _ = dump(f["t"], v, cfg)
            if attempt < 6 and rng.random() < 0.5:
                buf = bytearray(rng.randrange(256) for _ in range(lay["size"]))
            else:
                buf = bytearray(lay["size"])
            buf[:len(raw)] = raw[:lay["size"]]
            try:
                vals, _ = parse_struct(node, bytes(buf), 0, cfg, Notes())
                break
            except (ModelDecodeError, ModelEOF):
                continue
        if vals is None:
            i, f = 0, fields[0]
            buf = bytearray(lay["size"])
            vals, _ = parse_struct(node, bytes(buf), 0, cfg, Notes())
        vals["$via"] = fkey(i, f)
        vals["$buf"] = bytes(buf).hex()
        return vals
    vals = {}
    force = None
    if nonzero and fields:
        # a field that can be forced to a non-zero value (a scalar), so that the element is not a terminator
        scal = [i for i, f in enumerate(fields) if f["t"]["k"] in ("int", "leb", "enum", "ptr", "float")]
        force = rng.choice(scal) if scal else rng.randrange(len(fields))
    for i, f in enumerate(fields):
        vals[fkey(i, f)] = random_value(f["t"], rng, cfg, vals, f=f, nonzero=(force == i), maxlen=maxlen)
        if force == i and f.get("bits") and vals[fkey(i, f)] == 0:
            vals[fkey(i, f)] = 1
    return vals


def clean(v):
    """Drop '$' annotations (for comparison)."""
    if isinstance(v, dict):
        return {k: clean(x) for k, x in v.items() if not k.startswith("$")}
    if isinstance(v, list):
        return [clean(x) for x in v]
    if isinstance(v, float) and math.isnan(v):
        return "nan"
    return v


def has_nan(v):
    if isinstance(v, dict):
        return any(has_nan(x) for x in v.values())
    if isinstance(v, list):
        return any(has_nan(x) for x in v)
    return isinstance(v, float) and math.isnan(v)


def garbage_fill(data: bytes, mask: bytes, rng: random.Random) -> bytes:
    """Fill every bit that is not a data bit (padding, unassigned bit-field bits) with random garbage."""
    out = bytearray(data)
    for i, m in enumerate(mask):
        if m != 0xFF:
            out[i] = (out[i] & m) | (rng.randrange(256) & ~m & 0xFF)
    return bytes(out)


def last_data_byte(mask: bytes) -> int:
    for i in range(len(mask) - 1, -1, -1):
        if mask[i]:
            return i
    return -1
