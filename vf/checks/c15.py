"""C15  Concurrent parsing with shared types is equivalent to sequential parsing (deterministic scheduler)."""
from __future__ import annotations

import io
import itertools
import sys
import threading
import time

from .. import lib, sched


def norm(v):
    """Plain-value image of a parsed object for comparison (definitions are fixed here, so a generic walk is fine
    as long as pointers are never probed)."""
    from dissect.cstruct import Pointer, Structure
    import enum

    v = lib.unwrap(v)
    if isinstance(v, Pointer):
        return ("ptr", int(v))
    if isinstance(v, enum.Enum):
        return ("enum", type(v).__name__, int(v.value))
    if isinstance(v, Structure):
        return {f._name: norm(getattr(v, f._name)) for f in type(v).__fields__}
    if isinstance(v, list):
        return [norm(x) for x in v]
    if isinstance(v, bytes):
        return bytes(v)
    if isinstance(v, str):
        return str.__str__(v)
    if isinstance(v, float):
        return float(v)
    if isinstance(v, int):
        return int(v)
    return repr(v)


# ---------------------------------------------------------------------------------------------------
# workloads: (name, definition, per-thread job factories)


def w_expr(cs):
    T = cs.s

    def job(d):
        def f():
            s = io.BytesIO(d)
            o = T(s)
            return (norm(o), s.tell(), dict(o._sizes))
        return f
    datas = [bytes([1, 1]) + b"abc" + bytes([7, 0]) + b"\x09",
             bytes([2, 1]) + b"hello" + bytes([1, 0, 2, 0]) + b"\x08",
             bytes([0, 2]) + b"xyz" + b"\x05"]
    return [job(d) for d in datas]


def w_bits(cs):
    T = cs.s

    def pjob(d):
        def f():
            s = io.BytesIO(d)
            o = T(s)
            return (norm(o), s.tell(), o.dumps())
        return f

    def djob(a, b, e, r, x):
        def f():
            o = T(a=a, b=b, e=cs.E(e), r=r, x=x)
            d = o.dumps()
            return (d, norm(T(d)))
        return f
    return [pjob(bytes([0xA5, 0x5A, 0x3C, 1, 2, 3, 0x84])), djob(5, 0x1ABC, 2, 9, -77), pjob(bytes([0xFF] * 7))]


def w_union(cs):
    T = cs.s

    def job(d, newval):
        def f():
            s = io.BytesIO(d)
            o = T(s)
            before = norm(o)
            o.u.a = newval
            mid = norm(o)
            o.u.p.hi = 0x1234
            return (before, mid, norm(o), o.dumps(), s.tell())
        return f
    return [job(bytes([1, 2, 3, 4, 5, 6]), 0xAABBCCDD), job(bytes([9, 8, 7, 6, 5, 4]), 0x01020304),
            job(bytes([0, 0, 0, 0, 0, 0]), 0xFFFFFFFF)]


def w_ptr(cs):
    T = cs.s

    def job(d):
        def f():
            s = io.BytesIO(d)
            o = T(s)
            pos = s.tell()
            a = int(o.p.dereference())
            b = bytes(o.str.dereference())
            a2 = int(o.p.dereference())
            st = norm(o.q.dereference())
            return (int(o.p), a, a2, b, st, int(o.n), pos, s.tell())
        return f
    d0 = bytes([20]) + bytes([24]) + bytes([28]) + bytes([5, 0]) + bytes(15) + bytes([0x77]) + bytes(3) + b"hey\x00" + bytes([1, 2, 3, 4])
    d1 = bytes([22]) + bytes([26]) + bytes([30]) + bytes([9, 1]) + bytes(17) + bytes([0x55]) + bytes(3) + b"yo!\x00" + bytes([9, 8, 7, 6])
    d2 = bytes([21]) + bytes([25]) + bytes([29]) + bytes([1, 1]) + bytes(16) + bytes([0x11]) + bytes(3) + b"abc\x00" + bytes([5, 5, 5, 5])
    return [job(d0), job(d1), job(d2)]


def w_nested(cs):
    T = cs.s

    def job(d):
        def f():
            s = io.BytesIO(d)
            o = T(s)
            return (norm(o), s.tell(), o.dumps())
        return f
    d0 = bytes([2, 1, 5, 0, 2, 6, 0, 7, 0]) + "hi".encode("utf-16-le") + b"\x00\x00" + bytes([1, 2, 3, 4])
    d1 = bytes([1, 3, 1, 0, 2, 0, 3, 0]) + "wörld!".encode("utf-16-le") + b"\x00\x00" + bytes([9, 9, 9, 9])
    d2 = bytes([0]) + "".encode("utf-16-le") + b"\x00\x00" + bytes([4, 3, 2, 1])
    return [job(d0), job(d1), job(d2)]


def w_leb(cs):
    T = cs.s

    def pjob(d):
        def f():
            s = io.BytesIO(d)
            o = T(s)
            return (norm(o), s.tell())
        return f

    def djob(a, b, arr):
        def f():
            o = T(a=a, b=b, n=len(arr), arr=arr)
            d = o.dumps()
            return (d, norm(T(d)))
        return f
    return [pjob(bytes([0xE5, 0x8E, 0x26, 0x7F, 2, 1, 0, 0, 0, 2, 0, 0, 0])), djob(300, -129, [7, 8, 9]),
            pjob(bytes([0x01, 0x40, 0]))]


def w_wide(cs):
    T = cs.s

    def job(d):
        def f():
            s = io.BytesIO(d)
            o = T(s)
            return (norm(o), s.tell(), o.dumps() == d[: s.tell()])
        return f
    def mk(n, k, name, m, tail):
        return (bytes([n]) + name.encode("utf-16-le") + b"".join(x.to_bytes(2, "little") for x in m) + bytes([k])
                + bytes(tail) + b"\xEE")
    return [job(mk(2, 1, "hé", [1, 2, 3, 4], [9])), job(mk(3, 3, "abc", [5, 6, 7, 8], [1, 2, 3])),
            job(mk(0, 0, "", [9, 9, 9, 9], []))]


def w_nullstructs(cs):
    T = cs.s

    def job(d):
        def f():
            s = io.BytesIO(d)
            o = T(s)
            return (norm(o), s.tell(), o.dumps())
        return f
    return [job(bytes([1, 2, 3, 4, 0, 0]) + (0xAABBCCDD).to_bytes(4, "little")),
            job(bytes([9, 9, 0, 0]) + (1).to_bytes(4, "little")), job(bytes([0, 0]) + (7).to_bytes(4, "little"))]


def w_enums(cs):
    T = cs.s

    def job(d):
        def f():
            s = io.BytesIO(d)
            o = T(s)
            return (norm(o), s.tell(), o.dumps(), repr(o.f), [repr(x) for x in o.e], o.f == cs.F(d[0]),
                    hash(o.f) == hash(cs.F(d[0])))
        return f
    # unknown / composite values, different per thread, so that pseudo-members are created while threads interleave
    return [job(bytes([0x85, 0x34, 0x12, 0x01, 0x00, 0xB5])), job(bytes([0x4A, 0x02, 0x00, 0xFF, 0xFF, 0x2E])),
            job(bytes([0x07, 0x99, 0x99, 0x02, 0x00, 0xFF]))]


def w_dumpmix(cs):
    T = cs.s

    def pjob(d):
        def f():
            s = io.BytesIO(d)
            o = T(s)
            return (norm(o), s.tell())
        return f

    def djob(a, items, t):
        def f():
            o = T(a=a, n=len(items), items=[cs.it(x=x, y=y) for x, y in items], t=t)
            d = o.dumps()
            return (d, norm(T(d)))
        return f

    def zjob():
        def f():
            o = T()
            o.items.append(cs.it(x=1, y=2))
            return (norm(o), norm(T()), T().dumps())
        return f
    return [pjob(bytes([5, 0, 2, 1, 2, 0, 3, 4, 0, 9])), djob(300, [(1, 2), (3, 4), (5, 6)], 7), zjob()]


def w_exprneg(cs):
    T = cs.s

    def job(d):
        def f():
            s = io.BytesIO(d)
            o = T(s)
            return (norm(o), s.tell(), dict(o._sizes))
        return f
    # a[-(-n)], b[n * -1 + 4], c[~n & 3], d[- -k]
    return [job(bytes([1, 2]) + bytes([7]) + bytes([1, 2, 3]) + bytes([8, 9]) + bytes([5, 6]) + b"\x0a"),
            job(bytes([3, 1]) + bytes([7, 7, 7]) + bytes([1]) + bytes([]) + bytes([4]) + b"\x0b"),
            job(bytes([0, 0]) + bytes([1, 2, 3, 4]) + bytes([9, 9, 9]) + b"\x0c")]


def w_unionwrite(cs):
    T = cs.s
    U = cs.U

    def pjob(d):
        def f():
            s = io.BytesIO(d)
            o = T(s)
            return (norm(o), s.tell(), o.dumps())
        return f

    def djob(value):
        def f():
            u = U(value=value)
            d = u.dumps()
            return (d, norm(U(d)), U(d).dumps())
        return f
    return [djob(0x11223344), pjob(bytes([2, 1, 2, 3, 4, 5, 6, 7, 8, 0, 0, 0, 0, 0x7e])), djob(0xA1B2C3D4)]


def w_longstr(cs):
    T = cs.s

    def job(name, text, crc):
        d = (7).to_bytes(2, "little") + bytes([0x60]) + text + b"\x00" + crc.to_bytes(2, "little")
        d = d + bytes(0x60 - len(d)) + name + b"\x00" + b"trailer"

        def f():
            s = io.BytesIO(d)
            o = T(s)
            pos = s.tell()
            return (norm(o), pos, bytes(o.name.dereference()), s.tell(), o.dumps())
        return f
    # strings of several tens of bytes (longer than any plausible read block), different in every thread
    return [job(b"first-thread-name-" + b"A" * 23, b"the text of the first thread is long " + b"x" * 9, 0x1111),
            job(b"second-name-" + b"B" * 31, b"second thread text, of another length.", 0x2222),
            job(b"third-" + b"C" * 19, b"3rd: " + b"z" * 37, 0x3333)]


def w_grid(cs):
    T = cs.s

    def job(h, w, fill, crc):
        d = bytes([h, w]) + bytes((fill + i) & 0xFF for i in range(h * w)) + crc.to_bytes(2, "little") + bytes([h]) + \
            bytes((fill * 3 + i) & 0xFF for i in range(4 * h)) + b"\xEE"

        def f():
            s = io.BytesIO(d)
            o = T(s)
            return (norm(o), s.tell(), o.dumps() == d[: s.tell()], dict(o._sizes))
        return f
    return [job(2, 3, 0x10, 0xAAAA), job(3, 1, 0x40, 0xBBBB), job(4, 2, 0x80, 0xCCCC)]


def w_lebdump(cs):
    T = cs.s

    def job(a, b, arr):
        def f():
            o = T(a=a, b=b, n=len(arr), arr=arr, c=-b)
            d = o.dumps()
            return (d, norm(T(d)), T.fields["a"].type.dumps(a), T.fields["b"].type.dumps(b))
        return f
    # every thread *writes* variable-length values of several bytes (positive, negative, large)
    return [job(300, -129, [70000, 1 << 40, 64]), job((1 << 63) + 5, -(1 << 35), [128, 16384, (1 << 70) + 1]),
            job(0x4000, -65, [0x7F, 0x80, 0xFFFF])]


def w_anonlen(cs):
    T, O = cs.s, cs.outer

    def job(count, vals, tail):
        d = bytes([0x11, count]) + b"".join(v.to_bytes(2, "little") for v in vals) + bytes([tail]) + b"\xEE" * 4

        def f():
            s = io.BytesIO(d)
            o = T(s)
            s2 = io.BytesIO(bytes([9]) + d)
            p = O(s2)
            return (norm(o), s.tell(), o.dumps() == d[: s.tell()], norm(p), s2.tell())
        return f
    # the length of the array is a field of a preceding anonymous member; a constant of the same name exists
    return [job(3, [10, 11, 12], 0xCC), job(2, [20, 21], 0xDD), job(0, [], 0x01)]


def w_wsurrogate(cs):
    T = cs.s

    def job(ident, name, crc):
        d = bytes([ident]) + name.encode("utf-16-le") + b"\x00\x00" + crc.to_bytes(2, "little") + b"\xEE"

        def f():
            s = io.BytesIO(d)
            o = T(s)
            return (norm(o), s.tell(), o.dumps() == d[: s.tell()])
        return f
    # characters outside the basic plane (two code units each) at the start, in the middle and at the end
    return [job(1, "a\U0001F600z", 0x1111), job(2, "\U00010437hi\U0001F400", 0x2222), job(3, "x\U0001F4A9\U0001F4A9", 0x3333)]


def w_construct(cs):
    T = cs.s

    def job(ident, a, b, c):
        def f():
            m = T(id=ident)
            # changes in place, two levels below the instance, of members that were left at their defaults
            m.h.tags[0] = a
            m.pts[1].x = b
            m.grid[1][0] = c
            m.h.flags = a ^ 0xFF
            n = T()
            return (m.dumps(), norm(m), n.dumps(), T(m.dumps()) == m)
        return f
    return [job(0x0A0A, 0xA1, 0xA2, 0xA3), job(0x0B0B, 0xB1, 0xB2, 0xB3), job(0x0C0C, 0xC1, 0xC2, 0xC3)]


def w_enumunk(cs):
    T = cs.s

    def job(vals, tail):
        d = bytes([len(vals)]) + b"".join(v.to_bytes(2, "little") for v in vals) + bytes([tail]) + b"\xEE"

        def f():
            s = io.BytesIO(d)
            o = T(s)
            return ([int(x) for x in o.v], [repr(x) for x in o.v], int(o.t), s.tell(), o.dumps() == d[: s.tell()])
        return f
    # values that are no members: one thread meets a dozen of them twice each, the others meet many different ones
    # (whatever is remembered per unknown value -- by value, by hash, in a small table -- must not be handed to another
    # thread's value; with 30 + 20 other values any table of up to a few hundred slots sees collisions)
    a = [v for i in range(12) for v in (0x1234 + 7 * i, 0x1234 + 7 * i)]
    b = [0x4000 + 13 * i for i in range(30)]
    c = [0x9000 + 5 * i for i in range(20)]
    return [job(a, 0xA1), job(b, 0xB2), job(c, 0xC3)]


def w_unionbits(cs):
    T = cs.s

    def job(k, raw, level):
        d = bytes([k]) + raw.to_bytes(4, "little") + bytes([k ^ 0xFF]) + b"\xEE"

        def f():
            s = io.BytesIO(d)
            o = T(s)
            d1 = o.dumps()
            before = int(o.attr.level)
            o.attr.level = level
            d2 = o.dumps()
            u = cs.A(level=level)
            return (d1, before, d2, int(o.attr.level), int(o.attr.w), u.dumps(), s.tell())
        return f
    return [job(1, 0x00000ABC, 0x123), job(2, 0xFFFFF555, 0xFFF), job(3, 0x12345678, 0x001)]


WORKLOADS = [
    ("expr", "struct s { uint8 n; uint8 m; char d[(n + m) * 2 - 1]; uint16 v[n]; uint8 z; };", w_expr),
    ("bits", "enum E : uint8 { A, B, C };\nstruct s { uint16 a:3; uint16 b:13; E e:4; uint8 r:4; int32 x; };", w_bits),
    ("union", "struct s { uint8 k; union { uint32 a; struct { uint16 lo; uint16 hi; } p; uint8 b[4]; } u; uint8 t; };",
     w_union),
    ("ptr", "struct tgt { uint16 x; uint16 y; };\nstruct s { uint8 *p; char *str; tgt *q; uint16 n; };", w_ptr),
    ("nested", "struct in { uint8 c; uint16 w[c]; };\nstruct s { uint8 n; in items[n]; wchar name[]; uint32 tail; };",
     w_nested),
    ("leb", "struct s { uleb128 a; ileb128 b; uint8 n; uint32 arr[n]; };", w_leb),
    ("wide", "struct s { uint8 n; wchar name[n]; uint16 m[2][2]; uint8 k; uint8 tail[k & 3]; };", w_wide),
    ("nullstructs", "struct in { uint8 a; uint8 b; };\nstruct s { in items[]; uint32 crc; };", w_nullstructs),
    ("enums", "flag F : uint8 { A, B, C };\nenum E : uint16 { X = 1, Y };\nstruct s { F f; E e[2]; F g : 3; uint8 r : 5; };",
     w_enums),
    ("dumpmix", "struct it { uint8 x; uint16 y; };\nstruct s { uint16 a; uint8 n; it items[n]; uint8 t; };", w_dumpmix),
    # unary operators in lengths (the evaluator rewrites its token list for them)
    ("exprneg", "struct s { uint8 n; uint8 k; uint8 a[-(-n)]; uint8 b[n * -1 + 4]; uint8 c[~n & 3]; uint8 d[- -k]; uint8 z; };",
     w_exprneg),
    # NUL-terminated strings much longer than a read block, in place and behind a pointer
    ("longstr", "struct s { uint16 id; char *name; char text[]; uint16 crc; };", w_longstr),
    # multi-dimensional arrays whose inner dimension is computed at run time (several rows share one inner array type)
    ("grid", "struct s { uint8 h; uint8 w; uint8 cells[h][w]; uint16 crc; uint8 k; uint16 pairs[k][2]; uint8 t; };", w_grid),
    # a union whose first member is not its largest: written directly and compared with its terminator while parsing
    ("unionwrite", "union U { uint8 tag; uint32 value; uint16 half[2]; };\nstruct s { uint8 n; U items[]; uint8 tail; };",
     w_unionwrite),
    # several threads write LEB128 values of more than one byte
    ("lebdump", "struct s { uleb128 a; ileb128 b; uint8 n; uleb128 arr[n]; ileb128 c; };", w_lebdump),
    # an array sized by a field of a preceding anonymous member (the reader folds those names into its context), next
    # to a constant of the same name; also nested one level down
    ("anonlen", "#define count 1\nstruct s { uint8 kind; struct { uint8 count; }; uint16 values[count]; uint8 tail; };\n"
                "struct outer { uint8 h; s inner; };", w_anonlen),
    # NUL-terminated wide strings with characters of two code units (a decoder fed unit by unit holds state in between)
    ("wsurrogate", "struct s { uint8 id; wchar name[]; uint16 crc; };", w_wsurrogate),
    # instances that are constructed, not parsed: members left at their defaults are changed in place below the top level
    ("construct", "struct hdr { uint8 flags; uint8 tags[3]; };\nstruct pt { uint8 x; uint16 y; };\n"
                  "struct s { uint16 id; hdr h; pt pts[2]; uint8 grid[2][2]; uint8 t; };", w_construct),
    # enum values that are no members (an object is made for each: nothing remembered for one value may reach another)
    ("enumunk", "enum K : uint16 { A = 1, B = 2 };\nstruct s { uint8 n; K v[n]; uint8 t; };", w_enumunk),
    # a union whose written member is a bit-field on its widest storage type: dumped and assigned to by every thread
    ("unionbits", "union A { uint32 level : 12; uint16 w; };\nstruct s { uint8 k; A attr; uint8 t; };", w_unionbits),
]


def build(name, text, factory, compiled):
    ptr = "uint8" if name in ("ptr", "longstr") else None
    cs = lib.load(text, "<", False, compiled, ptr)
    return cs, factory(cs)


def run_schedule(jobs, switches, first, nthreads):
    s = sched.Scheduler(nthreads, switches, first=first)
    res = s.run(jobs[:nthreads])
    return s, res


def judge(ctx, wname, compiled, jobs, seq, switches, first, nthreads, label, cold=False):
    s, res = run_schedule(jobs, switches, first, nthreads)
    ctx.evaluation((wname, compiled, tuple(sorted(switches)), first, nthreads, cold))
    ctx.event(f"schedules:{label}")
    for sp in s.switch_points:
        ctx.extra.setdefault("switch_points", set()).add(sp[1:])
    if s.blocked:
        ctx.note_inconclusive(f"a thread did not reach a yield point in time ({wname})")
        return False
    got = [r[1] if r[0] == "ok" else r for r in res]
    if got != seq[:nthreads]:
        bad = [i for i in range(nthreads) if got[i] != seq[i]]
        where = s.switch_points[:4]
        ctx.violation("schedule", "thread-result-differs-from-sequential-result",
                      {"workload": wname, "compiled": compiled, "switches": sorted(switches), "first": first,
                       "threads": nthreads, "cold": cold, "differing_threads": bad, "switch_points": where,
                       "got": repr([got[i] for i in bad])[:500], "want": repr([seq[i] for i in bad])[:500]})
        return False
    return True


def run(ctx):
    fine = ctx.thorough
    sched.start(fine=fine)
    ctx.extra["switch_points"] = set()
    try:
        jobs_list = [(w, c) for w in WORKLOADS for c in (True, False)]
        per_workload = {}
        for wi, ((wname, text, factory), compiled) in enumerate(jobs_list):
            cs, jobs = build(wname, text, factory, compiled)
            seq = [j() for j in jobs]  # sequential reference (no scheduler active)
            # ... which is what each job gives on its own, on types nothing else has used (a thread's result must not
            # depend on the threads that ran before it either)
            solo = []
            for ji in range(len(jobs)):
                _cs1, jobs1 = build(wname, text, factory, compiled)
                solo.append(jobs1[ji]())
            ctx.evaluation((wname, compiled, "solo-reference"))
            if solo != seq:
                bad = [i for i in range(len(seq)) if solo[i] != seq[i]]
                ctx.violation("schedule", "result-of-a-job-depends-on-the-jobs-that-ran-before-it",
                              {"workload": wname, "compiled": compiled, "differing_threads": bad, "switches": [], "first": 0,
                               "threads": len(jobs), "got": repr([seq[i] for i in bad])[:500],
                               "want": repr([solo[i] for i in bad])[:500]})
                continue
            # number of yield points of the serial two-thread run
            s0, res0 = run_schedule(jobs, (), 0, 2)
            if [r[1] if r[0] == "ok" else r for r in res0] != seq[:2]:
                ctx.violation("schedule", "serial-run-under-the-scheduler-differs",
                              {"workload": wname, "compiled": compiled})
                continue
            n_steps = s0.step
            per_workload[f"{wname}:{'compiled' if compiled else 'interpreted'}"] = n_steps
            ctx.cell(f"workload:{wname}:{'compiled' if compiled else 'interpreted'}")
            # ALL single-preemption schedules (both starting threads), split over the shards
            singles = [(p, first) for first in (0, 1) for p in range(1, n_steps + 1)]
            for p, first in singles[ctx.shard::ctx.nshards]:
                judge(ctx, wname, compiled, jobs, seq, {p}, first, 2, "one-preemption")
            # the same on *cold* types: a fresh cstruct object per schedule, so that whatever the library sets up
            # lazily on first use (caches on classes, generated code, pseudo-members) is set up while the threads
            # interleave.  Every single-preemption schedule in thorough, every third one in quick.
            csc, jobsc = build(wname, text, factory, compiled)
            sc, resc = run_schedule(jobsc, (), 0, 2)
            cold_steps = sc.step
            per_workload[f"{wname}:{'compiled' if compiled else 'interpreted'}:cold"] = cold_steps
            cold = [(p, first) for first in (0, 1) for p in range(1, cold_steps + 1)]
            if not ctx.thorough:
                cold = cold[(wi % 3)::3]
            for p, first in cold[ctx.shard::ctx.nshards]:
                if ctx.out_of_time():
                    ctx.note_inconclusive("cold single-preemption enumeration stopped by the shard budget")
                    break
                csc, jobsc = build(wname, text, factory, compiled)
                judge(ctx, wname, compiled, jobsc, seq, {p}, first, 2, "one-preemption-cold", cold=True)
            # random multi-preemption schedules with 2 and 3 threads
            rng = ctx.rng("multi", wname, compiled)
            n_multi = (12 if not ctx.thorough else 400)
            s3, _ = run_schedule(jobs, (), 0, 3)
            for i in range(n_multi):
                if ctx.out_of_time():
                    break
                nt = 2 if i % 2 == 0 else 3
                total = n_steps if nt == 2 else s3.step
                k = rng.randint(2, 6)
                sw = set(rng.sample(range(1, total + 1), min(k, total)))
                judge(ctx, wname, compiled, jobs, seq, sw, rng.randrange(nt), nt, f"multi-preemption-{nt}threads")
            # thorough: all two-preemption schedules of the small workloads, split over the shards
            if ctx.thorough and n_steps <= 260:
                pairs = list(itertools.combinations(range(1, n_steps + 1), 2))
                for a, b in pairs[ctx.shard::ctx.nshards]:
                    if ctx.out_of_time():
                        ctx.note_inconclusive("two-preemption enumeration stopped by the shard budget")
                        break
                    judge(ctx, wname, compiled, jobs, seq, {a, b}, 0, 2, "two-preemption")
        ctx.extra["yield_points_per_workload"] = per_workload if ctx.shard == 0 else {}
        ctx.sample({"workload": WORKLOADS[0][0], "definition": WORKLOADS[0][1],
                    "schedule": "thread 0 preempted at yield point p, thread 1 runs to completion, thread 0 resumes",
                    "yield_points": per_workload})
    finally:
        sched.stop()
    ctx.extra["switch_points"] = sorted(ctx.extra["switch_points"])[:300]
    ctx.extra["distinct_switch_points"] = len(ctx.extra["switch_points"])
    # free-running stress as a sanity complement (no controlled schedule)
    if ctx.shard == 0:
        stress(ctx)


def stress(ctx):
    old = sys.getswitchinterval()
    sys.setswitchinterval(1e-6)
    try:
        for (wname, text, factory), compiled in [(w, c) for w in WORKLOADS for c in (True, False)]:
            cs, jobs = build(wname, text, factory, compiled)
            seq = [j() for j in jobs]
            bad = []
            stop = time.time() + (0.15 if not ctx.thorough else 2.0)

            def worker(i):
                while time.time() < stop and not bad:
                    try:
                        r = jobs[i]()
                    except Exception as e:  # noqa: BLE001
                        bad.append((i, repr(e)))
                        return
                    if r != seq[i]:
                        bad.append((i, repr(r)[:200]))
                        return
            ts = [threading.Thread(target=worker, args=(i,)) for i in range(3)]
            for t in ts:
                t.start()
            for t in ts:
                t.join(30)
            ctx.evaluation(("stress", wname, compiled))
            ctx.event("stress_runs")
            if bad:
                ctx.violation("stress", "free-running-threads-disagree-with-sequential-result",
                              {"workload": wname, "compiled": compiled, "first": bad[0]})
    finally:
        sys.setswitchinterval(old)


def replay(ctx, detail):
    print("record:", detail)
    if "switches" not in detail:
        stress(ctx)
        return
    w = [x for x in WORKLOADS if x[0] == detail["workload"]][0]
    sched.start(fine=False)
    try:
        cs, jobs = build(w[0], w[1], w[2], detail["compiled"])
        seq = [j() for j in jobs]
        if detail.get("cold"):
            cs, jobs = build(w[0], w[1], w[2], detail["compiled"])
        print("sequential:", seq[:detail["threads"]])
        s, res = run_schedule(jobs, set(detail["switches"]), detail["first"], detail["threads"])
        print("scheduled :", res)
        print("switch points:", s.switch_points)
        judge(ctx, w[0], detail["compiled"], jobs, seq, set(detail["switches"]), detail["first"], detail["threads"],
              "replay", cold=bool(detail.get("cold")))
    finally:
        sched.stop()
