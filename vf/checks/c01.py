"""C01  Value round-trip: parsing dumps(v) yields v and consumes len(dumps(v)); overflowing integers are rejected."""
from __future__ import annotations

import copy

from .. import engine, gen, lib, model
from ..engine import case_detail, outcome
from ..gen import ALL_INTS

N_CASES = {"quick": 90, "thorough": 1300}


def gen_opts(rng, thorough):
    o = dict(dyn_unions=False)
    if thorough:
        o.update(max_fields=rng.choice([6, 9, 12]), max_depth=3, max_len=rng.choice([4, 9]))
        x = rng.random()
        if x < 0.08:
            o.update(max_fields=40, max_depth=1)        # wide structures (two-digit counts in struct formats)
        elif x < 0.16:
            o.update(max_len=300, max_depth=1, max_fields=5)   # long arrays (block sizes beyond 256 bytes)
    elif rng.random() < 0.04:
        o.update(max_fields=30, max_depth=1)
    return o


def diagnose_roundtrip(case, cfgd, cfg, T, v_norm, d, r2):
    """Why did T(d) not reproduce v?  Returns a mechanism signature (known finding ids only when fully explained)."""
    top = case["top"]
    try:
        dm, mask, k1 = model.dump_full(top, v_norm, cfg)
    except Exception:  # noqa: BLE001
        return "roundtrip-mismatch"
    # what does the reference model read from the library's own dump?
    exp = engine.expected_parse(case, cfg, d)
    lib_ok = r2[0] == "ok"
    consistent = False
    if lib_ok and exp[0] == "ok":
        n2, _ = engine.norm_or_err(r2[1], top)
        consistent = n2 == lib.nan_clean(model.clean(exp[1])) and r2[2] == exp[2]
    elif not lib_ok and exp[0] in ("eof", "decode"):
        consistent = True
    elif not lib_ok and exp[0] == "ok" and "eof_partial" in exp[3]:
        consistent = True
    elif exp[0] == "unsupported":
        # the model cannot read this input (e.g. % with a negative operand in a length): the bitwise criterion
        # below has to decide on its own
        consistent = lib_ok
    if not consistent:
        return "roundtrip-mismatch"
    if len(d) == len(dm):
        diffs = engine.bits_differ(d, dm, bytes([0xFF]) * len(d))
        if engine.k1_explains(diffs, d, k1):
            return "K1:union-dump-first-largest-member"
    if cfgd["align"] and gen.has_eof(top) and len(mask) > model.last_data_byte(mask) + 1 and d == dm:
        return "K7:aligned-eof-array-reads-tail-padding"
    return "roundtrip-mismatch"


def roundtrip(ctx, case, cfgd, cfg, T, obj, origin, expect=None, inp=None):
    """obj is a library value; dump it, parse the dump, compare."""
    top = case["top"]
    try:
        v1 = lib.norm(obj, top, strict=origin not in ("constructed", "default"))
    except lib.NormError as e:
        ctx.violation("norm", "unexpected-value-kind", case_detail(case, cfg=cfgd, error=str(e), origin=origin))
        return
    key = (case["text"], tuple(sorted(cfgd.items())), repr(lib.nan_clean(v1)))
    if model.has_nan(v1) and gen.has_union(top):
        # a NaN's payload is not part of its value; seen through another union member it would be
        ctx.event("skipped:nan-in-union")
        return
    ctx.evaluation(key)

    def viol(kind, sig, **kw):
        ctx.violation(kind, sig, case_detail(case, cfg=cfgd, origin=origin, value=lib.nan_clean(v1),
                                             data=inp if inp is not None else b"", **kw))

    try:
        d = obj.dumps()
    except Exception as e:  # noqa: BLE001
        viol("dump-raises", f"dumps-raises:{type(e).__name__}", error=lib.exc_sig(e))
        return
    r2 = outcome(T, d)
    ctx.event(f"roundtrips:{origin}")
    bad = None
    if r2[0] == "err":
        bad = ("reparse-raises", lib.exc_sig(r2[1]))
    else:
        v2, e2 = engine.norm_or_err(r2[1], top)
        if e2:
            bad = ("norm", e2)
        elif v2 != lib.nan_clean(v1):
            bad = ("value", v2)
        elif r2[2] != len(d):
            bad = ("consumed", r2[2])
    if expect is not None and bad is None and lib.nan_clean(v1) != expect:
        viol("construct", "constructed-value-differs-from-requested", expected=expect)
        return
    if bad is None:
        # the library's own notion of equality must agree (the normalised comparison above does not tell an integer
        # from a one-byte string in a bit-field, for instance)
        if not model.has_nan(v1):
            try:
                same = r2[1] == obj
            except Exception as e:  # noqa: BLE001
                same = lib.exc_sig(e)
            ctx.event("library_equality_compared")
            if same is not True:
                viol("equality", "reparsed-value-is-not-equal-to-the-dumped-one", dump=d, got=repr(same))
        return
    sig = diagnose_roundtrip(case, cfgd, cfg, T, v1, d, r2)
    viol(bad[0], sig, dump=d, got=bad[1])


# -- overflow -------------------------------------------------------------------------------------------


def int_leaves(node, v, path=()):
    """Yield (path, width_bits, signed) for every integer-like leaf of value v (not below unions)."""
    k = node["k"]
    if k == "int":
        size, signed = ALL_INTS[node["t"]]
        yield path, size * 8, signed, node
    elif k == "enum":
        size, signed = ALL_INTS[node["base"]]
        yield path, size * 8, signed, node
    elif k == "ptr":
        yield path, None, False, node
    elif k == "leb" and node["t"] == "uleb128":
        # not fixed-width, but unsigned: a negative number has no encoding and must not be written as something else
        yield path, "uleb", False, node
    elif k == "array":
        if node["elem"]["k"] in ("char", "wchar"):
            return
        for j, e in enumerate(v):
            yield from int_leaves(node["elem"], e, path + (j,))
    elif k == "struct" and not node["union"]:
        for i, f in enumerate(node["fields"]):
            if f.get("bits"):
                # a bit-field is an integer field of f["bits"] bits (values are unsigned): what does not fit must be
                # rejected too, it would end up in the neighbouring fields
                yield path + (model.fkey(i, f),), f["bits"], False, {"k": "bitfield", "enum": f["t"]["k"] == "enum"}
                continue
            yield from int_leaves(f["t"], v[model.fkey(i, f)], path + (model.fkey(i, f),))


def set_path(v, path, x):
    for p in path[:-1]:
        v = v[p]
    v[path[-1]] = x


def overflow(ctx, case, cfgd, cfg, T, v, rng):
    top = case["top"]
    leaves = list(int_leaves(top, v))
    if not leaves:
        return
    for path, bits, signed, leaf in rng.sample(leaves, min(len(leaves), 3 if not ctx.thorough else 6)):
        if bits is None:
            bits = ALL_INTS[cfgd["ptr"]][0] * 8
        if bits == "uleb":
            cands = [-1, -2, -64, -128, -(1 << 70)]
        elif signed:
            cands = [1 << (bits - 1), -(1 << (bits - 1)) - 1, 1 << bits]
        else:
            cands = [1 << bits, -1, (1 << bits) + 5]
        if leaf["k"] == "bitfield" and leaf["enum"]:
            cands = [1 << bits, (1 << bits) + 5]   # (a Flag instance cannot hold a negative number)
        bad = rng.choice(cands)
        v2 = copy.deepcopy(v)
        set_path(v2, path, bad)
        ctx.evaluation((case["text"], tuple(sorted(cfgd.items())), "overflow", repr(path), bad))
        ctx.event("overflow_attempts")
        members = rng.random() < 0.5
        if leaf["k"] == "enum" and leaf["flag"] and bad < 0:
            # a Flag *instance* cannot hold a negative number (IntFlag folds it on construction, before any
            # writing happens), so the out-of-range integer is handed over as a plain int
            members = "raw"
        ctx.cell(f"overflow:{leaf['k']}")
        try:
            obj = lib.build(T, top, v2, enum_members=members)
            d = obj.dumps()
        except Exception:  # noqa: BLE001
            ctx.event("overflow_rejected")
            continue
        ctx.violation("overflow", "silent-truncation-or-wrap",
                      case_detail(case, cfg=cfgd, path=list(path), bad_value=bad, dump=d))


def check_case(ctx, case, rng):
    top = case["top"]
    for cfgd in engine.std_configs(rng, ctx.thorough, top):
        cs, err = engine.load_cfg(ctx, case, cfgd)
        cfg = engine.mcfg(case, cfgd["endian"], cfgd["align"], cfgd["ptr"])
        if cs is None:
            try:
                model.layout(top, cfg)
                ctx.violation("load", f"load-fails:{type(err).__name__}", case_detail(case, cfg=cfgd, error=repr(err)))
            except model.ModelReject:
                ctx.event("rejected_by_both")
            continue
        T = cs.T
        ctx.cell(f"align:{cfgd['align']}", f"endian:{cfgd['endian']}", f"compiled:{bool(T.__compiled__)}")
        # (a) values obtained by parsing hostile bytes
        inputs = []
        try:
            for _ in range(2):
                inputs.append(engine.model_input(case, cfg, rng, maxlen=4 if not ctx.thorough else 9)[0])
        except model.ModelUnsupported:
            ctx.event("model_unsupported")
        for mode in rng.sample(range(4), 2):
            inputs.append(gen.arbitrary_bytes(rng, rng.randint(0, 40) + 64, mode))
        for inp in inputs:
            r = outcome(T, inp)
            if r[0] == "ok":
                roundtrip(ctx, case, cfgd, cfg, T, r[1], "parsed", inp=inp)
            else:
                ctx.event("parse_error")
        # (b') the default-constructed value
        # (the default of an array sized by an expression is empty, which is a value only if the expression is 0
        # over the other defaults: judged when the model's own round trip of the default value closes)
        try:
            dv = model.default_value(top, cfg)
            db, _m = model.dump(top, dv, cfg)
            pv, pend = model.parse(top, db, 0, cfg)
            closes = pend == len(db) and lib.nan_clean(model.clean(pv)) == lib.nan_clean(model.clean(dv))
        except Exception:  # noqa: BLE001
            closes = False
        if closes:
            try:
                roundtrip(ctx, case, cfgd, cfg, T, T(), "default", expect=lib.nan_clean(model.clean(dv)) if not gen.has_union(top) else None)
            except NotImplementedError:
                ctx.event("default_of_dynamic_union_refused")
        else:
            ctx.event("default_value_not_self_consistent")
        # (b) values constructed directly, (c) overflow
        for _ in range(2):
            try:
                v = model.random_value(top, rng, cfg, maxlen=4)
            except model.ModelUnsupported:
                break
            try:
                obj = lib.build(T, top, v, enum_members=rng.random() < 0.7)
            except Exception as e:  # noqa: BLE001
                if isinstance(e, UnicodeDecodeError) and gen.has_union(top):
                    # building a union from one member left a wchar member of it undecodable: not a value
                    ctx.event("skipped:constructed-union-with-undecodable-wchar-member")
                    continue
                ctx.violation("construct", f"construction-raises:{type(e).__name__}",
                              case_detail(case, cfg=cfgd, value=model.clean(v), error=lib.exc_sig(e)))
                continue
            expect = lib.nan_clean(model.clean(v)) if not gen.has_union(top) else None
            roundtrip(ctx, case, cfgd, cfg, T, obj, "constructed", expect=expect)
            overflow(ctx, case, cfgd, cfg, T, v, rng)
        # (d) the same, used, types after the byte order was switched on the loaded object: whatever was written
        # before must not have fixed the order of later writes (writer and reader must follow the switch together)
        switched_roundtrip(ctx, case, cfgd, cs, rng)


def switched_roundtrip(ctx, case, cfgd, cs, rng):
    top, T = case["top"], cs.T
    other = ">" if cfgd["endian"] == "<" else "<"
    cs.endian = other
    cd = dict(cfgd, endian=other, switched_from=cfgd["endian"])
    cfg2 = engine.mcfg(case, other, cfgd["align"], cfgd["ptr"])
    ctx.cell("endian-switched-after-use")
    try:
        v = model.random_value(top, rng, cfg2, maxlen=4)
        obj = lib.build(T, top, v, enum_members=True)
    except Exception:  # noqa: BLE001
        obj = None
    if obj is not None:
        roundtrip(ctx, case, cd, cfg2, T, obj, "constructed")
    inp = gen.arbitrary_bytes(rng, rng.randint(0, 40) + 64, rng.randrange(4))
    r = outcome(T, inp)
    if r[0] == "ok":
        roundtrip(ctx, case, cd, cfg2, T, r[1], "parsed", inp=inp)


def explicit_offsets(ctx, n, pinned=None):
    """Structures built through the API whose members sit at explicit forward offsets (packed and aligned; alone, as a
    nested member and as array elements): a constructed value is dumped and parsed back."""
    from dissect.cstruct import Field

    sizes = {"uint8": 1, "uint16": 2, "uint32": 4, "uint64": 8, "int24": 3, "int16": 2}
    for it in range(n):
        rng = ctx.rng("explicit-offsets", it)
        if pinned is not None:
            spec, endian, align, compiled = [tuple(x) for x in pinned["fields"]], pinned["endian"], pinned["align"], pinned["compiled"]
        else:
            endian, align, compiled = rng.choice("<>"), rng.random() < 0.3, rng.random() < 0.5
            spec, off = [], 0
            for j in range(rng.randint(2, 5)):
                t = rng.choice(list(sizes))
                al = {3: 4}.get(sizes[t], sizes[t]) if align else 1
                explicit = None
                if j and rng.random() < 0.6:
                    # in aligned mode an explicit offset is one the member could have (a multiple of its alignment):
                    # others are moved by the layout and would overlap what follows
                    off = -(-(off + rng.choice([1, 2, 3, 5, 8])) // al) * al
                    explicit = off
                else:
                    off = -(-off // al) * al
                spec.append((f"f{j}", t, explicit))
                off += sizes[t]
        det = {"fields": spec, "endian": endian, "align": align, "compiled": compiled, "workload": "explicit-offsets"}
        ctx.evaluation(("explicit-offsets", repr(spec), endian, align, compiled))
        ctx.cell("explicit-forward-offsets")
        try:
            cs = lib.cstruct(endian=endian)
            T = cs._make_struct("T", [Field(nm, getattr(cs, t), offset=ex) for nm, t, ex in spec], align=align)
            O = cs._make_struct("O", [Field("h", cs.uint8), Field("t", T), Field("a", T[2]), Field("z", cs.uint16)], align=align)
            if compiled:
                from dissect.cstruct import compiler

                T, O = compiler.compile(T), compiler.compile(O)

            def val():
                kw = {}
                for nm, t, _ex in spec:
                    bits = sizes[t] * 8
                    kw[nm] = rng.randrange(-(1 << (bits - 1)), 1 << (bits - 1)) if t.startswith("int") else rng.randrange(1, 1 << bits)
                return kw

            problems = []
            k1, k2, k3 = val(), val(), val()
            v = T(**k1)
            d = v.dumps()
            r = outcome(T, d)
            if r[0] != "ok" or r[2] != len(d) or any(getattr(r[1], nm) != k1[nm] for nm in k1):
                problems.append(("alone", d.hex(), repr(r[1]), r[2]))
            o = O(h=7, t=T(**k1), a=[T(**k2), T(**k3)], z=0x1234)
            d = o.dumps()
            r = outcome(O, d)
            if r[0] != "ok" or r[2] != len(d):
                problems.append(("nested", d.hex(), repr(r[1]), r[2]))
            else:
                q = r[1]
                got = [q.h, q.z] + [getattr(x, nm) for x, k in ((q.t, k1), (q.a[0], k2), (q.a[1], k3)) for nm in k]
                want = [7, 0x1234] + [k[nm] for k in (k1, k2, k3) for nm in k]
                if got != want:
                    problems.append(("nested-values", d.hex(), got, want))
        except Exception as e:  # noqa: BLE001
            ctx.violation("explicit-offsets", f"explicit-offsets:round-trip-raises:{type(e).__name__}", dict(det, error=lib.exc_sig(e)))
            continue
        if problems:
            ctx.violation("explicit-offsets", "explicit-offsets:roundtrip-mismatch", dict(det, problems=repr(problems)))
        else:
            ctx.event("explicit_offset_roundtrips")


def witnesses(ctx):
    """Pinned witnesses of the open findings K1 and K7, judged by the same oracle as everything else."""
    import random

    from ..gen import F, L_EOF, N_array, N_int, N_struct

    rng = random.Random(0)
    u = N_struct([F(None, N_struct([F("a", N_int("uint32")), F("b", N_int("uint32"))])), F("c", N_int("uint8"))],
                 union=True)
    k1 = gen.simple_case([F("u", u)])
    k1["named"] = {}
    cfgd = {"endian": "<", "align": False, "compiled": False, "ptr": "uint64"}
    cfg = engine.mcfg(k1, "<", False)
    cs, _ = engine.load_cfg(ctx, k1, cfgd)
    inp = bytes([1, 2, 3, 4, 5, 6, 7, 8])
    roundtrip(ctx, k1, cfgd, cfg, cs.T, cs.T(inp), "parsed", inp=inp)
    k7 = gen.simple_case([F("a", N_int("uint32")), F("b", N_array(N_int("uint8"), L_EOF))])
    k7["named"] = {}
    cfgd = {"endian": "<", "align": True, "compiled": False, "ptr": "uint64"}
    cfg = engine.mcfg(k7, "<", True)
    cs, _ = engine.load_cfg(ctx, k7, cfgd)
    roundtrip(ctx, k7, cfgd, cfg, cs.T, cs.T(a=1, b=[1]), "constructed")
    ctx.cell("pinned-witnesses")


def deep_folded_lengths(ctx, rng, n):
    """Array lengths that name a field folded in through two or three levels of anonymous structures (and an
    anonymous union at the innermost level), in one or two dimensions, with and without a constant of the same name:
    the full round trip of random values."""
    for it in range(n):
        try:
            case = gen.deep_folded_case(rng)
        except Exception:  # noqa: BLE001
            ctx.event("deep_folded_case_not_built")
            continue
        ctx.cell("deep-folded-length-source")
        check_case(ctx, case, rng)


def api_histories(ctx):
    """Round trips after the type or the cstruct object was changed through the API:
    (a) a structure that was already written is extended (a single add_field, a batch inside start_update(), both), then a
    value with all members is dumped and parsed back;
    (b) pointer types (a typedef, members, fixed / counted / null-terminated arrays of pointers) made under one pointer
    width keep it after cs.pointer was reassigned: values written are read back, by both readers."""
    import io

    for compiled in (True, False):
        for endian in "<>":
            bo = "little" if endian == "<" else "big"
            for how in ("add_field", "batch", "both"):
                ctx.evaluation(("api-history:extend", compiled, endian, how))
                ctx.cell("written-then-extended")
                det = {"workload": "api-histories", "compiled": compiled, "endian": endian, "how": how}
                try:
                    cs = lib.load("struct T { uint16 a; uint8 b; };", endian, False, compiled)
                    T = cs.T
                    first = (T(a=0x1234, b=2).dumps(), len(T), bytes(T(a=1, b=1)), T(b"\x01\x02\x03").dumps())
                    if how in ("add_field", "both"):
                        T.add_field("c", cs.uint32)
                        T(a=1, b=2, c=3).dumps()
                    if how in ("batch", "both"):
                        with T.start_update():
                            T.add_field("d", cs.uint16)
                            T.add_field("e", cs.char[3])
                    kw = dict(a=0x1234, b=2)
                    want = (0x1234).to_bytes(2, bo) + b"\x02"
                    if how in ("add_field", "both"):
                        kw["c"] = 0xA1B2C3D4
                        want += (0xA1B2C3D4).to_bytes(4, bo)
                    if how in ("batch", "both"):
                        kw.update(d=0xBEEF, e=b"xyz")
                        want += (0xBEEF).to_bytes(2, bo) + b"xyz"
                    v = T(**kw)
                    d = v.dumps()
                    st = io.BytesIO(d + b"\xEE")
                    back = T(st)
                    ok = d == want and back == v and st.tell() == len(d) and all(getattr(back, k) == kw[k] for k in kw) and len(T) == len(want)
                except Exception as e:  # noqa: BLE001
                    ctx.violation("api", f"api-history-raises:{type(e).__name__}", dict(det, error=lib.exc_sig(e)))
                    continue
                if not ok:
                    ctx.violation("api", "roundtrip-mismatch-after-the-structure-was-extended", dict(det, dump=d.hex(), want=want.hex(), first=repr(first)[:200]))
                else:
                    ctx.event("api_histories_checked")
            for w1, w2 in (("uint16", "uint64"), ("uint64", "uint16"), ("uint32", "uint8"), ("uint8", "uint32")):
                ctx.evaluation(("api-history:pointer-width", compiled, endian, w1, w2))
                ctx.cell("pointer-width-switched-after-definition")
                det = {"workload": "api-histories", "compiled": compiled, "endian": endian, "first": w1, "second": w2}
                try:
                    cs = lib.cstruct(endian=endian, pointer=w1)
                    cs.load("typedef char *PSTR;\nstruct T { PSTR s; uint8 *arr[2]; uint8 n; uint16 *dyn[n]; uint32 *z[]; uint8 t; };", compiled=compiled)
                    size = len(getattr(cs, w1))
                    cs.pointer = getattr(cs, w2)
                    hi = (1 << (8 * size)) - 1
                    vals = dict(s=hi, arr=[1, hi - 1], n=2, dyn=[hi - 2, 3], z=[5, hi - 3], t=0x7E)
                    v = cs.T(**vals)
                    d = v.dumps()
                    want = b"".join(x.to_bytes(size, bo) for x in [hi, 1, hi - 1]) + b"\x02" + b"".join(x.to_bytes(size, bo) for x in [hi - 2, 3, 5, hi - 3, 0]) + b"\x7E"
                    st = io.BytesIO(d + b"\xEE" * 9)
                    back = cs.T(st)
                    got = (int(back.s), [int(x) for x in back.arr], int(back.n), [int(x) for x in back.dyn], [int(x) for x in back.z], int(back.t), st.tell())
                    ok = d == want and got == (hi, [1, hi - 1], 2, [hi - 2, 3], [5, hi - 3], 0x7E, len(want))
                    # and a value beyond the width the type was made with is refused, whatever cs.pointer is now
                    try:
                        cs.T(**dict(vals, s=hi + 1)).dumps()
                        ok = False
                    except Exception:  # noqa: BLE001
                        pass
                except Exception as e:  # noqa: BLE001
                    ctx.violation("api", f"api-history-raises:{type(e).__name__}", dict(det, error=lib.exc_sig(e)))
                    continue
                if not ok:
                    ctx.violation("api", "roundtrip-mismatch-after-the-pointer-type-was-switched", dict(det, dump=d.hex(), want=want.hex(), got=repr(got)))
                else:
                    ctx.event("api_histories_checked")


def run(ctx):
    if ctx.shard == 0:
        witnesses(ctx)
    if ctx.shard == 3:
        api_histories(ctx)
    if ctx.shard % 4 == 2:
        explicit_offsets(ctx, 25 if not ctx.thorough else 400)
    if ctx.shard % 4 == 1:
        deep_folded_lengths(ctx, ctx.rng("deep-folded"), 6 if not ctx.thorough else 60)
    for i in range(N_CASES[ctx.tier]):
        if ctx.out_of_time():
            break
        rng = ctx.rng("case", i)
        case = engine.make_case(rng, **gen_opts(rng, ctx.thorough))
        for t in case["feats"]:
            ctx.cell("feat:" + t)
        check_case(ctx, case, rng)
        if i < 2:
            ctx.sample({"text": case["text"], "feats": case["feats"]})


def replay(ctx, detail):
    if detail.get("workload") == "explicit-offsets":
        print(detail)
        explicit_offsets(ctx, 3, pinned=detail)
        return
    if detail.get("workload") == "api-histories":
        print(detail)
        api_histories(ctx)
        return
    case = engine.case_from_detail(detail)
    cfgd = detail["cfg"]
    print("definition:\n" + case["text"])
    print("config:", cfgd)
    cs, err = engine.load_cfg(ctx, case, dict(cfgd, endian=cfgd.get("switched_from", cfgd["endian"])))
    if cs is None:
        print("load error:", repr(err))
        ctx.violation("load", "load-fails", detail)
        return
    cfg = engine.mcfg(case, cfgd["endian"], cfgd["align"], cfgd["ptr"])
    T = cs.T
    if "switched_from" in cfgd:
        # the types were used under the first byte order before it was switched
        for use in (lambda: T().dumps(), lambda: T(bytes(256)).dumps()):
            try:
                use()
            except Exception:  # noqa: BLE001
                pass
        cs.endian = cfgd["endian"]
    if "bad_value" in detail:
        print("overflow case: path", detail["path"], "value", detail["bad_value"], "dump", detail.get("dump"))
        ctx.violation("overflow", "silent-truncation-or-wrap", detail)
        return
    data = engine.unhex(detail.get("data", "hex:"))
    if data:
        r = outcome(T, data)
        print("input :", data.hex())
        print("parsed:", r[0], r[1])
        if r[0] == "ok":
            d = r[1].dumps()
            print("dumps :", d.hex())
            print("reparse:", outcome(T, d)[:2])
            roundtrip(ctx, case, cfgd, cfg, T, r[1], "parsed", inp=data)
    elif detail.get("origin") == "default":
        obj = T()
        print("default value:", obj)
        roundtrip(ctx, case, cfgd, cfg, T, obj, "default", expect=detail.get("expected"))
    else:
        print("constructed value:", detail.get("value"))
        try:
            obj = lib.build(T, case["top"], detail["value"], enum_members=True)
        except Exception as e:  # noqa: BLE001
            print("cannot rebuild the value from the record:", repr(e))
            ctx.violation(detail.get("kind", "value"), "replayed-from-record", detail)
            return
        roundtrip(ctx, case, cfgd, cfg, T, obj, "constructed")
