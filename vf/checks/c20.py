"""C20  Generated type stubs are valid Python naming exactly the loaded definitions."""
from __future__ import annotations

import ast
import keyword
import re

from .. import engine, gen, lib

N_CASES = {"quick": 25, "thorough": 500}


def stub_of(cs):
    from dissect.cstruct.tools.stubgen import generate_cstruct_stub

    return generate_cstruct_stub(cs)


def classify_syntax_error(stub, err):
    line = stub.splitlines()[err.lineno - 1] if err.lineno and err.lineno <= len(stub.splitlines()) else ""
    if re.match(r"^\s*\w+: Literal\[<", line):
        return "K3:anonymous-enum-constant-repr-is-not-a-literal", line
    if re.match(r"^\s*class [^(:]*[\[\]\*][^(:]*\(", line):
        return "K4:typedef-of-array-or-pointer-type-emitted-as-class-name", line
    names = re.findall(r"[A-Za-z_][A-Za-z0-9_]*", line)
    m = re.match(r"^\s*([A-Za-z_][A-Za-z0-9_]*)\s*(:|=)", line)
    if (m and keyword.iskeyword(m.group(1))) or ("def __init__" in line and any(
            keyword.iskeyword(n) for n in re.findall(r"([A-Za-z_][A-Za-z0-9_]*):", line))):
        return "K5:python-keyword-used-as-a-name", line
    return "stub-is-not-valid-python", line


def _tname(t):
    return t if isinstance(t, str) else t.__name__


def user_types(cs):
    """What the user defined: every name the default cstruct object does not have, and every default name that was
    re-bound to something else (add_type(..., replace=True))."""
    empty = lib.cstruct()
    return {n: t for n, t in cs.typedefs.items() if n not in empty.typedefs or _tname(t) != _tname(empty.typedefs[n])}


def hint_base(hint):
    """Innermost type name of a hint like __cs__.Array[cstruct.Foo] / Pointer[...] / cstruct.uint8 / CharArray."""
    h = hint.strip()
    while True:
        m = re.match(r"^(?:\w+\.)*(Array|Pointer)\[(.*)\]$", h)
        if not m:
            break
        h = m.group(2).strip()
    return h.split(".")[-1]


def hint_qualified(hint):
    """Innermost type expression of a hint, qualifier kept: 'cstruct.Foo' / 'Foo' / 'CharArray'."""
    h = hint.strip()
    while True:
        m = re.match(r"^(?:\w+\.)*(Array|Pointer)\[(.*)\]$", h)
        if not m:
            break
        h = m.group(2).strip()
    return h


def expected_base(t):
    from dissect.cstruct import types

    while True:
        if issubclass(t, types.CharArray):
            return "CharArray"
        if issubclass(t, types.WcharArray):
            return "WcharArray"
        if issubclass(t, types.Pointer) or issubclass(t, types.Array):
            t = t.type
            continue
        return t.__name__


def judge(ctx, cs, text, label, detail_extra=None):
    ctx.evaluation((label, text))
    det = {"text": text, "label": label}
    det.update(detail_extra or {})
    try:
        stub = stub_of(cs)
    except Exception as e:  # noqa: BLE001
        sig = f"stub-generation-raises:{type(e).__name__}"
        if isinstance(e, AttributeError) and "'str' object has no attribute '__name__'" in str(e):
            sig = "K6:string-alias-from-add_type-raises-AttributeError"
        ctx.violation("stub", sig, dict(det, error=lib.exc_sig(e)))
        return
    det["stub"] = stub
    # generating is a function of the definitions and the requested names only: the same text again after other stubs
    # were produced from the same object (single structures / enums with their own prefixes, the whole object under
    # another class name), and the other class name consistently throughout
    try:
        from dissect.cstruct import types as _types
        from dissect.cstruct.tools import stubgen as _sg

        for _n, _t in list(user_types(cs).items())[:8]:
            if isinstance(_t, type) and issubclass(_t, _types.Structure):
                _sg.generate_structure_stub(_t)
            elif isinstance(_t, type) and issubclass(_t, (_types.Enum, _types.Flag)):
                _sg.generate_enum_stub(_t)
        other = _sg.generate_cstruct_stub(cs, cls_name="vf_other_cls")
        again = stub_of(cs)
        ctx.event("stub_histories")
        if again != stub:
            ctx.violation("history", "stub-text-depends-on-stubs-generated-before", dict(det, again=again))
            return
        head, _, body_ = stub.partition("\n")
        expected_other = head.replace("class cstruct(", "class vf_other_cls(", 1) + "\n" + body_.replace("cstruct.", "vf_other_cls.")
        if other != expected_other:
            ctx.violation("history", "stub-under-another-class-name-differs-beyond-the-name", dict(det, other=other))
            return
        # the form a stub *file* uses: names the library provides are reached through a module prefix, everywhere (below
        # pointers and arrays too), and nothing else changes
        pref = _sg.generate_cstruct_stub(cs, module_prefix="__cs__.")
        ctx.event("stubs_with_a_module_prefix")
        libnames = r"(?:Pointer|Array|CharArray|WcharArray|Structure|Union|Enum|Flag)"
        bare_in_pref = re.findall(rf"(?<![\w.]){libnames}(?=[\[\)\s|,\]])", pref)
        if pref.replace("__cs__.", "") != stub or (bare_in_pref and not any(n in user_types(cs) for n in bare_in_pref)):
            ctx.violation("prefix", "module-prefix-not-applied-to-every-library-name", dict(det, prefixed=pref, bare=bare_in_pref[:5]))
            return
    except Exception as e:  # noqa: BLE001
        ctx.violation("history", f"repeated-stub-generation-raises:{type(e).__name__}", dict(det, error=lib.exc_sig(e)))
        return
    try:
        tree = ast.parse(stub)
    except SyntaxError as e:
        sig, line = classify_syntax_error(stub, e)
        ctx.violation("syntax", sig, dict(det, line=line, error=str(e)))
        return
    try:
        # (ast.parse accepts some texts the compiler rejects, e.g. duplicate argument names)
        compile(stub, "<stub>", "exec", dont_inherit=True)
    except SyntaxError as e:
        sig, line = classify_syntax_error(stub, e)
        ctx.violation("syntax", sig, dict(det, line=line, error=str(e)))
        return
    ctx.event("valid_python")
    cls = tree.body[0]
    if not isinstance(cls, ast.ClassDef):
        ctx.violation("shape", "stub-is-not-a-class", det)
        return
    declared = {}
    twice = []
    for node in cls.body:
        names = []
        if isinstance(node, ast.ClassDef):
            names = [node.name]
        elif isinstance(node, ast.AnnAssign) and isinstance(node.target, ast.Name):
            names = [node.target.id]
        elif isinstance(node, ast.Assign):
            names = [t.id for t in node.targets if isinstance(t, ast.Name)]
        for n in names:
            if n in declared:
                twice.append(n)
            declared[n] = node
    if twice:
        ctx.violation("names", "name-declared-more-than-once-in-stub", dict(det, names=sorted(set(twice))))
        return
    empty = lib.cstruct()
    want = set(user_types(cs)) | {k for k in cs.consts if k not in empty.consts}
    want = {w for w in want if w.isidentifier()}
    missing = sorted(want - set(declared))
    if missing:
        ctx.violation("names", "user-defined-name-not-declared-in-stub", dict(det, missing=missing))
        return
    extra = sorted(n for n in declared if n not in want)
    bogus = []
    for n in extra:
        try:
            getattr(cs, n)
        except AttributeError:
            bogus.append(n)
    if bogus:
        ctx.violation("names", "stub-declares-a-name-the-cstruct-object-does-not-provide", dict(det, bogus=bogus))
        return
    ctx.event("names_checked", len(want))
    # aliases must point at something that exists and is the very type the cstruct object resolves the name to
    for n, node in declared.items():
        if not (isinstance(node, ast.AnnAssign) and ast.unparse(node.annotation).endswith("TypeAlias")
                and node.value is not None):
            continue
        tgt = node.value
        tname = None
        if isinstance(tgt, ast.Name):
            tname = tgt.id
            if tname not in declared:
                ctx.violation("names", "alias-points-at-a-name-the-stub-does-not-declare",
                              dict(det, alias=n, target=ast.unparse(tgt)))
                return
        elif isinstance(tgt, ast.Attribute):
            tname = tgt.attr
        if tname is not None and n in cs.typedefs:
            try:
                same = cs.resolve(n) is cs.resolve(tname) or cs.resolve(n).__name__ == tname
            except Exception:  # noqa: BLE001
                same = False
            if not same:
                ctx.violation("names", "alias-declared-with-another-target", dict(det, alias=n, target=ast.unparse(tgt)))
                return
        ctx.event("alias_targets_checked")
    # field annotations of structures (recursively through the classes declared inline for nested structures)
    from dissect.cstruct import types

    def check_struct(node, t, path):
        ann, inner = {}, {}
        for b in node.body:
            if isinstance(b, ast.AnnAssign) and isinstance(b.target, ast.Name):
                ann[b.target.id] = ast.unparse(b.annotation)
            elif isinstance(b, ast.ClassDef):
                inner[b.name] = b
        for fname, field in t.fields.items():
            if not fname.isidentifier():
                continue
            if fname not in ann:
                ctx.violation("fields", "structure-field-not-annotated", dict(det, struct=path, field=fname))
                return False
            qual = hint_qualified(ann[fname])
            got = qual.split(".")[-1]
            exp = expected_base(field.type)
            if got != exp:
                ctx.violation("fields", "field-hint-names-another-type",
                              dict(det, struct=path, field=fname, hint=ann[fname], expected=exp))
                return False
            base = field.type
            while issubclass(base, (types.Pointer, types.Array)) and not issubclass(base, (types.CharArray, types.WcharArray)):
                base = base.type
            if "." in qual:
                # cstruct.X: the cstruct object must provide X, and X must be this very type
                try:
                    provided = getattr(cs, got)
                except AttributeError:
                    provided = None
                if provided is None or (got not in declared and got not in empty.typedefs):
                    ctx.violation("fields", "field-hint-names-a-type-the-cstruct-object-does-not-provide",
                                  dict(det, struct=path, field=fname, hint=ann[fname]))
                    return False
                if isinstance(provided, type) and provided is not base:
                    ctx.violation("fields", "field-hint-names-another-type-of-the-same-name",
                                  dict(det, struct=path, field=fname, hint=ann[fname]))
                    return False
            elif got in inner:
                if issubclass(base, types.Structure) and not check_struct(inner[got], base, f"{path}.{got}"):
                    return False
            elif got not in ("CharArray", "WcharArray"):
                ctx.violation("fields", "field-hint-names-a-class-that-is-not-in-scope",
                              dict(det, struct=path, field=fname, hint=ann[fname]))
                return False
            ctx.event("field_hints_checked")
        return True

    for name, t in user_types(cs).items():
        if not (isinstance(t, type) and issubclass(t, types.Structure)):
            continue
        node = declared.get(t.__name__)
        if not isinstance(node, ast.ClassDef):
            continue  # alias of an already declared class
        if not check_struct(node, t, name):
            return
        # enum members
    for name, t in user_types(cs).items():
        if isinstance(t, type) and issubclass(t, (types.Enum, types.Flag)):
            node = declared.get(t.__name__)
            if isinstance(node, ast.ClassDef):
                mem = {tg.id for b in node.body if isinstance(b, ast.Assign) for tg in b.targets if isinstance(tg, ast.Name)}
                if set(t.__members__) - mem:
                    ctx.violation("fields", "enum-member-not-declared", dict(det, enum=name,
                                                                             missing=sorted(set(t.__members__) - mem)))


def special_forms(ctx):
    """Definition-set shapes called out by the property, each with its own mechanism signature when it fails."""
    forms = [
        ("anonymous-enum", "enum : uint8 { AE_A = 1, AE_B };\nstruct T { uint8 a; };", None),
        ("array-typedef", "typedef uint8 arr4[4];\nstruct T { arr4 a; };", None),
        ("pointer-typedef", "typedef uint32 *p32;\nstruct T { p32 a; };", None),
        ("keyword-field", "struct T { uint8 class; uint16 from; };", None),
        ("keyword-enum-member", "enum KE : uint8 { None, True };", None),
        ("string-const", '#define NAME "hello"\n#define BYTES b"\\x01\\x02"\n#define FL 1.5\nstruct T { uint8 a; };', None),
        ("typedef-chain", "typedef uint16 W1;\ntypedef W1 W2;\ntypedef struct _S { W2 a; W1 b[2]; } S, *PS_unused_name;"
                          if False else "typedef uint16 W1;\ntypedef W1 W2;\ntypedef uint16 W3;\ntypedef uint32 H1;\ntypedef uint32 H2;\ntypedef struct _S { W2 a; W1 b[2]; H2 c; } S, S2;\ntypedef S S3;", None),
        ("nested-anon-array", "struct T { struct { uint8 x; struct { uint16 y; } inner[2]; } outer[3]; union { uint8 u1; "
                              "uint16 u2; }; };", None),
        ("string-alias", "struct T { uint8 a; };", lambda cs: (cs.add_type("alias_of_uint8", "uint8"),
                                                              cs.add_type("alias_of_words", "unsigned int"),
                                                              cs.add_type("alias_of_synonym", "BYTE"),
                                                              cs.add_type("alias_of_struct", "T"))),
        ("flag-and-enum", "flag FL1 : uint16 { FA, FB, FC = 0x10 };\nenum EN1 { EA, EB = 5 };\n"
                          "struct T { FL1 f; EN1 e[2]; FL1 b : 3; uint16 r : 13; };", None),
        ("string-alias-before-target", "struct Later { uint8 a; };\nstruct T { Later l; };",
         None),
        ("enum-and-flag-aliases", "enum Color : uint8 { RED, GREEN };\ntypedef Color color_t;\ntypedef color_t color2_t;\n"
                                  "flag Perm : uint16 { PR, PW };\ntypedef Perm perm_t;\n"
                                  "struct T { color_t c; perm_t p; color2_t d[2]; Perm q : 3; uint16 r : 13; };", None),
        ("tagged-inline-members", "struct G { uint8 g; };\nstruct T { struct Inner { uint8 a; struct Deep { uint8 q; } deep[2]; "
                                  "} x; union Variant { uint8 a; uint16 b; } v[2]; G gs[2]; G *gp; G one; struct { uint8 z; }; "
                                  "struct { uint16 w; G g2; } anon_named; };", None),
        ("replaced-builtin-aliases", "struct q { uint8 a; };\nenum RE : uint8 { RA, RB };",
         lambda cs: (cs.add_type("BYTE", cs.uint16, replace=True), cs.add_type("WORD", "uint64", replace=True),
                     cs.add_type("DWORD", cs.q, replace=True), cs.add_type("QWORD", "RE", replace=True),
                     cs.load("struct T { BYTE a; WORD b; DWORD c; QWORD d; };"))),
        ("empty-enum", "enum EmptyE { };\nstruct T { uint8 a; };", None),
        ("empty-and-falsy-constants", '#define GUARD_H\n#define EMPTY_S ""\n#define ZERO 0\n#define ZERO_F 0.0\n#define EMPTY_B b""\n'
                                      "struct T { uint8 a; };", None),
        ("only-a-valueless-define", "#define ONLY_GUARD_H\n", None),
        ("self-references", "struct node { uint32 value; struct node *next; node *children[4]; node **pp; };\n"
                            "union tree { uint8 tag; tree *kids[2]; };\nstruct T { node first; tree *t; };", None),
        ("wchar-char-arrays", "struct T { char a[4]; wchar b[2]; char c[]; wchar d[]; char *s; uint8 **pp; };", None),
    ]
    for label, text, post in forms:
        try:
            if label == "string-alias-before-target":
                cs = lib.cstruct()
                cs.add_type("early_t", "Later")      # by-name reference registered before the type it names
                cs.load(text)
            else:
                cs = lib.load(text)
            if post:
                post(cs)
        except Exception as e:  # noqa: BLE001
            ctx.violation("load", f"special-form-load-fails:{type(e).__name__}", {"text": text, "error": lib.exc_sig(e)})
            continue
        ctx.cell("form:" + label)
        judge(ctx, cs, text, label)


def run(ctx):
    if ctx.shard == 0:
        special_forms(ctx)
    for i in range(N_CASES[ctx.tier]):
        if ctx.out_of_time():
            break
        rng = ctx.rng("case", i)
        case = engine.make_case(rng, dyn_unions=rng.random() < 0.2)
        try:
            cs = lib.load(case["text"], compiled=rng.random() < 0.5, align=rng.random() < 0.5)
        except Exception:  # noqa: BLE001
            continue
        for t in case["feats"]:
            ctx.cell("feat:" + t)
        judge(ctx, cs, case["text"], "generated")
        if i < 2:
            ctx.sample({"text": case["text"]})


def replay(ctx, detail):
    print("definitions:\n" + detail.get("text", ""))
    print("label:", detail.get("label"))
    if detail.get("label") != "generated":
        special_forms(ctx)
        return
    cs = lib.load(detail["text"])
    try:
        print(stub_of(cs))
    except Exception as e:  # noqa: BLE001
        print("raises", repr(e))
    judge(ctx, cs, detail["text"], "generated")
