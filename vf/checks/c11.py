"""C11  Union members are coherent views of one byte buffer."""
from __future__ import annotations

import io

from .. import engine, gen, lib, model, monitors
from ..engine import case_detail
from ..gen import F, L_fixed, N_array, N_char, N_float, N_int, N_ptr, N_struct, N_wchar

N_CASES = {"quick": 45, "thorough": 800}


# ---------------------------------------------------------------------------------------------------
# in-situ union monitor: after every mutation the members are what the buffer says


class UnionMonitor:
    def __init__(self, ctx):
        self.ctx = ctx
        self.patch = monitors.Patch()

    def install(self):
        from dissect.cstruct.types.structure import Union

        mon = self

        def after_rebuild(u, args, kwargs, res, exc, token):
            if exc is not None:
                return
            mon.ctx.event("Union._rebuild")
            cls = type(u)
            buf = getattr(u, "_buf", None)
            if buf is None or cls.size is None:
                return
            if len(buf) != cls.size:
                mon.ctx.violation("union-monitor", "buffer-length-differs-from-union-size",
                                  {"union": cls.__name__, "len": len(buf), "size": cls.size})
                return
            for field in cls.__fields__:
                try:
                    stream = io.BytesIO(buf)
                    stream.seek(field.offset or 0)  # members may be given an explicit offset through add_field()
                    want = field.type._read(stream)
                    if field.bits:
                        # a bit-field member is the first `bits` bits of the unit read at the union's start
                        unit = int(getattr(want, "value", want))
                        nbits = field.type.size * 8
                        unit &= (1 << nbits) - 1
                        want = unit & ((1 << field.bits) - 1) if cls.cs.endian == "<" else unit >> (nbits - field.bits)
                        if getattr(getattr(field.type, "type", field.type), "signed", False) and want >> (field.bits - 1):
                            want -= 1 << field.bits
                    have = getattr(u, field._name)
                    a, b = simple(want), simple(have)
                except Exception:  # noqa: BLE001
                    continue
                if a != b:
                    mon.ctx.violation("union-monitor", "member-differs-from-parse-of-the-union-buffer",
                                      {"union": cls.__name__, "member": field._name, "have": repr(b)[:200],
                                       "want": repr(a)[:200], "buf": buf.hex()})
            mon.ctx.event("Union.invariant_evaluations")

        monitors.wrap_method(self.patch, Union, "_rebuild", None, after_rebuild)

    def uninstall(self):
        self.patch.restore()


def simple(v):
    from dissect.cstruct import Pointer, Structure
    import enum
    import math

    v = lib.unwrap(v)
    if isinstance(v, Pointer):
        return ("p", int(v))
    if isinstance(v, enum.Enum):
        return ("e", int(v.value))
    if isinstance(v, Structure):
        return {f._name: simple(getattr(v, f._name)) for f in type(v).__fields__}
    if isinstance(v, list):
        return [simple(x) for x in v]
    if isinstance(v, float) and math.isnan(v):
        return "nan"
    if isinstance(v, (bytes, str, int, float)):
        return v
    return repr(v)


# ---------------------------------------------------------------------------------------------------
# union-centred definitions


def scalar(rng):
    x = rng.random()
    if x < 0.6:
        return N_int(rng.choice(list(gen.ALL_INTS)))
    if x < 0.7:
        return N_float(rng.choice(["float", "double"]))
    if x < 0.8:
        return N_char()
    if x < 0.9:
        return N_wchar()
    return N_ptr(N_int("uint8"))


def member_struct(g, rng, depth=0):
    fields = []
    for _ in range(rng.randint(1, 4)):
        x = rng.random()
        if x < 0.25:
            g.bit_run(fields, [])
        elif x < 0.4:
            fields.append(F(g.nm(), N_array(N_int(rng.choice(["uint8", "uint16", "uint24"])), L_fixed(rng.randint(1, 3)))))
        elif x < 0.6 and depth < 2:
            fields.append(F(g.nm(), member_struct(g, rng, depth + 1)))  # structures below the first level
        else:
            fields.append(F(g.nm(), scalar(rng)))
    return N_struct(fields)


def make_union_case(rng):
    g = gen.Gen(rng, enums=True)
    members = []
    for _ in range(rng.randint(2, 4)):
        x = rng.random()
        if x < 0.35:
            members.append(F(g.nm(), scalar(rng)))
        elif x < 0.55:
            members.append(F(g.nm(), N_array(N_int(rng.choice(["uint8", "int16", "uint32", "uint24"])),
                                             L_fixed(rng.randint(1, 5)))))
        elif x < 0.65:
            members.append(F(g.nm(), N_array(N_char(), L_fixed(rng.randint(1, 6)))))
        elif x < 0.85:
            members.append(F(g.nm(), member_struct(g, rng)))
        elif x < 0.93 and not any(m["name"] is None for m in members):
            members.append(F(None, member_struct(g, rng, 2)))
        elif x < 0.96:
            inner = N_struct([F(g.nm(), scalar(rng)), F(g.nm(), member_struct(g, rng, 2))], union=True)
            members.append(F(g.nm(), inner))
        elif x < 0.985:
            # a nested union whose members all cover all of its bytes (so that dumping it loses nothing, K1-free):
            # assignments through it must reach the outer union as well
            pool = [N_int("uint32"), N_int("int32"), N_array(N_int("uint8"), L_fixed(4)),
                    N_array(N_int("uint16"), L_fixed(2)), N_array(N_char(), L_fixed(4)), N_int("uint32")]
            inner = N_struct([F(g.nm(), m) for m in rng.sample(pool, rng.randint(2, 3))], union=True)
            inner["k1free"] = True
            members.append(F(g.nm(), inner))
        else:
            members.append(F(g.nm(), g.enum_node()))
    shape = rng.random()
    if shape < 0.45:
        top = N_struct(members, name="T", union=True, decl="top")
        upath = []
    elif shape < 0.8:
        u = N_struct(members, union=True)
        top = N_struct([F("lead", N_int("uint8")), F("u", u), F("tail", N_int("uint16"))], name="T", decl="top")
        upath = ["u"]
    else:
        u = N_struct(members, union=True)
        top = N_struct([F("lead", N_int("uint16")), F(None, u), F("tail", N_int("uint8"))], name="T", decl="top")
        upath = ["#1"]
    g.decls.append({"d": "struct", "node": top})
    case = gen.finish_case(g.decls, top, g.consts, g.feats)
    case["named"] = {}
    return case, upath


def union_node(top, upath):
    node = top
    for p in upath:
        for i, f in enumerate(node["fields"]):
            if model.fkey(i, f) == p:
                node = f["t"]
    return node


def lib_union(obj, top, upath):
    """The library's Union instance (and whether it is reached through attribute forwarding)."""
    if not upath:
        return obj
    if upath[0].startswith("#"):
        idx = int(upath[0][1:])
        return getattr(obj, type(obj).__fields__[idx]._name)
    return getattr(obj, upath[0])


def leaf_paths(snode, prefix=()):
    """index paths to the named non-structure fields below a structure node (through named nested structures)"""
    for j, g in enumerate(snode["fields"]):
        if g["name"] is None:
            continue
        if g["t"]["k"] == "struct":
            if not g["t"]["union"]:
                yield from leaf_paths(g["t"], prefix + (j,))
        else:
            yield prefix + (j,)


def assign_targets(unode):
    """[(route, member index, path of field indices below the member | None)]"""
    out = []
    for i, f in enumerate(unode["fields"]):
        t = f["t"]
        if f["name"] is not None:
            if not (t["k"] == "struct" and t["union"]):
                out.append(("direct" if t["k"] != "array" else "array-replace", i, None))
            if t["k"] == "struct" and not t["union"]:
                for path in leaf_paths(t):
                    out.append(("nested-via-proxy" if len(path) == 1 else "nested-deep", i, path))
            if t["k"] == "struct" and t["union"] and t.get("k1free"):
                for j in range(len(t["fields"])):
                    out.append(("nested-union", i, (j,)))
        elif t["k"] == "struct":
            for path in leaf_paths(t):
                if len(path) == 1:
                    out.append(("anonymous-struct-field", i, path))
    return out


class _WriteOnly:
    """An output that can only be written to (a pipe, a file opened "wb")."""

    def __init__(self):
        import io as _io2

        self._b = _io2.BytesIO()

    def write(self, data):
        return self._b.write(data)

    def tell(self):
        return self._b.tell()

    def value(self):
        return self._b.getvalue()


def judge_state(ctx, case, cfgd, cfg, unode, U, u, shadow, viol, step):
    """All members must equal the model's parse of the shadow buffer; dumps() must equal it on data bits."""
    try:
        want, _ = model.parse_struct(unode, bytes(shadow), 0, cfg, model.Notes())
    except (model.ModelDecodeError, model.ModelEOF):
        ctx.event("shadow_not_decodable")
        return False
    try:
        got = lib.nan_clean(lib.norm(u, unode, strict=False))
    except lib.NormError as e:
        viol("norm", "unexpected-value-kind", step=step, error=str(e))
        return False
    wantc = lib.nan_clean(model.clean(want))
    if got != wantc:
        bad = [k for k in wantc if got.get(k) != wantc[k]]
        viol("coherence", "member-differs-from-parse-of-the-union-bytes", step=step, members=bad,
             got={k: got.get(k) for k in bad}, want={k: wantc[k] for k in bad}, shadow=bytes(shadow))
        return False
    ctx.event("member_views_checked", len(wantc))
    if model.has_nan(want):
        return True
    try:
        d = U.dumps(u)
    except Exception as e:  # noqa: BLE001
        viol("dump", f"union-dump-raises:{type(e).__name__}", step=step, error=lib.exc_sig(e))
        return False
    if len(d) != len(shadow):
        viol("dump", "union-dump-length-differs-from-size", step=step, got=len(d), want=len(shadow))
        return False
    # the union occupies its size wherever it is written: behind other bytes of a stream and as the element of an
    # array it gives the bytes it gives alone
    import io as _io

    try:
        s_ = _io.BytesIO()
        # (aligned structures place their padding by the absolute stream position: a multiple of 16 there)
        p_ = 16 * (1 + len(d) % 3) if cfgd["align"] else 1 + (len(shadow) * 7 + len(d)) % 13
        s_.write(b"\x5a" * p_)
        n_ = u.write(s_)
        tail_ = s_.getvalue()[p_:]
        arr_ = U[2]([u, u]).dumps()
        # ... and writing only writes: onto bytes that are there already, and to a sink that cannot be read
        f_ = _io.BytesIO(b"\xff" * (len(d) + 3))
        u.write(f_)
        over_ = f_.getvalue()[:len(d)]
        w_ = _WriteOnly()
        u.write(w_)
        sink_ = w_.value()
    except Exception as e:  # noqa: BLE001
        viol("dump", f"union-write-away-from-position-0-raises:{type(e).__name__}", step=step, error=lib.exc_sig(e))
        return False
    ctx.event("union_writes_at_other_positions_checked")
    if tail_ != d or n_ != len(d) or arr_ != d + d:
        viol("dump", "union-written-behind-other-bytes-or-as-array-element-differs-from-its-dump", step=step, alone=d,
             at_position=p_, written=tail_, returned=n_, as_array_of_two=arr_)
        return False
    if over_ != d or sink_ != d:
        viol("dump", "union-write-depends-on-what-the-output-stream-holds", step=step, alone=d, over_ff_bytes=over_,
             to_write_only_sink=sink_)
        return False
    dm, mask, k1 = model.dump_full(unode, want, cfg)
    diffs = engine.bits_differ(d, bytes(shadow), mask)
    if diffs:
        if engine.k1_explains(diffs, d, k1):
            viol("dump", "K1:union-dump-first-largest-member", step=step, got=d, shadow=bytes(shadow))
        else:
            viol("dump", "union-dump-differs-from-the-union-bytes", step=step, got=d, shadow=bytes(shadow),
                 diffs=diffs[:8])
        return True
    ctx.event("dumps_checked")
    return True


def position_independent(ctx, unode, U, shadow, viol, rng):
    """A fixed-size union read from a stream consumes exactly its size wherever it starts (aligned or not), the
    members are the same views of the same bytes, and the elements of an array of unions follow each other at
    that size."""
    import io

    if U.size is None:
        return
    base = bytes(shadow)
    try:
        want = lib.nan_clean(lib.norm(U(base), unode, strict=False))
    except Exception:  # noqa: BLE001
        return
    n = len(U)
    for p in (0, rng.randint(1, 40) | 1, rng.choice([2, 4, 12]), 16 * rng.randint(1, 4)):
        s = io.BytesIO(bytes([0x5A]) * p + base + base + b"\xa5" * 8)
        for count in (1, 2):
            s.seek(p)
            what = "union" if count == 1 else "array-of-unions"
            try:
                got = U(s) if count == 1 else U[2](s)
            except Exception as e:  # noqa: BLE001
                viol("position", f"{what}-parse-fails-away-from-position-0:{type(e).__name__}", position=p,
                     shadow=base, error=lib.exc_sig(e))
                return
            ctx.evaluation(("position", base.hex(), p, count, U.__name__, n))
            if s.tell() != p + count * n:
                viol("position", f"{what}-parse-consumes-other-than-its-size", position=p, consumed=s.tell() - p,
                     size=count * n, shadow=base)
                return
            for el in ([got] if count == 1 else list(got)):
                try:
                    g = lib.nan_clean(lib.norm(el, unode, strict=False))
                except lib.NormError as e:
                    viol("norm", "unexpected-value-kind", step="position", error=str(e))
                    return
                if g != want:
                    viol("position", f"{what}-members-depend-on-stream-position", position=p, shadow=base,
                         got=g, want=want)
                    return
        ctx.event("union_positions_checked")


def check_case(ctx, case, upath, rng):
    top = case["top"]
    unode = union_node(top, upath)
    for cfgd in engine.std_configs(rng, ctx.thorough, top):
        cfg = engine.mcfg(case, cfgd["endian"], cfgd["align"], cfgd["ptr"])
        cs, err = engine.load_cfg(ctx, case, cfgd)

        def viol(kind, sig, **kw):
            ctx.violation(kind, sig, case_detail(case, cfg=cfgd, upath=upath, **kw))

        if cs is None:
            viol("load", f"load-fails:{type(err).__name__}", error=repr(err))
            continue
        T = cs.T
        try:
            ulay = model.layout(unode, cfg)
        except model.ModelUnsupported:
            continue
        ctx.cell(f"align:{cfgd['align']}", "shape:" + ("top" if not upath else "anon" if upath[0].startswith("#") else "field"))
        # parse
        try:
            inp, used, mask, v = engine.model_input(case, cfg, rng, tail=8)
        except model.ModelUnsupported:
            continue
        r, exp = engine.judge_parse(ctx, case, cfgd, cfg, T, inp)
        if r[0] != "ok" or exp[0] != "ok":
            continue
        obj = r[1]
        u = lib_union(obj, top, upath)
        U = type(u)
        if len(U) != ulay["size"]:
            viol("size", "union-size-differs-from-largest-member-rule", got=len(U), want=ulay["size"])
            continue
        # locate the union's bytes in the input
        lay = model.layout(top, cfg)
        uoff = 0
        if upath:
            for i, f in enumerate(top["fields"]):
                if model.fkey(i, f) == upath[0]:
                    uoff = lay["offsets"][i]
        shadow = bytearray(inp[uoff:uoff + ulay["size"]])
        if not judge_state(ctx, case, cfgd, cfg, unode, U, u, shadow, viol, "after-parse"):
            continue
        position_independent(ctx, unode, U, shadow, viol, rng)
        # assignment history
        targets = assign_targets(unode)
        if not targets:
            continue
        hist = []
        for step in range(rng.randint(2, 6 if not ctx.thorough else 10)):
            route, mi, fj = rng.choice(targets)
            mf = unode["fields"][mi]
            lf = U.__fields__[mi]
            mt = mf["t"]
            try:
                cur, _ = model.parse(mt, bytes(shadow), 0, cfg)
            except (model.ModelDecodeError, model.ModelEOF):
                break
            if fj is None and mt["k"] == "int" and U.size is not None and rng.random() < 0.2:
                # an assignment the member type refuses (value out of range) changes nothing: every member still is
                # the view of the unchanged bytes
                bad = 1 << (8 * model.size_of(mt, cfg))
                try:
                    setattr(u, lf._name, bad)
                    viol("assign", "out-of-range-assignment-to-a-union-member-accepted", member=mf["name"], value=bad)
                    break
                except Exception:  # noqa: BLE001
                    ctx.event("refused_assignments")
                    ctx.cell("route:refused-assignment")
                if not judge_state(ctx, case, cfgd, cfg, unode, U, u, shadow, viol, f"after-refused-assignment:{mf['name']}"):
                    break
            if (fj is None and mt["k"] == "array" and mt["len"].get("f") == "fixed" and mt["len"]["n"] >= 2 and mt["elem"]["k"] == "int"
                    and U.size is not None and rng.random() < 0.3):
                # a list whose first entries are fine and whose last one does not fit: refused, and whatever was encoded
                # before the refusal went nowhere -- neither now nor with the next (narrower) assignment
                try:
                    okv = model.random_value(mt, rng, cfg)
                    badlist = [x ^ 0x5A if 0 <= x ^ 0x5A < 128 else 1 for x in model.clean(okv)][:-1] + [1 << (8 * model.size_of(mt["elem"], cfg))]
                    setattr(u, lf._name, badlist)
                    viol("assign", "out-of-range-assignment-to-a-union-member-accepted", member=mf["name"], value=badlist)
                    break
                except Exception:  # noqa: BLE001
                    ctx.event("refused_assignments")
                    ctx.cell("route:refused-array-assignment")
                if not judge_state(ctx, case, cfgd, cfg, unode, U, u, shadow, viol, f"after-refused-array-assignment:{mf['name']}"):
                    break
            if U.size is not None and rng.random() < 0.15:
                # a shallow copy that is assigned to afterwards: the original keeps its bytes (now and after its next assignment)
                import copy as _copy

                try:
                    twin = _copy.copy(u)
                    tf = rng.choice([f for f in U.__fields__ if f.name])
                    tn = unode["fields"][U.__fields__.index(tf)]["t"]
                    setattr(twin, tf._name, lib.build(tf.type, tn, model.random_value(tn, rng, cfg)))
                    ctx.cell("route:copy-assigned")
                except Exception:  # noqa: BLE001
                    ctx.event("copy_assignment_not_possible")
                if not judge_state(ctx, case, cfgd, cfg, unode, U, u, shadow, viol, "after-a-shallow-copy-was-assigned-to"):
                    break
            try:
                if fj is None:
                    newv = model.random_value(mt, rng, cfg)
                    member_value = newv
                    libv = lib.build(lf.type, mt, newv)
                    hist.append((route, mf["name"], repr(model.clean(newv))[:80]))
                    setattr(u, lf._name, libv)
                else:
                    import copy as _copy

                    snode, ltype = mt, lf.type
                    for j in fj[:-1]:
                        ltype = ltype.__fields__[j].type
                        snode = snode["fields"][j]["t"]
                    gf = snode["fields"][fj[-1]]
                    glf = ltype.__fields__[fj[-1]]
                    newv = model.random_value(gf["t"], rng, cfg, f=gf)
                    libv = lib.build(glf.type, gf["t"], newv, gf)
                    member_value = _copy.deepcopy(cur)
                    mv, names = member_value, []
                    node_ = mt
                    for j in fj[:-1]:
                        names.append(node_["fields"][j]["name"])
                        mv = mv[node_["fields"][j]["name"]]
                        node_ = node_["fields"][j]["t"]
                    mv[gf["name"]] = newv
                    hist.append((route, ".".join([str(mf["name"])] + names + [gf["name"]]), repr(model.clean(newv))[:80]))
                    if route == "nested-union":
                        # the inner union's other members follow from its bytes
                        raw_in, _ = model.dump(gf["t"], newv, cfg)
                        ib = bytearray(model.dump(mt, cur, cfg)[0])
                        ib[:len(raw_in)] = raw_in
                        member_value, _ = model.parse(mt, bytes(ib), 0, cfg)
                    via_outer = bool(upath and upath[0].startswith("#") and rng.random() < 0.5)

                    def do_assign(value, route=route, lf=lf, fj=fj, glf=glf, via_outer=via_outer):
                        if route in ("nested-via-proxy", "nested-deep", "nested-union"):
                            tgt = getattr(u, lf._name)
                            ll = lf.type
                            for j in fj[:-1]:
                                tgt = getattr(tgt, ll.__fields__[j]._name)
                                ll = ll.__fields__[j].type
                            setattr(tgt, glf._name, value)
                        elif via_outer:
                            setattr(obj, glf._name, value)  # through both levels of attribute forwarding
                        else:
                            setattr(u, glf._name, value)

                    if gf["t"]["k"] == "int" and not gf.get("bits") and U.size is not None and rng.random() < 0.25:
                        # a refused assignment below a member changes nothing either
                        bad = 1 << (8 * model.size_of(gf["t"], cfg))
                        try:
                            do_assign(bad)
                            viol("assign", "out-of-range-assignment-below-a-union-member-accepted", member=mf["name"],
                                 value=bad, route=route)
                            break
                        except Exception:  # noqa: BLE001
                            ctx.event("refused_nested_assignments")
                            ctx.cell("route:refused-nested-assignment")
                        if not judge_state(ctx, case, cfgd, cfg, unode, U, u, shadow,
                                           lambda k, s_, **kw: viol(k, s_, history=hist, route=route, **kw),
                                           f"after-refused-nested-assignment:{mf['name']}"):
                            break
                    do_assign(libv)
            except Exception as e:  # noqa: BLE001
                if isinstance(e, UnicodeDecodeError):
                    # the new bytes are not valid UTF-16 for a wchar member of the union: no state to compare
                    try:
                        raw, _ = model.dump(mt, member_value, cfg)
                        probe = bytearray(shadow)
                        probe[:len(raw)] = raw[:len(probe)]
                        model.parse_struct(unode, bytes(probe), 0, cfg, model.Notes())
                    except model.ModelDecodeError:
                        ctx.event("assignment_made_a_wchar_member_undecodable")
                        break
                    except Exception:  # noqa: BLE001
                        pass
                viol("assign", f"assignment-raises:{type(e).__name__}", history=hist, route=route,
                     error=lib.exc_sig(e))
                break
            raw, _ = model.dump(mt, member_value, cfg)
            shadow[:len(raw)] = raw[:len(shadow)]
            ctx.evaluation((case["text"], tuple(sorted(cfgd.items())), inp.hex(), repr(hist)))
            ctx.cell("route:" + route)
            ctx.event("assignments")
            if not judge_state(ctx, case, cfgd, cfg, unode, U, u, shadow, lambda k, s, **kw: viol(k, s, history=hist, **kw),
                               f"after-assignment-{step}"):
                break
        # the containing structure still dumps the surrounding fields unchanged
        if upath and not model.has_nan(exp[1]):
            try:
                d = obj.dumps()
                if d[:uoff] != model.dump(top, exp[1], cfg)[0][:uoff]:
                    viol("dump", "fields-before-the-union-changed", got=d)
            except Exception as e:  # noqa: BLE001
                viol("dump", f"containing-structure-dump-raises:{type(e).__name__}", error=lib.exc_sig(e))


def offset_unions(ctx, n):
    """Unions built through the Python API whose members have explicit offsets (Field(..., offset=k))."""
    from dissect.cstruct import Field

    for it in range(n):
        rng = ctx.rng("offset-union", it)
        g = gen.Gen(rng)
        big = rng.choice([N_int("uint64"), N_array(N_int("uint8"), L_fixed(rng.randint(5, 9))), N_int("uint32"),
                          N_array(N_int("uint16"), L_fixed(3))])
        members = [F("base", big)]
        for _ in range(rng.randint(1, 3)):
            x = rng.random()
            t = scalar(rng) if x < 0.6 else (N_array(N_int("uint8"), L_fixed(rng.randint(1, 3))) if x < 0.8
                                              else N_struct([F(g.nm(), N_int("uint8")), F(g.nm(), N_int("uint16"))]))
            if t["k"] in ("wchar", "float", "ptr"):
                t = N_int("uint16")
            members.append(F(g.nm(), t))
        helper = gen.simple_case(members)          # struct T with the same member types, to obtain the type objects
        helper["named"] = {}
        for endian in "<>":
            cfgd = {"endian": endian, "align": False, "compiled": False, "ptr": "uint64"}
            cfg = engine.mcfg(helper, endian, False)
            cs, err = engine.load_cfg(ctx, helper, cfgd)
            if cs is None:
                continue
            size = model.size_of(big, cfg)
            offs = [0]
            for m in members[1:]:
                ms = model.size_of(m["t"], cfg)
                if rng.random() < 0.3:
                    offs.append(rng.randint(0, size))      # may reach beyond the largest member: the union grows
                elif ms > size:
                    offs.append(0)
                else:
                    offs.append(rng.randint(0, size - ms))
            # the extent of the union is the furthest end of any member
            size = max(o + model.size_of(m["t"], cfg) for m, o in zip(members, offs))
            U = cs._make_union("U", [Field(m["name"], lf.type, offset=o) for m, lf, o in
                                     zip(members, cs.T.__fields__, offs)])
            shadow = bytearray(rng.randrange(1, 256) for _ in range(size))

            def viol(kind, sig, **kw):
                ctx.violation(kind, sig, {"members": [(m["name"], engine.gen.base_spelling(m["t"]) if m["t"]["k"] != "array"
                                                       else "array", o) for m, o in zip(members, offs)],
                                          "endian": endian, "shadow": bytes(shadow).hex(), **kw})

            def check(step):
                for m, o in zip(members, offs):
                    try:
                        want, _ = model.parse(m["t"], bytes(shadow), o, cfg)
                    except (model.ModelDecodeError, model.ModelEOF):
                        return True
                    got = lib.nan_clean(lib.norm(getattr(u, m["name"]), m["t"], strict=False))
                    if got != lib.nan_clean(model.clean(want)):
                        viol("coherence", "offset-member-differs-from-parse-of-the-union-bytes", step=step,
                             member=m["name"], got=got, want=model.clean(want))
                        return False
                if len(u._buf) != size:
                    viol("coherence", "union-buffer-length-changed", step=step, got=len(u._buf), want=size)
                    return False
                # dumping: the member the writer picks (the first of the largest ones) appears at *its* offset; every
                # other byte is the union's byte or zero (K1: what the written member does not cover is not written)
                sizes_ = [model.size_of(m["t"], cfg) for m in members]
                pick = sizes_.index(max(sizes_))
                po, ps = offs[pick], sizes_[pick]
                try:
                    d = u.dumps()
                except Exception as e:  # noqa: BLE001
                    viol("dump", f"offset-union-dump-raises:{type(e).__name__}", step=step, error=lib.exc_sig(e))
                    return False
                ctx.event("offset_union_dumps_checked")
                if len(d) != size or d[po:po + ps] != bytes(shadow[po:po + ps]) or \
                        any(d[j] not in (0, shadow[j]) for j in range(size)):
                    viol("dump", "offset-union-dump-misplaces-the-written-member", step=step, got=d.hex(),
                         written_member=members[pick]["name"], at=po)
                    return False
                return True

            if len(U) != size:
                viol("size", "offset-union-size-differs-from-the-furthest-member-end", got=len(U), want=size)
                continue
            try:
                u = U(bytes(shadow))
            except Exception as e:  # noqa: BLE001
                viol("parse", f"offset-union-parse-raises:{type(e).__name__}", error=lib.exc_sig(e))
                continue
            ctx.cell("shape:explicit-offsets")
            ctx.evaluation(("offset-union", it, endian))
            if not check("after-parse"):
                continue
            hist = []
            for step in range(rng.randint(2, 6)):
                i = rng.randrange(len(members))
                m, o = members[i], offs[i]
                lf = U.__fields__[i]
                try:
                    if m["t"]["k"] == "struct" and rng.random() < 0.6:
                        j = rng.randrange(len(m["t"]["fields"]))
                        gf = m["t"]["fields"][j]
                        nv = model.random_value(gf["t"], rng, cfg)
                        cur, _ = model.parse(m["t"], bytes(shadow), o, cfg)
                        cur[gf["name"]] = nv
                        setattr(getattr(u, lf._name), lf.type.__fields__[j]._name, nv)
                        raw, _ = model.dump(m["t"], cur, cfg)
                        hist.append((m["name"] + "." + gf["name"], nv))
                    else:
                        nv = model.random_value(m["t"], rng, cfg)
                        setattr(u, lf._name, lib.build(lf.type, m["t"], nv))
                        raw, _ = model.dump(m["t"], nv, cfg)
                        hist.append((m["name"], repr(nv)[:40]))
                except Exception as e:  # noqa: BLE001
                    viol("assign", f"offset-member-assignment-raises:{type(e).__name__}", history=hist,
                         error=lib.exc_sig(e))
                    break
                shadow[o:o + len(raw)] = raw
                ctx.evaluation(("offset-union", it, endian, repr(hist)))
                ctx.cell("route:explicit-offset-member")
                ctx.event("assignments")
                if not check(f"after-assignment-{step}:{hist}"):
                    break


def witnesses(ctx):
    """Pinned witness of the open finding K1 (top-level union whose largest member is an anonymous structure)."""
    import random

    top = N_struct([F(None, N_struct([F("a", N_int("uint32")), F("b", N_int("uint32"))])), F("c", N_int("uint8"))],
                   name="T", union=True, decl="top")
    case = gen.finish_case([{"d": "struct", "node": top}], top, {})
    case["named"] = {}
    check_case(ctx, case, [], random.Random(1))
    ctx.cell("pinned-witnesses")
    # shapes of two repaired defects the generator reaches only in the thorough tier: a union whose only member is an
    # anonymous structure holding another anonymous structure (its fields were dumped as zeros), and a structure
    # three unions deep (could not be loaded)
    for endian in "<>":
        ctx.evaluation(("nested-shapes", endian))
        det = {"endian": endian, "workload": "nested-shapes"}
        try:
            cs = lib.load("union U { struct { struct { uint8 a; uint8 b; }; uint8 c; }; };\n"
                          "struct S { uint8 x; uint16 y; };\nunion A { S s; uint8 r[3]; };\nunion B { A a; uint8 q; };\n"
                          "union C { B b; uint32 w; };\nstruct H { uint8 h; C c; uint8 t; };", endian, False, False)
            u = cs.U(b"\x01\x02\x03")
            h = cs.H(bytes([9, 1, 2, 3, 4, 7]))
            # a union whose members are all anonymous structures is written through the largest of them
            csa = lib.load("union AA { struct { uint8 a; }; struct { uint32 b; }; struct { uint16 c; }; };", endian, False, False)
            if csa.AA(b"\x01\x02\x03\x04").dumps() != b"\x01\x02\x03\x04":
                raise AssertionError("all-anonymous union dumps " + csa.AA(b"\x01\x02\x03\x04").dumps().hex())
            facts = (u.dumps(), (int(u.a), int(u.b), int(u.c)), h.dumps(), int(h.c.b.a.s.x), [int(v) for v in h.c.b.a.r], len(cs.C))
            want = (b"\x01\x02\x03", (1, 2, 3), bytes([9, 1, 2, 3, 4, 7]), 1, [1, 2, 3], 4)
            h.c.b.a.s.x = 0x55
            facts += (h.dumps(), int(h.c.b.q))
            want += (bytes([9, 0x55, 2, 3, 4, 7]), 0x55)
        except Exception as e:  # noqa: BLE001
            ctx.violation("nested-shapes", f"nested-union-shape-raises:{type(e).__name__}", dict(det, error=lib.exc_sig(e)))
            continue
        if facts != want:
            ctx.violation("nested-shapes", "nested-union-shape-differs", dict(det, got=repr(facts), want=repr(want)))
        else:
            ctx.event("nested_shapes_checked")


def held_reference(ctx):
    """Pinned witness of the open finding K10: several writes through one held reference to a nested structure."""
    for endian in "<>":
        text = "struct s { uint8 x; uint8 y; };\nunion u { s a; uint16 b; };"
        ctx.evaluation(("held-reference", endian))
        ctx.cell("held-reference")
        try:
            cs = lib.load(text, endian, False, False)
            o = cs.u()
            p = o.a
            p.x = 1
            p.y = 2
            got = (o.dumps(), int(o.b), int(o.a.x), int(o.a.y))
        except Exception as e:  # noqa: BLE001
            ctx.violation("held-reference", f"write-through-held-reference-raises:{type(e).__name__}",
                          {"text": text, "error": lib.exc_sig(e), "workload": "held-reference"})
            continue
        want = (b"\x01\x02", 0x0201 if endian == "<" else 0x0102, 1, 2)
        if got != want:
            ctx.violation("held-reference", "K10:second-write-through-a-held-nested-structure-reference-is-lost",
                          {"text": text, "endian": endian, "got": repr(got), "want": repr(want), "workload": "held-reference"})
        else:
            ctx.event("held_reference_writes_kept")


def array_element_structures(ctx):
    """Pinned witness of the open finding K15: an assignment through a structure that is an *element of an array
    member* of the union (the statement: 'directly or through a nested structure').  After `u.s = u.s` the views
    agree again, which is judged as well (so that only the missing write-back is attributed to the finding)."""
    for endian in "<>":
        text = "struct S { uint16 x; uint8 y; };\nunion A { S s[2]; uint16 w[3]; };"
        ctx.evaluation(("array-element-structure", endian))
        ctx.cell("route:structure-in-array-member")
        det = {"text": text, "endian": endian, "workload": "array-element-structures"}
        try:
            cs = lib.load(text, endian, False, False)
            a = cs.A(bytes(range(6)))
            a.s[0].x = 0xAAAA
            first = (int(a.w[0]), a.dumps()[:2])
            a.s = a.s
            second = (int(a.w[0]), a.dumps()[:2], int(a.s[0].x), int(a.s[1].y), int(a.w[2]))
        except Exception as e:  # noqa: BLE001
            ctx.violation("array-element", f"write-through-array-element-structure-raises:{type(e).__name__}",
                          dict(det, error=lib.exc_sig(e)))
            continue
        w2 = int.from_bytes(bytes([4, 5]), "little" if endian == "<" else "big")
        if second != (0xAAAA, b"\xaa\xaa", 0xAAAA, 5, w2):
            ctx.violation("array-element", "array-member-assigned-back-does-not-reach-the-union", dict(det, got=repr(second)))
        elif first != (0xAAAA, b"\xaa\xaa"):
            ctx.violation("array-element", "K15:write-through-a-structure-inside-an-array-member-does-not-reach-the-union",
                          dict(det, got=repr(first)))
        else:
            ctx.event("array_element_structure_writes_kept")
        # second witness of the same mechanism (the elements of an array member are plain list entries, not proxied): a
        # scalar element changed in place -- by index, negative index or slice
        text2 = "union B { uint8 b[4]; uint32 w; uint16 h[2]; };"
        ctx.evaluation(("array-element-scalar", endian))
        ctx.cell("route:scalar-element-of-array-member")
        det2 = {"text": text2, "endian": endian, "workload": "array-element-structures"}
        try:
            cs2 = lib.load(text2, endian, False, False)
            b = cs2.B(b"\x01\x02\x03\x04")
            b.b[-1] = 9
            b.b[0:2] = [7, 7]
            first2 = (int(b.w), [int(x) for x in b.h], b.dumps())
            b.b = b.b
            second2 = (int(b.w), b.dumps(), [int(x) for x in b.b])
        except Exception as e:  # noqa: BLE001
            ctx.violation("array-element", f"write-through-array-element-structure-raises:{type(e).__name__}",
                          dict(det2, error=lib.exc_sig(e)))
            continue
        bo = "little" if endian == "<" else "big"
        new = bytes([7, 7, 3, 9])
        if second2 != (int.from_bytes(new, bo), new, [7, 7, 3, 9]):
            ctx.violation("array-element", "array-member-assigned-back-does-not-reach-the-union", dict(det2, got=repr(second2)))
        elif first2 != (int.from_bytes(new, bo), [int.from_bytes(new[:2], bo), int.from_bytes(new[2:], bo)], new):
            ctx.violation("array-element", "K15:in-place-change-of-a-scalar-element-of-an-array-member-does-not-reach-the-union",
                          dict(det2, got=repr(first2)))
        else:
            ctx.event("array_element_scalar_writes_kept")


def defaults_and_falsy_values(ctx):
    """(a) A default-constructed union is all zeros and coherent whatever was done to an earlier default-constructed
    one (its array and nested members edited in place, with and without assigning them back).
    (b) Values that are falsy without being the zero value: -0.0 assigned to a float member sets the sign bit in every
    view; an empty list is not a value of a fixed-size array member (refused, nothing changes)."""
    import struct as _st

    text = ("struct P { uint8 x; uint16 y; };\nunion U { uint32 a; uint8 c[4]; P p; float f; };\n"
            "struct W { uint8 k; U u; U us[2]; };\nunion D { double d; uint64 i; float16 h[4]; };")
    for endian in "<>":
        ctx.evaluation(("defaults-and-falsy", endian))
        ctx.cell("defaults-and-falsy-values")
        det = {"text": text, "endian": endian, "workload": "defaults-and-falsy"}
        try:
            cs = lib.load(text, endian, False, False)
            bo = "little" if endian == "<" else "big"
            first = cs.U()
            first.c[0] = 7
            first.p.x = 9
            w1 = cs.W()
            w1.u.a = 0x01020304
            w1.us[1].c[2] = 5
            second, w2 = cs.U(), cs.W()
            facts = {
                "fresh default is zero": second.dumps() == bytes(4) and int(second.a) == 0 and list(second.c) == [0, 0, 0, 0]
                and int(second.p.x) == 0 and int(second.p.y) == 0,
                "fresh default of the container is zero": w2.dumps() == bytes(len(cs.W)) and int(w2.u.a) == 0
                and list(w2.us[1].c) == [0, 0, 0, 0],
                "defaults are separate objects": first.c is not second.c and w1.us is not w2.us and w1.us[1] is not w2.us[1],
            }
            u = cs.U(bytes([0x11, 0x22, 0x33, 0x44]))
            u.f = -0.0
            neg = _st.pack(endian + "f", -0.0)
            facts["-0.0 sets the sign bit in every view"] = (u.dumps() == neg and int(u.a) == int.from_bytes(neg, bo)
                                                             and list(u.c) == list(neg))
            facts["-0.0 constructed"] = cs.U(f=-0.0).dumps() == neg
            d = cs.D(bytes(range(1, 9)))
            d.d = -0.0
            facts["-0.0 double"] = d.dumps() == _st.pack(endian + "d", -0.0) and int(d.i) == 1 << 63
            d.h = [-0.0, 0.0, -0.0, 1.0]
            facts["-0.0 float16 elements"] = d.dumps() == _st.pack(endian + "4e", -0.0, 0.0, -0.0, 1.0)
            # a union constructed through the fields of its anonymous structure member is rebuilt from that member
            cs3 = lib.load("union F { struct { uint8 m; uint8 n; }; uint16 w; uint8 raw[2]; };", endian, False, False)
            fu = cs3.F(m=1, n=2)
            facts["constructed through folded fields"] = (fu.dumps() == b"\x01\x02" and list(fu.raw) == [1, 2]
                                                          and int(fu.w) == int.from_bytes(b"\x01\x02", bo) and int(fu.m) == 1)
            v = cs.U(bytes([1, 2, 3, 4]))
            try:
                v.c = []
                facts["empty list refused for a fixed array member"] = False
            except Exception:  # noqa: BLE001
                facts["empty list refused for a fixed array member"] = (v.dumps() == bytes([1, 2, 3, 4])
                                                                        and list(v.c) == [1, 2, 3, 4])
        except Exception as e:  # noqa: BLE001
            ctx.violation("defaults", f"defaults-and-falsy-values-raise:{type(e).__name__}", dict(det, error=lib.exc_sig(e)))
            continue
        bad = sorted(k for k, ok in facts.items() if not ok)
        if bad:
            ctx.violation("defaults", "union-default-or-falsy-value-handling-differs", dict(det, failed=bad))
        else:
            ctx.event("defaults_and_falsy_values_checked")


def assign_back(ctx):
    """An array member edited in place is committed by assigning it to the member again (the very same list object,
    or a fresh list equal to it): the assignment must rebuild the union although the value 'did not change'."""
    for endian in "<>":
        text = "union u { uint32 a; uint16 arr[2]; uint8 raw[4]; };"
        for form in ("same-object", "equal-list"):
            ctx.evaluation(("assign-back", endian, form))
            ctx.cell("route:array-assigned-back")
            try:
                cs = lib.load(text, endian, False, False)
                o = cs.u(bytes.fromhex("11223344"))
                if form == "same-object":
                    arr = o.arr
                    arr[1] = 0xBEEF
                    o.arr = arr
                else:
                    o.arr[1] = 0xBEEF
                    o.arr = [int(o.arr[0]), 0xBEEF]
                tail = bytes.fromhex("efbe" if endian == "<" else "beef")
                want = bytes.fromhex("1122") + tail
                got = (o.dumps(), [int(x) for x in o.raw], int(o.a))
                exp = (want, list(want), int.from_bytes(want, "little" if endian == "<" else "big"))
            except Exception as e:  # noqa: BLE001
                ctx.violation("assign-back", f"assigning-an-edited-array-back-raises:{type(e).__name__}",
                              {"text": text, "error": lib.exc_sig(e), "workload": "assign-back"})
                continue
            if got != exp:
                ctx.violation("assign-back", "array-assigned-back-after-in-place-edit-does-not-reach-the-union",
                              {"text": text, "endian": endian, "form": form, "got": repr(got), "want": repr(exp),
                               "workload": "assign-back"})
            else:
                ctx.event("assign_back_checked")


def bitfield_members(ctx, rng, n):
    """Unions with bit-field members next to a plain member of the same storage type: every bit-field member is the first
    `bits` bits of the unit at the union's start (from the low end in little endian, from the high end in big endian);
    histories of assignments to any member, directly and through `parent.u[i]`: after each step every member equals
    the view of the shadow unit, the buffer holds it, the rest of the unit is kept (own bit-slicing reference)."""
    for it in range(n):
        st, size = rng.choice([("uint8", 1), ("uint16", 2), ("uint32", 4), ("uint64", 8)])
        total = size * 8
        endian = rng.choice("<>")
        widths = [rng.randint(1, total - 1) for _ in range(rng.randint(1, 3))]
        members = "".join(f" {st} f{j} : {w};" for j, w in enumerate(widths))
        text = f"union U {{{members} {st} raw; }};\nstruct P {{ uint8 h; U u[2]; uint8 t; }};"
        det = {"text": text, "endian": endian, "workload": "bitfield-members"}
        ctx.cell("union-with-bit-field-members:" + endian)
        try:
            cs = lib.load(text, endian, False, rng.random() < 0.5)
            bo = "little" if endian == "<" else "big"
            units = [rng.getrandbits(total) | 1 << (total - 1) | 1, rng.getrandbits(total)]
            p = cs.P(bytes([7]) + b"".join(u.to_bytes(size, bo) for u in units) + bytes([9]))
            top = cs.U(units[0].to_bytes(size, bo))
        except Exception as e:  # noqa: BLE001
            ctx.violation("coherence", f"union-with-bit-field-members-raises:{type(e).__name__}", dict(det, error=lib.exc_sig(e)))
            continue

        def view(unit, w):
            return unit & ((1 << w) - 1) if endian == "<" else unit >> (total - w)

        def put(unit, w, v):
            if endian == "<":
                return (unit & ~((1 << w) - 1)) | v
            return (unit & ((1 << (total - w)) - 1)) | (v << (total - w))

        hist = []
        targets = [("top", top, [units[0]], 0), ("parent.u[0]", p.u[0], units, 0), ("parent.u[1]", p.u[1], units, 1)]

        def check(step):
            for name, u, store, k in targets:
                unit = store[k]
                got = [int(getattr(u, f"f{j}")) for j in range(len(widths))] + [int(u.raw), bytes(u._buf)]
                want = [view(unit, w) for w in widths] + [unit, unit.to_bytes(size, bo)]
                if got != want:
                    ctx.violation("coherence", "bit-field-member-of-a-union-not-coherent-with-the-union-bytes",
                                  dict(det, where=name, step=step, history=hist, got=repr(got), want=repr(want)))
                    return False
            return True

        ctx.evaluation(("bitfield-members", text, endian))
        if not check("after-parse"):
            continue
        for step in range(rng.randint(3, 8)):
            name, u, store, k = rng.choice(targets)
            j = rng.randrange(len(widths) + 1)
            try:
                if j == len(widths):
                    v = rng.getrandbits(total)
                    u.raw = v
                    store[k] = v
                    hist.append((name, "raw", v))
                else:
                    v = rng.choice([0, 1, (1 << widths[j]) - 1, rng.getrandbits(widths[j])])
                    setattr(u, f"f{j}", v)
                    store[k] = put(store[k], widths[j], v)
                    hist.append((name, f"f{j}", v))
            except Exception as e:  # noqa: BLE001
                ctx.violation("assign", f"assignment-raises:{type(e).__name__}", dict(det, history=hist, error=lib.exc_sig(e)))
                break
            ctx.evaluation(("bitfield-members", text, endian, repr(hist)))
            ctx.event("assignments")
            if not check(f"after-assignment-{step}"):
                break
        else:
            ctx.event("bitfield_member_histories")


def run(ctx):
    mon = UnionMonitor(ctx)
    mon.install()
    try:
        if ctx.shard == 0:
            witnesses(ctx)
            held_reference(ctx)
            assign_back(ctx)
            array_element_structures(ctx)
            defaults_and_falsy_values(ctx)
        if ctx.shard % 4 == 1:
            offset_unions(ctx, 12 if not ctx.thorough else 150)
        if ctx.shard % 4 == 2:
            bitfield_members(ctx, ctx.rng("bitfield-members"), 12 if not ctx.thorough else 150)
        for i in range(N_CASES[ctx.tier]):
            if ctx.out_of_time():
                break
            rng = ctx.rng("case", i)
            case, upath = make_union_case(rng)
            check_case(ctx, case, upath, rng)
            if i < 2:
                ctx.sample({"text": case["text"], "union_path": upath})
    finally:
        mon.uninstall()


def replay(ctx, detail):
    if detail.get("workload") == "held-reference":
        held_reference(ctx)
        return
    if detail.get("workload") == "nested-shapes":
        witnesses(ctx)
        return
    if detail.get("workload") == "defaults-and-falsy":
        defaults_and_falsy_values(ctx)
        return
    if detail.get("workload") == "array-element-structures":
        array_element_structures(ctx)
        return
    if detail.get("workload") == "assign-back":
        assign_back(ctx)
        return
    import random

    if "ast" not in detail:
        print("union monitor record:", detail)
        ctx.violation("union-monitor", "replayed-from-record", detail)
        return
    case = engine.case_from_detail(detail)
    print("definition:\n" + case["text"])
    print({k: v for k, v in detail.items() if k not in ("ast", "text")})
    mon = UnionMonitor(ctx)
    mon.install()
    try:
        for seed in range(10):
            check_case(ctx, case, detail.get("upath", []), random.Random(seed))
    finally:
        mon.uninstall()
