"""C12  Enums and flags preserve every underlying value and number members like C."""
from __future__ import annotations

import enum as _enum
import io

from .. import gen, lib, model
from ..gen import ALL_INTS

N_DECLS = {"quick": 14, "thorough": 260}
BASES = ["uint8", "int8", "uint16", "int16", "uint32", "int32", "uint64", "int64", "uint24", "int24", "uint48",
         "int48", "uint128", "int128"]


def decl(rng, flag, base, idx, legacy=False):
    """-> (text, name, expected members [(name, value)]) following the statement's numbering rule."""
    size, signed = ALL_INTS[base]
    hi = (1 << (size * 8 - (1 if signed else 0))) - 1
    name = f"{'F' if flag else 'E'}{idx}"
    members, src = [], []
    nextval = 1 if flag else 0
    for i in range(rng.randint(1, 7)):
        mname = f"{name}_m{i}"
        x = rng.random()
        if x < 0.4 or not members:
            val, text = nextval, mname
            if x < 0.12:
                val = rng.choice([0, 1, 2, 5, 7, 0x10]) if not flag else rng.choice([1, 2, 4, 3, 0x10])
                text = f"{mname} = {val}"
        elif x < 0.75:
            val = rng.choice([0, 1, 2, 3, 5, 8, 10, 16, 100, 127]) if not flag else rng.choice(
                [1, 2, 4, 8, 16, 32, 64, 3, 5, 6, 12, 0x18, 0x41])
            text = f"{mname} = {rng.choice([str(val), hex(val), '0' + oct(val)[2:] if val else '0', bin(val)])}"
            if rng.random() < 0.25 and members:
                val = rng.choice(members)[1]  # duplicate value
                text = f"{mname} = {val}"
        elif True:   # (expressions over earlier members were left out for the legacy parser until repair 110)
            prev, pv = rng.choice(members)
            form = rng.random()
            if flag:
                k = rng.randint(0, 3)
                val, text = pv << k, f"{mname} = {prev} << {k}"
                if form < 0.3 and len(members) > 1:
                    p2, v2 = rng.choice(members)
                    val, text = pv | v2, f"{mname} = {prev} | {p2}"
            else:
                k = rng.randint(0, 4)
                val, text = pv + k, f"{mname} = {prev} + {k}"
                if form < 0.3:
                    val, text = pv * 2 + 1, f"{mname} = {prev} * 2 + 1"
                elif form < 0.45:
                    val, text = (pv + k) & 0x7F, f"{mname} = ({prev} + {k}) & 0x7F"
        else:
            continue
        if val > hi or val < 0:
            break
        members.append((mname, val))
        src.append(text)
        nextval = (1 << val.bit_length()) if flag else val + 1
        if flag and val == 0:
            nextval = 1
    if not members:
        members, src = [(f"{name}_m0", 1 if flag else 0)], [f"{name}_m0"]
    sep = rng.choice([", ", ",\n  ", " ,"])
    body = sep.join(src) + (rng.choice(["", ","]) if not legacy else "")
    kw = "flag" if flag else "enum"
    if base == "uint32" and rng.random() < 0.3:
        text = f"{kw} {name} {{ {body} }};"
    else:
        text = f"{kw} {name} : {base} {{ {body} }};"
    if not legacy and rng.random() < 0.3:
        # a constant that happens to have the name of a member: inside the declaration the member is meant
        shadowed = rng.choice(members)
        text = f"#define {shadowed[0]} {shadowed[1] + rng.choice([1, 7, 64])}\n" + text
    return text, name, members


def underlying_values(rng, size, signed, members, n):
    bits = size * 8
    lo, hi = (-(1 << (bits - 1)), (1 << (bits - 1)) - 1) if signed else (0, (1 << bits) - 1)
    if size == 1:
        return list(range(lo, hi + 1))
    vals = {lo, hi, 0, 1, hi - 1, lo + 1, hi // 2} | {v for _, v in members}
    mx = max(v for _, v in members)
    vals |= {mx + 1, mx + 2, mx | 1, (mx << 1) & hi}
    allm = 0
    for _, v in members:
        allm |= v
    vals |= {allm, allm + 1 if allm < hi else allm}
    if signed:
        vals |= {-1, -2}
    for _ in range(n):
        vals.add(rng.randint(lo, hi))
    return sorted(v for v in vals if lo <= v <= hi)


def check_decl(ctx, rng, flag, base, idx):
    size, signed = ALL_INTS[base]
    text, name, members = decl(rng, flag, base, idx)
    other_text, other_name, other_members = decl(rng, flag, base, idx + 10000)
    # a declaration of the other kind (flag for an enum, enum for a flag): its members are never equal either
    xbase = base if not signed else {1: "uint8", 2: "uint16", 3: "uint24", 4: "uint32", 6: "uint48", 8: "uint64",
                                     16: "uint128"}[size]
    cross_text, cross_name, cross_members = decl(rng, not flag, xbase, idx + 20000)
    full = text + "\n" + other_text + "\n" + cross_text + \
        f"\nstruct S {{ uint8 lead; {name} e; {name} arr[3]; uint8 tail; }};\n"
    bitw = min(size * 8, max(v for _, v in members).bit_length() + 1) or 1
    if size * 8 - bitw > 0:
        full += f"struct B {{ {name} x : {bitw}; {base} rest : {size * 8 - bitw}; uint8 tail; }};\n"
        has_b = True
    else:
        has_b = False
    kind = "flag" if flag else "enum"
    for endian in ("<", ">"):
        for compiled in (True, False):
            cfgd = {"endian": endian, "compiled": compiled}
            try:
                cs = lib.load(full, endian, False, compiled)
            except Exception as e:  # noqa: BLE001
                ctx.violation("load", f"declaration-rejected:{type(e).__name__}", {"text": full, "error": lib.exc_sig(e)})
                return
            E = getattr(cs, name)
            O = getattr(cs, other_name)
            ctx.evaluation((text, endian, compiled))
            ctx.cell(f"{kind}:{base}", f"{kind}:{'compiled' if compiled else 'interpreted'}")
            # numbering
            got = [(k, int(v.value)) for k, v in E.__members__.items()]
            if got != members:
                ctx.violation("numbering", f"{kind}-members-differ-from-C-numbering",
                              {"text": text, "got": got, "want": members})
                return
            order = "big" if endian == ">" else "little"
            for v in underlying_values(rng, size, signed, members, 12 if not ctx.thorough else 200):
                raw = v.to_bytes(size, order, signed=signed)
                ctx.evaluation((text, endian, compiled, v))
                neg_flag = flag and signed and v < 0

                def viol(sig, **kw):
                    if neg_flag:
                        sig = "K2:flag-over-signed-type-folds-negative-values"
                    ctx.violation("value", sig, dict({"text": full, "cfg": cfgd, "underlying": v, "raw": raw.hex()}, **kw))

                try:
                    a = E(raw)
                    b = E(io.BytesIO(raw + b"\x99"))
                    arr = E[2](raw + raw)
                    s = cs.S(b"\x07" + raw * 4 + b"\x09")
                except Exception as e:  # noqa: BLE001
                    viol(f"parse-raises:{type(e).__name__}", error=lib.exc_sig(e))
                    continue
                objs = [a, b, arr[0], arr[1], s.e, s.arr[0], s.arr[2]]
                if not all(isinstance(o, E) for o in objs):
                    viol("parsed-object-is-not-an-instance-of-its-enum", types=[type(o).__name__ for o in objs])
                    continue
                if any(int(o.value) != v for o in objs):
                    viol("underlying-value-not-preserved", got=[int(o.value) for o in objs])
                    continue
                ctx.event("values_preserved")
                ctx.event("member_values" if any(v == mv for _, mv in members) else "unknown_values")
                # dumping writes the integer back through the underlying type
                try:
                    d1, d2, d3 = a.dumps(), E[2].dumps(arr), s.dumps()
                except Exception as e:  # noqa: BLE001
                    viol(f"dump-raises:{type(e).__name__}", error=lib.exc_sig(e))
                    continue
                if d1 != raw or d2 != raw + raw or d3 != b"\x07" + raw * 4 + b"\x09":
                    viol("dump-does-not-write-the-underlying-value-back", got=[d1.hex(), d2.hex(), d3.hex()])
                    continue
                # equality / hash
                if not (a == v and v == a):
                    viol("member-not-equal-to-its-integer-value")
                if not (a == b and hash(a) == hash(b) and a == s.e and hash(a) == hash(s.e) and not (a != b)):
                    viol("two-parses-of-one-value-unequal-or-hash-differently")
                # however the value was read (scalar, array entry, field, array field) it is the same object kind:
                # equal, same hash, same name (a member stays that member, also the zero-valued one)
                odd = [i for i, o in enumerate(objs) if not (o == a and hash(o) == hash(a) and o.name == a.name)]
                if odd:
                    viol("array-entry-or-field-differs-from-scalar-parse-in-hash-or-name", which=odd,
                         names=[repr(o.name) for o in objs])
                for mname, mv in members:
                    if mv == v and not (a == E[mname]):
                        viol("not-equal-to-same-class-member-with-that-value", member=mname)
                    elif mv == v and hash(a) != hash(E[mname]):
                        # equal objects hash equally, also when several members share the value
                        viol("equal-members-hash-differently", member=mname)
                try:
                    o = O(raw)
                    if a == o or o == a:
                        viol("equal-to-a-member-of-another-enum")
                except Exception:  # noqa: BLE001
                    pass
                for oname, ov in other_members:
                    if ov == v and (a == O[oname] or O[oname] == a):
                        viol("equal-to-a-member-of-another-enum", member=oname)
                if v >= 0:
                    X = getattr(cs, cross_name)
                    try:
                        x = X(v)
                        ctx.event("cross_kind_comparisons")
                        if a == x or x == a or not (a != x):
                            viol("equal-to-a-member-of-another-enum:enum-vs-flag", other=repr(x))
                    except Exception:  # noqa: BLE001
                        pass
                # an object made from a member of another enum / flag (explicit conversion) is the object a parse of
                # that integer gives: integer value, name, equality, hash
                for other in (O, getattr(cs, cross_name)):
                    try:
                        src = other(v)
                        conv = E(src)
                    except Exception:  # noqa: BLE001
                        continue
                    ctx.event("conversions_from_another_enum")
                    if isinstance(conv.value, _enum.Enum) or int(conv.value) != int(src.value) or \
                            (int(src.value) == v and not (conv == a and hash(conv) == hash(a) and conv.name == a.name)):
                        viol("conversion-from-a-member-of-another-enum-differs-from-a-parse-of-its-value",
                             source=repr(src), got=repr(conv), value=repr(conv.value), name=repr(conv.name))
                # bit-field
                if has_b and 0 <= v < (1 << bitw):
                    unit = v if endian == "<" else v << (size * 8 - bitw)
                    rawu = unit.to_bytes(size, order)
                    try:
                        bo = cs.B(rawu + b"\x01")
                        if not isinstance(bo.x, E) or int(bo.x.value) != v:
                            viol("bit-field-enum-value-not-preserved", got=repr(bo.x))
                        elif bo.dumps() != rawu + b"\x01":
                            viol("bit-field-enum-dump-differs", got=bo.dumps().hex())
                        else:
                            ctx.event("bitfield_values")
                    except Exception as e:  # noqa: BLE001
                        viol(f"bit-field-enum-raises:{type(e).__name__}", error=lib.exc_sig(e))
    ctx.sample({"declaration": text, "members": members}, limit=2)


def legacy_numbering(ctx, rng, n):
    for i in range(n):
        flag = rng.random() < 0.5
        base = rng.choice(["uint8", "uint16", "uint32", "int32"])
        text, name, members = decl(rng, flag, base, 500 + i, legacy=True)
        ctx.evaluation(("legacy", text))
        ctx.cell("legacy-parser")
        try:
            cs = lib.cstruct()
            cs.load(text + "\n", deftype=lib.cstruct.DEF_LEGACY)
            got = [(k, int(v.value)) for k, v in getattr(cs, name).__members__.items()]
        except Exception as e:  # noqa: BLE001
            ctx.violation("numbering", f"legacy-parser-rejects:{type(e).__name__}", {"text": text, "error": lib.exc_sig(e)})
            continue
        if got != members:
            ctx.violation("numbering", "legacy-parser-members-differ-from-C-numbering",
                          {"text": text, "got": got, "want": members})


def anonymous(ctx):
    text = "enum : uint16 { AN_A, AN_B = 5, AN_C };\nstruct T { uint8 a[AN_C]; };"
    ctx.evaluation(("anonymous", text))
    ctx.cell("anonymous-enum")
    cs = lib.load(text)
    got = {k: int(cs.consts[k]) for k in ("AN_A", "AN_B", "AN_C")}
    if got != {"AN_A": 0, "AN_B": 5, "AN_C": 6} or len(cs.T) != 6:
        ctx.violation("numbering", "anonymous-enum-constants", {"text": text, "got": got, "len": len(cs.T)})


def anonymous_constants(ctx, rng, n):
    """Every member of an anonymous enum or flag is a constant of its value -- the zero member, aliases, masks and
    combinations of a flag included -- usable in the value expressions of later enums and in array sizes."""
    for it in range(n):
        flag = rng.random() < 0.6
        base = rng.choice(["uint8", "uint16", "uint32", "int32", "uint64"])
        pre = f"AC{it}_"
        members, vals = [], {}
        if flag:
            pool = [("NONE", "0", 0), ("R", "1", 1), ("W", "2", 2), ("X", "0x4", 4), ("RW", f"{pre}R | {pre}W", 3),
                    ("MASK", "0x7", 7), ("ALIAS", f"{pre}W", 2), ("HI", "0x40", 0x40), ("ALL", f"{pre}MASK | {pre}HI", 0x47)]
            chosen = [m for m in pool if rng.random() < 0.75 or m[0] in ("R", "W", "MASK", "HI")]
        else:
            pool = [("ZERO", "0", 0), ("ONE", None, 1), ("FIVE", "5", 5), ("SIX", None, 6), ("DUP", f"{pre}FIVE", 5),
                    ("SUM", f"{pre}FIVE + {pre}ONE", 6), ("NEXT", None, 7), ("BIG", "0x30", 0x30)]
            chosen = pool[:3] + [m for m in pool[3:] if rng.random() < 0.8]
            # implicit members continue from the previous one: recompute
        prev = -1
        for nm, expr, v in chosen:
            if expr is None:
                v = prev + 1 if not flag else v
            else:
                v = None
            members.append((pre + nm, expr))
        sep = rng.choice([", ", ",\n    "])
        body = sep.join(f"{nm} = {e}" if e is not None else nm for nm, e in members)
        text = f"{'flag' if flag else 'enum'} : {base} {{ {body} }};\n"
        ctx.evaluation(("anonymous-constants", text))
        ctx.cell("anonymous-constants:" + ("flag" if flag else "enum"))
        det = {"text": text, "workload": "anonymous-constants"}
        try:
            cs = lib.load(text)
            # reference values: evaluate in order with Python over what was defined before
            env, prev = {}, None
            for nm, e in members:
                if e is None:
                    val = (0 if prev is None else prev + 1) if not flag else (1 if prev is None else 1 << prev.bit_length())
                else:
                    val = eval(e, {}, dict(env))  # noqa: S307 - our own literal expressions
                env[nm] = prev = val
            got = {}
            for nm in env:
                if nm not in cs.consts:
                    got[nm] = "missing"
                else:
                    got[nm] = int(cs.consts[nm])
            if got != env:
                ctx.violation("numbering", "anonymous-enum-constants", dict(det, got=got, want=env))
                continue
            # ... and every one of them can be used afterwards
            nm_use = rng.choice(list(env))
            later = f"enum Later{it} : uint64 {{ L_FIRST{it} = {nm_use} + 1, L_NEXT{it} }};\nstruct U{it} {{ uint8 d[{nm_use}]; uint8 e; }};\n"
            cs.load(later)
            L = getattr(cs, f"Later{it}")
            if [int(m.value) for m in L.__members__.values()] != [env[nm_use] + 1, env[nm_use] + 2] or \
                    len(getattr(cs, f"U{it}")) != env[nm_use] + 1 or int(getattr(cs, nm_use)) != env[nm_use]:
                ctx.violation("numbering", "anonymous-enum-constant-unusable-or-wrong-in-a-later-definition",
                              dict(det, later=later, constant=nm_use, want=env[nm_use]))
                continue
            ctx.event("anonymous_constants_checked", len(env))
        except Exception as e:  # noqa: BLE001
            ctx.violation("numbering", f"anonymous-enum-constants-raise:{type(e).__name__}", dict(det, error=lib.exc_sig(e)))


def enum_over_enum(ctx):
    """An enum or flag whose underlying type is an enum itself: every way to get a value -- the type called with bytes,
    a stream or an integer, a structure field, an array element -- gives equal objects with equal hashes whose value is
    the plain integer and whose name is the member's."""
    import io

    text = ("enum E : uint8 { A = 1 };\nenum U : E { P = 1, Q = 9 };\nflag G : E { X = 1, Y = 2 };\n"
            "struct s { U u; G g; U arr[2]; };")
    for compiled in (True, False):
        for endian in "<>":
            ctx.evaluation(("enum-over-enum", compiled, endian))
            ctx.cell("enum-over-enum")
            det = {"text": text, "compiled": compiled, "endian": endian, "workload": "enum-over-enum"}
            try:
                cs = lib.load(text, endian, False, compiled)
                for T, raw, field, member in ((cs.U, 9, "u", cs.U.Q), (cs.U, 7, "u", None), (cs.G, 3, "g", None), (cs.G, 2, "g", cs.G.Y)):
                    o = cs.s(bytes([raw if field == "u" else 1, raw if field == "g" else 1, raw if field == "u" else 1, 1]))
                    vals = {"bytes": T(bytes([raw])), "stream": T(io.BytesIO(bytes([raw]))), "int": T(raw), "field": getattr(o, field),
                            "reads": T.reads(bytes([raw]))}
                    if field == "u":
                        vals["array element"] = o.arr[0]
                    facts = {k: (type(v.value) is int, int(v.value), v.name, hash(v) == hash(vals["int"]), v == vals["int"],
                                 v.dumps()) for k, v in vals.items()}
                    want = (True, raw, member.name if member is not None else vals["int"].name, True, True, bytes([raw]))
                    bad = {k: f for k, f in facts.items() if f != want}
                    if member is not None and {member: 1}.get(vals["bytes"]) != 1:
                        bad["as dict key"] = "parsed value does not find its member"
                    if bad:
                        ctx.violation("value", "enum-over-an-enum-parsed-directly-differs-from-the-same-value-obtained-otherwise",
                                      dict(det, type=T.__name__, raw=raw, differing=repr(bad), want=repr(want)))
                    else:
                        ctx.event("enum_over_enum_checked")
            except Exception as e:  # noqa: BLE001
                ctx.violation("value", f"enum-over-an-enum-raises:{type(e).__name__}", dict(det, error=lib.exc_sig(e)))


def property_named_members(ctx):
    """Members called `name` or `value` (legal C identifiers; members have properties of these names), alone, as
    aliases of an earlier member and as the aliased one: the declaration loads, every member keeps its own name and
    integer value, parsed values find their member."""
    forms = [("enum", "A = 0, value = 0", {"A": 0, "value": 0}), ("flag", "A = 1, value = 1", {"A": 1, "value": 1}),
             ("enum", "A = 0, name = 0, B = 5", {"A": 0, "name": 0, "B": 5}), ("flag", "A = 1, name = 1, B = 2", {"A": 1, "name": 1, "B": 2}),
             ("enum", "name = 3, value = 4, B = 5", {"name": 3, "value": 4, "B": 5}), ("enum", "value, name, C = value", {"value": 0, "name": 1, "C": 0}),
             ("enum", "name = 2, Z = 2, value = 2", {"name": 2, "Z": 2, "value": 2})]
    for kw, body, want in forms:
        for base in ("uint8", "uint32"):
            text = f"{kw} X : {base} {{ {body} }};\nstruct S {{ X x; }};"
            ctx.evaluation(("property-named-members", text))
            ctx.cell("members-named-name-or-value")
            det = {"text": text, "workload": "property-named-members"}
            try:
                cs = lib.load(text)
                X = cs.X
                got = {k: int(v.value) for k, v in X.__members__.items()}
                names = {k: v.name for k, v in X.__members__.items()}
                size = len(X)
                facts = {"members": got == want, "names": names == {k: k for k in want}}
                for k, v in want.items():
                    raw = v.to_bytes(size, "little")
                    p = cs.S(raw).x
                    facts[f"parsed {k}"] = int(p.value) == v and p == X[k] and hash(p) == hash(X[k]) and p.dumps() == raw \
                        and isinstance(p.name, str) and isinstance(str(p), str) and isinstance(repr(p), str)
                unknown = X(0x40)
                facts["unknown value"] = int(unknown.value) == 0x40 and unknown.dumps() == (0x40).to_bytes(size, "little")
            except RecursionError as e:
                ctx.violation("value", "member-named-like-a-member-property-breaks-the-enum", dict(det, error="RecursionError"))
                continue
            except Exception as e:  # noqa: BLE001
                ctx.violation("value", f"member-named-like-a-member-property-raises:{type(e).__name__}", dict(det, error=lib.exc_sig(e)))
                continue
            bad = [k for k, ok in facts.items() if not ok]
            if bad:
                ctx.violation("value", "member-named-like-a-member-property-breaks-the-enum", dict(det, failing=bad, names=repr(names), members=got))
            else:
                ctx.event("property_named_members_checked")


def dumps_across_endian_switches(ctx):
    """Dumping writes the integer through the underlying type in the byte order the cstruct object has *now*: the same
    member (and unknown value) dumped before and after every switch, as a scalar, in a structure, in an array."""
    for base, size in (("uint16", 2), ("uint32", 4), ("int24", 3), ("uint64", 8), ("int128", 16)):
        for kw in ("enum", "flag"):
            text = f"{kw} K : {base} {{ ONE = 1, BIG = 0x0102, TOP = 0x4000 }};\nstruct S {{ K k; uint16 plain; K arr[2]; }};"
            for compiled in (True, False):
                ctx.evaluation(("dumps-across-switches", base, kw, compiled))
                ctx.cell("dumps-across-endian-switches")
                det = {"text": text, "compiled": compiled, "workload": "dumps-across-endian-switches"}
                try:
                    cs = lib.load(text, "<", False, compiled)
                    bad = []
                    for step, endian in enumerate(("<", ">", "<", "!", "<")):
                        cs.endian = endian
                        bo = "little" if endian == "<" else "big"
                        for v in (cs.K.ONE, cs.K.BIG, cs.K(0x0304), cs.K.TOP):
                            want = int(v.value).to_bytes(size, bo)
                            o = cs.S(k=v, plain=0x0506, arr=[v, cs.K.ONE])
                            wo = want + (0x0506).to_bytes(2, bo) + want + (1).to_bytes(size, bo)
                            if v.dumps() != want or cs.K.dumps(v) != want or o.dumps() != wo or cs.K.reads(v.dumps()) != v \
                                    or cs.S(o.dumps()) != o:
                                bad.append((step, endian, repr(v), v.dumps().hex(), o.dumps().hex()))
                except Exception as e:  # noqa: BLE001
                    ctx.violation("value", f"dump-after-endian-switch-raises:{type(e).__name__}", dict(det, error=lib.exc_sig(e)))
                    continue
                if bad:
                    ctx.violation("value", "dump-does-not-follow-the-current-byte-order", dict(det, failing=repr(bad[:4])))
                else:
                    ctx.event("dumps_across_switches_checked")


def namesakes_and_zero_ended_arrays(ctx):
    """(a) Two enums (or flags) that merely share a name -- the same text loaded into two cstruct objects, other members
    under the same name, two anonymous enums of one object -- are different enums: their members never compare equal,
    whatever their values, and a parse of one is never equal to a member of the other.
    (b) A null-terminated array of enum / flag values writes every entry it is given and then the terminator, also when
    the last entry is a zero-valued member, `E(0)` or a plain 0."""
    for compiled in (True, False):
        for kw in ("enum", "flag"):
            ctx.evaluation(("namesakes", compiled, kw))
            ctx.cell("namesake-enums")
            det = {"compiled": compiled, "kind": kw, "workload": "namesakes"}
            try:
                a = lib.load(f"{kw} Kind : uint16 {{ RED = 1, BLUE = 2 }};\n{kw} : uint16 {{ ALPHA = 4 }};\n{kw} : uint16 {{ OMEGA = 4 }};", "<", False, compiled)
                b = lib.load(f"{kw} Kind : uint16 {{ CIRCLE = 1, SQUARE = 2 }};", "<", False, compiled)
                c = lib.load(f"{kw} Kind : uint16 {{ RED = 1, BLUE = 2 }};", "<", False, compiled)
                pa, pb = a.Kind(b"\x01\x00"), b.Kind(b"\x01\x00")
                facts = {
                    "other members, same name": (a.Kind.RED == b.Kind.CIRCLE, a.Kind.RED != b.Kind.CIRCLE),
                    "same text, other object": (a.Kind.RED == c.Kind.RED, a.Kind.BLUE != c.Kind.BLUE),
                    "parsed values": (pa == pb, pa == b.Kind.CIRCLE, pa == a.Kind.RED, pa == 1),
                    "anonymous": (a.ALPHA == a.OMEGA, a.ALPHA != a.OMEGA, a.ALPHA == 4),
                    "in a set": len({a.Kind.RED, b.Kind.CIRCLE, c.Kind.RED}),
                }
                want = {"other members, same name": (False, True), "same text, other object": (False, True),
                        "parsed values": (False, False, True, True), "anonymous": (False, True, True), "in a set": 3}
            except Exception as e:  # noqa: BLE001
                ctx.violation("equality", f"namesake-enums-raise:{type(e).__name__}", dict(det, error=lib.exc_sig(e)))
                continue
            bad = {k: (facts[k], want[k]) for k in want if facts[k] != want[k]}
            if bad:
                ctx.violation("equality", "members-of-different-enums-with-the-same-name-compare-equal", dict(det, differing=repr(bad)))
            else:
                ctx.event("namesakes_checked")
            for endian in "<>":
                bo = "little" if endian == "<" else "big"
                ctx.evaluation(("zero-ended", compiled, kw, endian))
                ctx.cell("zero-ended-null-terminated-arrays")
                try:
                    cs = lib.load(f"{kw} Op : uint16 {{ NOP = 0, PUSH = 1, POP = 2 }};\nstruct prog {{ uint8 n; Op code[]; uint8 t; }};", endian, False, compiled)
                    E = cs.Op
                    problems = []
                    for lst in ([E.PUSH, E.NOP], [E.PUSH, E(0)], [E.POP, 0], [E.NOP], [], [E.PUSH, E.NOP, E.POP], [1, 2]):
                        ints = [int(getattr(x, "value", x)) for x in lst]
                        want_b = b"".join(v.to_bytes(2, bo) for v in ints) + b"\x00\x00"
                        got = (E[None].dumps(list(lst)), cs.prog(n=9, code=list(lst), t=0xEE).dumps())
                        if got != (want_b, b"\x09" + want_b + b"\xEE"):
                            problems.append((repr(lst), got[0].hex(), got[1].hex(), want_b.hex()))
                except Exception as e:  # noqa: BLE001
                    ctx.violation("dump", f"zero-ended-array-raises:{type(e).__name__}", dict(det, endian=endian, error=lib.exc_sig(e)))
                    continue
                if problems:
                    ctx.violation("dump", "null-terminated-enum-array-not-written-as-entries-plus-terminator", dict(det, endian=endian, problems=repr(problems)[:600]))
                else:
                    ctx.event("zero_ended_arrays_checked")


def run(ctx):
    rng = ctx.rng("decls")
    if ctx.shard == 4:
        dumps_across_endian_switches(ctx)
    if ctx.shard == 2:
        enum_over_enum(ctx)
    if ctx.shard == 3:
        property_named_members(ctx)
    if ctx.shard == 5:
        namesakes_and_zero_ended_arrays(ctx)
    if ctx.shard == 1:
        anonymous_constants(ctx, ctx.rng("anonymous-constants"), 30 if not ctx.thorough else 400)
    if ctx.shard == 0:
        check_decl(ctx, ctx.rng("pinned-k2"), True, "int8", 9000)  # pinned witness of the open finding K2
        ctx.cell("pinned-witnesses")
        anonymous(ctx)
        legacy_numbering(ctx, ctx.rng("legacy"), 40 if not ctx.thorough else 800)
    for i in range(N_DECLS[ctx.tier]):
        if ctx.out_of_time():
            break
        base = BASES[(i + ctx.shard) % len(BASES)]
        check_decl(ctx, rng, flag=(i + ctx.shard // 2) % 2 == 0, base=base, idx=i)


def replay(ctx, detail):
    print("record:", detail)
    import random

    if "cfg" not in detail:
        anonymous(ctx)
        legacy_numbering(ctx, ctx.rng("legacy"), 40)
        anonymous_constants(ctx, ctx.rng("anonymous-constants"), 30)
        enum_over_enum(ctx)
        property_named_members(ctx)
        dumps_across_endian_switches(ctx)
        namesakes_and_zero_ended_arrays(ctx)
        return
    cs = lib.load(detail["text"], detail["cfg"]["endian"], False, detail["cfg"]["compiled"])
    print({n: t for n, t in cs.typedefs.items() if isinstance(t, type) and issubclass(t, _enum.Enum)})
    ctx.violation("value", detail.get("sig", "replayed-from-record"), detail)
