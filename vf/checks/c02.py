"""C02  Byte fidelity: parse-then-dump reproduces every data-carrying input byte."""
from __future__ import annotations

import io

from .. import engine, gen, lib, model
from ..engine import case_detail, outcome

N_CASES = {"quick": 110, "thorough": 1500}


def gen_opts(rng, thorough):
    o = dict(dyn_unions=False)
    if thorough:
        o.update(max_fields=rng.choice([6, 9, 12]), max_depth=3, max_len=rng.choice([4, 9]))
        x = rng.random()
        if x < 0.08:
            o.update(max_fields=40, max_depth=1)        # wide structures (two-digit counts in struct formats)
        elif x < 0.16:
            o.update(max_len=300, max_depth=1, max_fields=5)   # long arrays (block sizes beyond 256 bytes)
    elif rng.random() < 0.04:
        o.update(max_fields=30, max_depth=1)
    return o


def judge(ctx, case, cfgd, cfg, T, inp, origin):
    """Parse inp with the real reader, dump the result, compare with the input under the model's data-bit mask."""
    top = case["top"]
    r = outcome(T, inp)
    key = (case["text"], tuple(sorted(cfgd.items())), inp.hex())
    if r[0] == "err":
        ctx.event(f"parse_error:{origin}")
        ctx.evaluation(key, nontrivial=False)
        return
    obj, c = r[1], r[2]
    try:
        vL = lib.norm(obj, top)
    except lib.NormError as e:
        ctx.violation("norm", "unexpected-value-kind", case_detail(case, cfg=cfgd, data=inp, error=str(e)))
        return
    ctx.evaluation(key)
    if model.has_nan(vL):
        ctx.event("skipped:nan")
        return

    def viol(kind, sig, **kw):
        ctx.violation(kind, sig, case_detail(case, cfg=cfgd, data=inp, consumed=c, origin=origin, **kw))

    try:
        d = obj.dumps()
    except Exception as e:  # noqa: BLE001
        viol("dump-raises", f"dumps-of-parsed-value-raises:{type(e).__name__}", error=lib.exc_sig(e))
        return
    # every way of dumping gives these bytes: instance and class level, to a fresh stream and behind / onto other bytes
    # (at a multiple of 16: an aligned structure pads on the absolute position), and again
    try:
        import io

        forms = {"again": obj.dumps(), "class-dumps": T.dumps(obj), "bytes()": bytes(obj)}
        s1 = io.BytesIO()
        n1 = obj.write(s1)
        forms["write"] = s1.getvalue()
        held = bytes([0xEE]) * (32 + len(d) + 8)
        s2 = io.BytesIO(held)
        s2.seek(32)
        n2 = T.write(s2, obj)
        forms["class-write-onto-held-bytes"] = s2.getvalue()[32:32 + len(d)]
        ok_frame = s2.getvalue()[:32] == held[:32] and s2.getvalue()[32 + len(d):] == held[32 + len(d):] and s2.tell() == 32 + len(d)
        ctx.event("dump_forms_compared")
        bad = sorted(k for k, v in forms.items() if v != d)
        if bad or n1 != len(d) or n2 != len(d) or not ok_frame:
            viol("dump-forms", "ways-of-dumping-one-value-disagree", dump=d, differing=bad, returned=[n1, n2], frame_intact=ok_frame,
                 others={k: forms[k].hex() for k in bad[:3]})
            return
    except Exception as e:  # noqa: BLE001
        viol("dump-forms", f"a-way-of-dumping-raises:{type(e).__name__}", dump=d, error=lib.exc_sig(e))
        return
    try:
        dm, mask, k1 = model.dump_full(top, vL, cfg)
    except model.ModelValueError as e:
        viol("model", "parsed-value-not-encodable", error=str(e))
        return
    canonical = not engine.bits_differ(dm, inp[:len(dm)], mask) and len(dm) == c
    if not canonical and (gen.has_leb(top) or gen.has_float(top)):
        # non-minimal LEB128 / float corner: outside the claimed domain (canonical encodings)
        ctx.event("skipped:noncanonical")
        return
    ctx.event("judged")
    ctx.event("padding_bits_observed", sum(bin(~m & 0xFF).count("1") for m in mask))
    ctx.event("data_bits_observed", sum(bin(m).count("1") for m in mask))
    if len(d) != c:
        if cfgd["align"] and gen.has_eof(top):
            pass  # an aligned structure ending in an EOF array re-pads; judged bytewise below on the common part
        sig = "dump-length-differs-from-consumed"
        viol("length", sig, dumped=len(d), dump=d)
        return
    if len(mask) != c:
        viol("layout", "consumed-differs-from-model-layout", model_size=len(mask), dump=d)
        return
    diffs = engine.bits_differ(d, inp[:c], mask)
    if diffs:
        if engine.k1_explains(diffs, d, k1):
            viol("data-bits", "K1:union-dump-first-largest-member", dump=d, diffs=diffs[:8])
        else:
            viol("data-bits", "data-bit-lost-or-altered", dump=d, diffs=diffs[:8], model_dump=dm)
        return
    nz = [(i, d[i] & ~mask[i] & 0xFF) for i in range(c) if d[i] & ~mask[i] & 0xFF]
    if nz:
        viol("padding", "padding-or-unassigned-bit-not-zero", dump=d, nonzero=nz[:8])


def check_case(ctx, case, rng):
    top = case["top"]
    for cfgd in engine.std_configs(rng, ctx.thorough, top):
        cs, err = engine.load_cfg(ctx, case, cfgd)
        cfg = engine.mcfg(case, cfgd["endian"], cfgd["align"], cfgd["ptr"])
        if cs is None:
            try:
                model.layout(top, cfg)
                ctx.violation("load", f"load-fails:{type(err).__name__}", case_detail(case, cfg=cfgd, error=repr(err)))
            except model.ModelReject:
                ctx.event("rejected_by_both")
            continue
        T = cs.T
        ctx.cell(f"align:{cfgd['align']}", f"endian:{cfgd['endian']}", f"compiled:{bool(T.__compiled__)}")
        for _ in range(2 if not ctx.thorough else 4):
            try:
                inp, used, mask, v = engine.model_input(case, cfg, rng, maxlen=4 if not ctx.thorough else 9)
            except model.ModelUnsupported:
                ctx.event("model_unsupported")
                break
            judge(ctx, case, cfgd, cfg, T, inp, "model+garbage")
        for mode in rng.sample(range(4), 2):
            judge(ctx, case, cfgd, cfg, T, gen.arbitrary_bytes(rng, rng.randint(0, 40) + 64, mode), "arbitrary")


def witnesses(ctx):
    """Pinned witness of the open finding K1, judged by the same oracle as everything else."""
    from ..gen import F, N_int, N_struct

    u = N_struct([F(None, N_struct([F("a", N_int("uint32")), F("b", N_int("uint32"))])), F("c", N_int("uint8"))],
                 union=True)
    k1 = gen.simple_case([F("u", u)])
    k1["named"] = {}
    cfgd = {"endian": "<", "align": False, "compiled": False, "ptr": "uint64"}
    cs, _ = engine.load_cfg(ctx, k1, cfgd)
    judge(ctx, k1, cfgd, engine.mcfg(k1, "<", False), cs.T, bytes([1, 2, 3, 4, 5, 6, 7, 8]) + bytes(8), "witness")
    ctx.cell("pinned-witnesses")


def pointer_type_changed_after_definition(ctx):
    """A structure keeps the pointer width it was defined with: after cs.pointer was changed, parsing and dumping it
    still reproduces its bytes (members, arrays of pointers, both byte orders, both readers)."""
    text = "struct T { uint8 h; uint8 *p; uint32 *table[2]; uint16 t; char *s; };"
    for compiled in (True, False):
        for endian in "<>":
            for first, second in (("uint64", "uint32"), ("uint32", "uint64"), ("uint16", "uint64"), ("uint64", "uint8")):
                ctx.evaluation(("pointer-type-changed", compiled, endian, first, second))
                ctx.cell("pointer-type-changed-after-definition")
                det = {"text": text, "compiled": compiled, "endian": endian, "first": first, "second": second,
                       "workload": "pointer-type-changed"}
                try:
                    cs = lib.cstruct(endian=endian, pointer=first)
                    cs.load(text, compiled=compiled)
                    size = len(cs.T)
                    data = bytes((0x11 * (i + 1)) & 0x7F for i in range(size))
                    before = cs.T(data).dumps()
                    cs.pointer = getattr(cs, second)
                    o = cs.T(data)
                    after = o.dumps()
                    st = io.BytesIO()
                    n = o.write(st)
                except Exception as e:  # noqa: BLE001
                    ctx.violation("data-bits", f"dump-after-pointer-type-change-raises:{type(e).__name__}", dict(det, error=lib.exc_sig(e)))
                    continue
                if not (before == data == after == st.getvalue() and n == size == len(cs.T)):
                    ctx.violation("data-bits", "data-bit-lost-or-altered", dict(det, data=data.hex(), before=before.hex(), after=after.hex()))
                else:
                    ctx.event("pointer_type_change_checked")


def long_arrays(ctx, rng, reps):
    """Arrays of hundreds to thousands of entries (around the block sizes 256, 512, 1024, 2048, 4096; exact multiples
    included) of every packed / byte-sliced element type, with a fixed and a data-supplied count, in two dimensions, and
    a member behind them: parsed from random bytes and dumped again through the general judge."""
    from ..gen import F, L_expr, L_fixed, N_array, N_char, N_float, N_int

    elems = [lambda: N_int("uint8"), lambda: N_int("int8"), lambda: N_int("uint16"), lambda: N_int("int32"), lambda: N_int("uint64"),
             lambda: N_int("int24"), lambda: N_float("float"), lambda: N_int("uint128"), lambda: N_char()]
    counts = [255, 256, 257, 511, 512, 513, 1023, 1024, 1025, 1536, 2048, 4096]
    for _ in range(reps):
        for mk in (elems if ctx.thorough else rng.sample(elems, 4)):
            n = rng.choice(counts)
            form = rng.choice(["fixed", "counted", "rows"])
            if form == "fixed":
                fields = [F("h", N_int("uint8")), F("v", N_array(mk(), L_fixed(n))), F("t", N_int("uint16"))]
            elif form == "counted":
                fields = [F("n", N_int("uint16"), len_src=True), F("v", N_array(mk(), L_expr("n"))), F("t", N_int("uint16"))]
            else:
                fields = [F("h", N_int("uint8")), F("v", N_array(N_array(mk(), L_fixed(n // 2)), L_fixed(2))), F("t", N_int("uint16"))]
            case = gen.simple_case(fields)
            case["named"] = {}
            ctx.cell(f"long-array:{form}")
            for endian in "<>":
                for compiled in (True, False):
                    cfgd = {"endian": endian, "align": False, "compiled": compiled, "ptr": "uint64"}
                    cs, err = engine.load_cfg(ctx, case, cfgd)
                    if cs is None:
                        ctx.violation("load", f"load-fails:{type(err).__name__}", case_detail(case, cfg=cfgd, error=repr(err)))
                        continue
                    cfg = engine.mcfg(case, endian, False, "uint64")
                    body = bytes(rng.randrange(1, 256) if fields[1]["t"]["elem"].get("k") != "float" else rng.choice((0x3F, 0x40, 0x10, 0x01))
                                 for _ in range(n * 16 + 8))
                    inp = (n.to_bytes(2, "little" if endian == "<" else "big") if form == "counted" else b"\x07") + body
                    judge(ctx, case, cfgd, cfg, cs.T, inp, "long-array")


def run(ctx):
    if ctx.shard == 0:
        witnesses(ctx)
    if ctx.shard == 2:
        pointer_type_changed_after_definition(ctx)
    if ctx.shard % 4 == 3:
        long_arrays(ctx, ctx.rng("long-arrays"), 1 if not ctx.thorough else 4)
    if ctx.shard % 4 == 1:
        # storage units of bit-fields placed at run time (behind a variable-size member), exactly filled units followed by
        # a unit of the same type, storage types whose size is not their alignment
        r2 = ctx.rng("runtime-units")
        for _ in range(8 if not ctx.thorough else 80):
            case = gen.runtime_placed_units_case(r2)
            ctx.cell("bit-field-units-placed-at-run-time")
            check_case(ctx, case, r2)
    for i in range(N_CASES[ctx.tier]):
        if ctx.out_of_time():
            break
        rng = ctx.rng("case", i)
        case = engine.make_case(rng, **gen_opts(rng, ctx.thorough))
        for t in case["feats"]:
            ctx.cell("feat:" + t)
        check_case(ctx, case, rng)
        if i < 2:
            ctx.sample({"text": case["text"], "feats": case["feats"]})


def replay(ctx, detail):
    case = engine.case_from_detail(detail)
    cfgd = detail["cfg"]
    print("definition:\n" + case["text"])
    print("config:", cfgd)
    cs, err = engine.load_cfg(ctx, case, cfgd)
    if cs is None:
        print("load error:", repr(err))
        ctx.violation("load", "load-fails", detail)
        return
    inp = engine.unhex(detail["data"])
    cfg = engine.mcfg(case, cfgd["endian"], cfgd["align"], cfgd["ptr"])
    r = outcome(cs.T, inp)
    print("input :", inp.hex())
    if r[0] == "ok":
        print("parsed:", r[1], "consumed", r[2])
        try:
            print("dumps :", r[1].dumps().hex())
        except Exception as e:  # noqa: BLE001
            print("dumps raises:", repr(e))
    judge(ctx, case, cfgd, cfg, cs.T, inp, "replay")
