"""C16  Pointers: width from configuration, dereference reads the target in place."""
from __future__ import annotations

from .. import engine, gen, lib, model
from ..gen import ALL_INTS, F, N_array, N_char, N_float, N_int, N_ptr, N_struct, L_fixed
from ..streams import RecordingStream

PTR_TYPES = ["uint8", "uint16", "uint24", "uint32", "uint48", "uint64"]
N_CASES = {"quick": 20, "thorough": 400}


def target_kinds(rng):
    inner = N_struct([F("x", N_int(rng.choice(["uint8", "uint16", "int32"]))), F("y", N_int("uint24")),
                      F("z", N_array(N_char(), L_fixed(2)))])
    return {
        "scalar": N_int(rng.choice(["uint8", "int16", "uint32", "int64", "uint24", "int128"])),
        "float": N_float(rng.choice(["float", "double"])),
        "char": N_char(),
        # a wide character is a scalar like any other: one code unit, not a string
        "wchar": gen.N_wchar(),
        "struct": inner,
        "ptrptr": N_ptr(N_int(rng.choice(["uint8", "uint16"]))),
    }


def make_case(rng, kind):
    tk = target_kinds(rng)
    tgt = tk[kind]
    decls = []
    if kind == "struct":
        tgt = dict(tgt, name="TGT", decl="top")
        decls.append({"d": "struct", "node": tgt})
    fields = [F("lead", N_int("uint8")), F("p", N_ptr(tgt)), F("after", N_int("uint16")),
              F("arr", N_array(N_ptr(tgt), L_fixed(2))), F("tail", N_int("uint8"))]
    case = gen.simple_case(fields, decls=decls)
    case["named"] = {"TGT": tgt} if kind == "struct" else {}
    return case, tgt


def place(rng, cfg, tgt, buf, addr_limit, count):
    """Append `count` encoded targets to buf; return [(address, expected deref value)]."""
    out = []
    for _ in range(count):
        while len(buf) % 16 and rng.random() < 0.5:
            buf += bytes([rng.randrange(256)])
        addr = len(buf)
        if addr == 0:
            buf += b"\xEE"
            addr = 1
        if addr >= addr_limit:
            break
        if tgt["k"] == "char":
            s = model.rand_bytes(rng, rng.randint(0, 6), no_nul=True)
            buf += s + b"\x00"
            out.append((addr, s))
        elif tgt["k"] == "ptr":
            # pointer to pointer: place the final value first, then the inner pointer
            v = model.random_value(tgt["to"], rng, cfg)
            raw, _ = model.dump(tgt["to"], v, cfg)
            inner_addr = len(buf)
            if inner_addr == 0:
                buf += b"\xEE"
                inner_addr = 1
            buf += raw
            addr = len(buf)
            if addr >= addr_limit or inner_addr >= addr_limit:
                break
            buf += model.dump(N_int(cfg.ptr), inner_addr, cfg)[0]
            out.append((addr, ("ptr", inner_addr, model.clean(v))))
        else:
            v = model.random_value(tgt, rng, cfg)
            raw, _ = model.dump(tgt, v, cfg)
            buf += raw
            out.append((addr, lib.nan_clean(model.clean(v))))
    return out


def deref_value(p, tgt):
    v = p.dereference()
    if tgt["k"] == "char":
        return bytes(v)
    if tgt["k"] == "ptr":
        if not isinstance(v, lib.Pointer):
            return ("notptr", repr(v))
        inner = v.dereference()
        return ("ptr", int(v), lib.nan_clean(lib.norm(inner, tgt["to"])))
    return lib.nan_clean(lib.norm(v, tgt))


def check(ctx, rng, kind, ptr, endian, align, compiled):
    from dissect.cstruct.exceptions import NullPointerDereference

    case, tgt = make_case(rng, kind)
    cfgd = {"endian": endian, "align": align, "compiled": compiled, "ptr": ptr}
    cfg = engine.mcfg(case, endian, align, ptr)
    cs, err = engine.load_cfg(ctx, case, cfgd)

    def viol(kindv, sig, **kw):
        ctx.violation(kindv, sig, engine.case_detail(case, cfg=cfgd, target=kind, **kw))

    if cs is None:
        viol("load", f"load-fails:{type(err).__name__}", error=repr(err))
        return
    T = cs.T
    top = case["top"]
    width = ALL_INTS[ptr][0]
    ctx.cell(f"width:{ptr}", f"target:{kind}", f"endian:{endian}",
             f"reader:{'compiled' if T.__compiled__ else 'interpreted'}")
    ctx.evaluation((case["text"], tuple(sorted(cfgd.items()))))
    if T.fields["p"].type.size != width or cs.pointer.size != width:
        viol("width", "pointer-field-width-differs-from-configured-pointer-type",
             got=T.fields["p"].type.size, want=width)
        return
    size = model.size_of(top, cfg)
    if len(T) != size:
        viol("width", "structure-size-with-pointers-differs-from-model", got=len(T), want=size)
        return
    # build the stream: [prefix][structure][targets...]
    base = rng.choice([0, 16, 32]) if width > 1 else 0
    limit = 1 << (8 * width)
    buf = bytearray(rng.randrange(256) for _ in range(base))
    struct_at = len(buf)
    buf += bytes(size)
    targets = place(rng, cfg, tgt, buf, limit, 3)
    if len(targets) < 3:
        ctx.event("address_space_too_small")
        return
    val = {"lead": rng.randrange(256), "p": targets[0][0], "after": rng.randrange(65536),
           "arr": [targets[1][0], targets[2][0]], "tail": rng.randrange(256)}
    raw, mask = model.dump(top, val, cfg)
    raw = model.garbage_fill(raw, mask, rng)
    buf[struct_at:struct_at + size] = raw
    data = bytes(buf)
    s = RecordingStream(data, struct_at)
    try:
        o = T(s)
    except Exception as e:  # noqa: BLE001
        viol("parse", f"parse-raises:{type(e).__name__}", data=data, error=lib.exc_sig(e))
        return
    end = s.position()
    if end != struct_at + size:
        viol("parse", "consumed-bytes-differ", data=data, got=end, want=struct_at + size)
        return
    try:
        got = lib.norm(o, top)
    except lib.NormError as e:
        viol("parse", "pointer-field-value-kind", data=data, error=str(e))
        return
    if got != val:
        viol("value", "pointer-integer-value-differs-from-stored-unsigned-integer", data=data, got=got, want=val)
        return
    ctx.sample({"definition": case["text"], "config": cfgd, "structure_at": struct_at, "stream": data.hex(),
                "addresses": [t[0] for t in targets], "expected_targets": [repr(t[1])[:60] for t in targets]}, limit=2)
    ptrs = [(o.p, targets[0]), (o.arr[0], targets[1]), (o.arr[1], targets[2])]
    for idx, (p, (addr, want)) in enumerate(ptrs):
        ctx.evaluation((case["text"], tuple(sorted(cfgd.items())), data.hex(), idx))
        if not isinstance(p, lib.Pointer) or int(p) != addr:
            viol("value", "pointer-object-wrong", data=data, index=idx, got=repr(p), want=addr)
            continue
        n0 = len(s.log)
        try:
            dv = deref_value(p, tgt)
        except Exception as e:  # noqa: BLE001
            viol("deref", f"dereference-raises:{type(e).__name__}", data=data, index=idx, address=addr,
                 error=lib.exc_sig(e))
            continue
        ctx.event("dereferences")
        if dv != want:
            viol("deref", "dereference-differs-from-parsing-target-at-address", data=data, index=idx, address=addr,
                 got=dv, want=want)
            continue
        if s.position() != end:
            viol("deref", "dereference-moved-the-stream", data=data, index=idx, got=s.position(), want=end)
            continue
        n1 = len(s.log)
        try:
            dv2 = deref_value(p, tgt)
        except Exception as e:  # noqa: BLE001
            viol("deref", f"second-dereference-raises:{type(e).__name__}", data=data, index=idx)
            continue
        if dv2 != dv:
            viol("deref", "second-dereference-differs", data=data, index=idx, got=dv2, want=dv)
        elif len(s.log) != n1:
            viol("deref", "second-dereference-touches-the-stream", data=data, index=idx,
                 events=[list(map(str, e)) for e in s.log[n1:n1 + 6]])
        else:
            ctx.event("cached_dereferences_without_stream_events")
        ctx.event("stream_events_during_first_dereference", n1 - n0)
    # a dereferenced structure belongs to the pointer it came from: modifying it must not change what another
    # pointer to the same address, or a second parse from the same stream object, dereferences to
    if kind == "struct":
        ctx.evaluation((case["text"], tuple(sorted(cfgd.items())), data.hex(), "deref-independence"))
        try:
            t1 = o.p.dereference()
            first = T.fields["p"].type.type.__fields__[0]._name
            setattr(t1, first, (int(getattr(t1, first)) + 1) % 100)
            s.seek(struct_at)
            o2 = T(s)
            same_addr = o.arr[0] + (targets[0][0] - targets[1][0])
            for label, ptr_ in (("second-parse-from-the-same-stream", o2.p), ("another-pointer-to-the-same-address", same_addr)):
                got2 = lib.nan_clean(lib.norm(ptr_.dereference(), tgt))
                if got2 != targets[0][1]:
                    viol("deref", f"dereferenced-target-shared:{label}", data=data, got=got2, want=targets[0][1])
                else:
                    ctx.event("dereference_independence_checked")
        except Exception as e:  # noqa: BLE001
            viol("deref", f"dereference-independence-check-raises:{type(e).__name__}", data=data, error=lib.exc_sig(e))
    # arithmetic keeps type and stream
    if kind == "scalar":
        p = o.p
        tsize = model.size_of(tgt, cfg)
        q = p + 0
        r = (p + tsize) - tsize
        for name, x in (("p+0", q), ("p+n-n", r)):
            ctx.evaluation((case["text"], tuple(sorted(cfgd.items())), data.hex(), name))
            if type(x) is not type(p) or int(x) != int(p):
                viol("arith", "pointer-arithmetic-changes-type-or-value", data=data, expr=name, got=repr(x))
            else:
                try:
                    if lib.nan_clean(lib.norm(x.dereference(), tgt)) != targets[0][1]:
                        viol("arith", "pointer-arithmetic-loses-the-stream", data=data, expr=name)
                    else:
                        ctx.event("arithmetic_checked")
                except Exception as e:  # noqa: BLE001
                    viol("arith", f"pointer-arithmetic-result-cannot-dereference:{type(e).__name__}", data=data, expr=name)
        import operator as _op

        a0 = int(p)
        ops = [("+", _op.add, 0), ("-", _op.sub, 0), ("*", _op.mul, 1), ("//", _op.floordiv, 1), ("%", _op.mod, a0 + 1),
               ("**", _op.pow, 1), ("<<", _op.lshift, 0), (">>", _op.rshift, 0), ("&", _op.and_, (1 << 64) - 1),
               ("^", _op.xor, 0), ("|", _op.or_, 0)]
        for name, fn, operand in ops:
            ctx.evaluation((case["text"], tuple(sorted(cfgd.items())), data.hex(), "op", name))
            try:
                x = fn(p, operand)
            except Exception as e:  # noqa: BLE001
                viol("arith", f"pointer-operator-raises:{type(e).__name__}", data=data, expr=f"p {name} {operand}")
                continue
            if type(x) is not type(p) or int(x) != a0:
                viol("arith", "pointer-operator-does-not-yield-a-pointer-of-the-same-type", data=data,
                     expr=f"p {name} {operand}", got=repr(x))
                continue
            try:
                if lib.nan_clean(lib.norm(x.dereference(), tgt)) != targets[0][1]:
                    viol("arith", "pointer-operator-result-loses-the-stream", data=data, expr=f"p {name} {operand}")
                else:
                    ctx.event("operators_checked")
            except Exception as e:  # noqa: BLE001
                viol("arith", f"pointer-operator-result-cannot-dereference:{type(e).__name__}", data=data,
                     expr=f"p {name} {operand}")
        # ... and with operands that do change the address: the result is the pointer at the address the integers give
        width_bits = ALL_INTS[cfgd["ptr"]][0] * 8
        for name, fn, _ in ops:
            for operand in (a0, 1, 3, a0 | 1, 0x55, 2):
                if name in ("//", "%") and operand == 0:
                    continue
                if name == "**" and (operand > 3 or a0 > 1 << 16):
                    continue
                if name == "<<" and operand > 8:
                    continue
                try:
                    wanted = fn(a0, operand)
                except Exception:  # noqa: BLE001
                    continue
                if not 0 <= wanted < (1 << width_bits):
                    continue
                ctx.evaluation((case["text"], tuple(sorted(cfgd.items())), data.hex(), "op-value", name, operand))
                try:
                    x = fn(p, operand)
                    ok = type(x) is type(p) and int(x) == wanted
                except Exception as e:  # noqa: BLE001
                    viol("arith", f"pointer-operator-raises:{type(e).__name__}", data=data, expr=f"p {name} {operand}")
                    continue
                if not ok:
                    viol("arith", "pointer-operator-gives-another-address-than-the-integers", data=data,
                         expr=f"{hex(a0)} {name} {hex(operand)}", got=repr(x), want=hex(wanted))
                else:
                    ctx.event("operator_values_checked")
        try:
            nxt = (o.arr[0] + 0)
            far = p + 1
            want_b, _ = model.parse(tgt, data, int(p) + 1, cfg) if int(p) + 1 + tsize <= len(data) else (None, None)
            if want_b is not None and lib.nan_clean(lib.norm(far.dereference(), tgt)) != lib.nan_clean(want_b):
                viol("arith", "dereference-of-p-plus-1-reads-the-wrong-address", data=data)
        except Exception as e:  # noqa: BLE001
            viol("arith", f"p-plus-1-raises:{type(e).__name__}", data=data, error=lib.exc_sig(e))
    # dump writes the addresses back unchanged
    try:
        d = o.dumps()
        dm, _ = model.dump(top, val, cfg)
        if d != dm:
            viol("dump", "dump-does-not-write-the-address-back", data=data, got=d, want=dm)
        else:
            ctx.event("dumps_checked")
    except Exception as e:  # noqa: BLE001
        viol("dump", f"dump-raises:{type(e).__name__}", data=data, error=lib.exc_sig(e))
    # null pointer / pointer without a stream
    null_raw, nm = model.dump(top, dict(val, p=0), cfg)
    ctx.evaluation((case["text"], tuple(sorted(cfgd.items())), "null"))
    try:
        o0 = T(null_raw + data)
        try:
            o0.p.dereference()
            viol("null", "null-pointer-dereference-does-not-raise", data=null_raw)
        except NullPointerDereference:
            ctx.event("null_dereference_raises")
        except Exception as e:  # noqa: BLE001
            viol("null", f"null-pointer-raises-{type(e).__name__}-not-NullPointerDereference", data=null_raw)
    except Exception as e:  # noqa: BLE001
        viol("null", f"parse-with-null-pointer-raises:{type(e).__name__}", data=null_raw)
    try:
        dflt = T()
        try:
            dflt.p.dereference()
            viol("null", "stream-less-pointer-dereference-does-not-raise")
        except NullPointerDereference:
            ctx.event("streamless_dereference_raises")
        except Exception as e:  # noqa: BLE001
            viol("null", f"stream-less-pointer-raises-{type(e).__name__}-not-NullPointerDereference")
    except Exception as e:  # noqa: BLE001
        viol("null", f"default-construction-raises:{type(e).__name__}", error=lib.exc_sig(e))
    # out-of-range address must be rejected on dump
    ctx.evaluation((case["text"], tuple(sorted(cfgd.items())), "range"))
    for bad in (limit, -1):
        try:
            ob = T(lead=1, p=bad, after=2, arr=[1, 2], tail=3)
            dd = ob.dumps()
            viol("range", "out-of-range-address-dumped", bad=bad, dump=dd)
        except Exception:  # noqa: BLE001
            ctx.event("out_of_range_address_rejected")
    # target cut off by the end of the stream (for char: no terminator before the end): an error, never a value
    ctx.evaluation((case["text"], tuple(sorted(cfgd.items())), "truncated-target"))
    addr0 = targets[0][0]
    if tgt["k"] == "char":
        cut = addr0 + len(targets[0][1])          # everything but the terminator
    elif tgt["k"] == "ptr":
        cut = addr0 + max(1, width // 2) if width > 1 else addr0
    else:
        # cut inside the last data-carrying byte of the target (trailing padding of an aligned target may be missing)
        _, tmask = model.dump(tgt, model.random_value(tgt, rng, cfg), cfg)
        cut = addr0 + max(0, model.last_data_byte(tmask))
    if cut > struct_at + size:
        try:
            rs = RecordingStream(data[:cut], struct_at)
            ot = T(rs)
            before = rs.position()
            try:
                x = ot.p.dereference()
                viol("range", "dereference-of-a-truncated-target-returns-a-value", got=repr(x), cut=cut)
            except Exception:  # noqa: BLE001
                ctx.event("dereference_of_truncated_target_raises")
                if rs.position() != before:
                    viol("position", "failed-dereference-moves-the-stream", before=before, after=rs.position(), cut=cut)
        except Exception:  # noqa: BLE001
            pass
    # address beyond the stream: an error, never a value
    if limit > len(data) + 8:
        far_raw, _ = model.dump(top, dict(val, p=len(data) + 4), cfg)
        try:
            of = T(far_raw + data[len(far_raw):])
            try:
                x = of.p.dereference()
                viol("range", "dereference-beyond-the-stream-returns-a-value", got=repr(x))
            except Exception:  # noqa: BLE001
                ctx.event("dereference_beyond_stream_raises")
        except Exception:  # noqa: BLE001
            pass


def _enc(v, width, endian):
    return int(v).to_bytes(width, "little" if endian == "<" else "big")


def reconfigured_width(ctx, rng):
    """The pointer type of a cstruct object is changed between two loads: structures defined afterwards use the new
    width for layout, value and dump, also for a target type that already had a pointer type before the change.
    Structures (and pointer typedefs) defined before the change: the property does not say which width they keep, but
    whichever it is they keep it consistently -- len = bytes consumed = bytes dumped, the pointer's value is the
    integer of that width, the member behind it is read from behind it (this had been left unjudged: defect 80)."""
    import io

    for w1 in PTR_TYPES:
        for w2 in PTR_TYPES:
            if w1 == w2:
                continue
            for endian in "<>":
                for compiled in (True, False):
                    width = ALL_INTS[w2][0]
                    text_a = "struct A { uint8 lead; uint16 *p; uint8 x; };"
                    text_b = "struct B { uint8 lead; uint16 *p; uint8 x; uint16 *q[2]; uint8 y; };"
                    detail = {"text": text_a + "\n" + text_b, "first_pointer_type": w1, "second_pointer_type": w2,
                              "endian": endian, "compiled": compiled, "workload": "reconfigured-width"}
                    ctx.evaluation(("reconfigured", w1, w2, endian, compiled))
                    ctx.cell("reconfigured-width")
                    try:
                        cs = lib.cstruct(endian=endian, pointer=w1)
                        cs.load(text_a, compiled=compiled)
                        cs.A(bytes(1 + ALL_INTS[w1][0] + 1))
                        cs.pointer = cs.resolve(w2)
                        cs.load(text_b, compiled=compiled)
                        B = cs.B
                    except Exception as e:  # noqa: BLE001
                        ctx.violation("width", f"reconfigured:load-fails:{type(e).__name__}", dict(detail, error=lib.exc_sig(e)))
                        continue
                    # the structure defined before the change, and a pointer typedef made before it used afterwards
                    try:
                        cs2 = lib.cstruct(endian=endian, pointer=w1)
                        cs2.load("typedef uint16 *EARLY;\n" + text_a, compiled=compiled)
                        cs2.pointer = cs2.resolve(w2)
                        cs2.load("struct L { uint8 lead; EARLY p; uint8 x; };", compiled=compiled)
                        for T_ in (cs2.A, cs2.L):
                            pw = T_.fields["p"].type.size
                            blob = bytes(range(1, 1 + 2 + 8 + 8))
                            st_ = io.BytesIO(blob)
                            o_ = T_(st_)
                            facts_ = (len(T_), st_.tell(), len(o_.dumps()), int(o_.p), int(o_.x), o_.dumps())
                            want_ = (2 + pw, 2 + pw, 2 + pw, int.from_bytes(blob[1:1 + pw], "little" if endian == "<" else "big"),
                                     blob[1 + pw], blob[:2 + pw])
                            if pw not in (ALL_INTS[w1][0], width) or facts_ != want_:
                                ctx.violation("width", "reconfigured:structure-defined-before-the-change-is-inconsistent",
                                              dict(detail, structure=T_.__name__, pointer_size=pw, got=repr(facts_), want=repr(want_)))
                                break
                        else:
                            ctx.event("earlier_definitions_consistent")
                    except Exception as e:  # noqa: BLE001
                        ctx.violation("width", f"reconfigured:earlier-definition-fails:{type(e).__name__}",
                                      dict(detail, error=lib.exc_sig(e)))
                    want_size = 3 + 3 * width
                    if len(B) != want_size or B.fields["p"].type.size != width:
                        ctx.violation("width", "reconfigured:pointer-field-width-differs-from-configured-pointer-type",
                                      dict(detail, size=len(B), want=want_size, field_size=B.fields["p"].type.size))
                        continue
                    top = (1 << (8 * width)) - 1
                    addrs = [rng.choice([top, top - 1, (top >> 1) + 1, rng.randint(1, top)]) for _ in range(3)]
                    addrs[0] = want_size  # dereferencable: the uint16 right behind the structure
                    raw = (bytes([0x11]) + _enc(addrs[0], width, endian) + bytes([0x5A]) + _enc(addrs[1], width, endian)
                           + _enc(addrs[2], width, endian) + bytes([0xC3]))
                    tail = bytes([0x34, 0x12]) if endian == "<" else bytes([0x12, 0x34])
                    st = io.BytesIO(raw + tail)
                    try:
                        o = B(st)
                        got = (int(o.lead), int(o.p), int(o.x), [int(v) for v in o.q], int(o.y), st.tell())
                        d = o.dumps()
                        dv = int(o.p.dereference())
                    except Exception as e:  # noqa: BLE001
                        ctx.violation("width", f"reconfigured:parse-fails:{type(e).__name__}", dict(detail, error=lib.exc_sig(e)))
                        continue
                    want = (0x11, addrs[0], 0x5A, addrs[1:], 0xC3, want_size)
                    if got != want:
                        ctx.violation("value", "reconfigured:pointer-value-or-neighbour-differs", dict(detail, got=got, want=want))
                    elif d != raw:
                        ctx.violation("dump", "reconfigured:dump-differs-from-input", dict(detail, got=d, want=raw))
                    elif dv != 0x1234:
                        ctx.violation("deref", "reconfigured:dereference-differs", dict(detail, got=dv))
                    else:
                        ctx.event("reconfigured_width_checked")


def context_targets(ctx, rng):
    """Targets whose size is an expression over members of the structure holding the pointer (typedef'd array with
    an expression length): dereferencing parses them in the context of that structure, whether the member is
    declared before or after the pointer."""
    import io

    text = ("typedef uint16 items_t[count];\n"
            "struct first { uint8 count; items_t *items; uint8 end; };\n"
            "struct last { items_t *items; uint8 count; uint8 end; };\n"
            "struct both { items_t *items[2]; uint8 count; uint8 end; };\n"
            "struct folded { struct { uint8 count; }; items_t *items; uint8 end; };\n"
            "struct deep { struct { uint8 k; struct { uint8 count; }; }; items_t *items; uint8 end; };\n")
    for ptr in PTR_TYPES:
        width = ALL_INTS[ptr][0]
        for endian in "<>":
            for compiled in (True, False):
                detail = {"text": text, "cfg": {"ptr": ptr, "endian": endian, "compiled": compiled},
                          "workload": "context-targets"}
                try:
                    cs = lib.cstruct(endian=endian, pointer=ptr)
                    cs.load(text, compiled=compiled)
                except Exception as e:  # noqa: BLE001
                    ctx.violation("load", f"context-target:load-fails:{type(e).__name__}", dict(detail, error=lib.exc_sig(e)))
                    continue
                for name in ("first", "last", "both", "folded", "deep"):
                    count = rng.randint(0, 5)
                    vals = [[rng.randrange(1 << 16) for _ in range(6)] for _ in range(2)]
                    a1, a2 = 0x30, 0x40
                    pt = [_enc(a1, width, endian), _enc(a2, width, endian)]
                    head = {"first": bytes([count]) + pt[0] + b"\x99", "last": pt[0] + bytes([count]) + b"\x99",
                            "both": pt[0] + pt[1] + bytes([count]) + b"\x99", "folded": bytes([count]) + pt[0] + b"\x99",
                            "deep": bytes([0x77, count]) + pt[0] + b"\x99"}[name]
                    buf = head.ljust(a1, b"\xcc") + b"".join(_enc(v, 2, endian) for v in vals[0])
                    buf = buf.ljust(a2, b"\xcc") + b"".join(_enc(v, 2, endian) for v in vals[1])
                    st = io.BytesIO(buf)
                    ctx.evaluation(("context-target", ptr, endian, compiled, name, count))
                    ctx.cell("context-target:" + name)
                    try:
                        o = getattr(cs, name)(st)
                        pos = st.tell()
                        ptrs = [o.items] if name != "both" else list(o.items)
                        for k, pp in enumerate(ptrs):
                            one, two = list(pp.dereference()), list(pp.dereference())
                            if one != vals[k][:count] or two != one:
                                ctx.violation("deref", "context-target:dereference-differs-from-parse-at-address",
                                              dict(detail, struct=name, got=one, again=two, want=vals[k][:count]))
                                break
                            if st.tell() != pos:
                                ctx.violation("position", "context-target:dereference-moves-the-stream",
                                              dict(detail, struct=name))
                                break
                            # the result of pointer arithmetic is a pointer like the original: same stream, same
                            # context (the target one element further on parses with the same count)
                            try:
                                moved = [list((pp + 2).dereference()), list((pp | 0).dereference()),
                                         list(((pp + 4) - 2).dereference())]
                            except Exception as e:  # noqa: BLE001
                                ctx.violation("deref", f"context-target:dereference-after-arithmetic-fails:{type(e).__name__}",
                                              dict(detail, struct=name, count=count, error=lib.exc_sig(e)))
                                break
                            if moved != [vals[k][1:1 + count], vals[k][:count], vals[k][1:1 + count]]:
                                ctx.violation("deref", "context-target:dereference-after-arithmetic-differs",
                                              dict(detail, struct=name, got=moved))
                                break
                        else:
                            ctx.event("context_target_checked")
                    except Exception as e:  # noqa: BLE001
                        ctx.violation("deref", f"context-target:dereference-fails:{type(e).__name__}",
                                      dict(detail, struct=name, count=count, error=lib.exc_sig(e)))


def union_pointers(ctx):
    """A pointer that is a member of a fixed-size union (directly, in a nested structure, in an array) dereferences at
    the absolute offset of the stream the union was read from, like any other pointer -- also after another member of
    the union was assigned (the members are re-read from the union's own bytes then) -- and leaves that stream where
    it was (open finding K11 until repair 91)."""
    import io

    for compiled in (True, False):
        for endian in "<>":
            text = ("struct inn { uint8 *q; uint8 t; };\nunion u { uint8 *p; uint32 raw; inn s; uint8 *arr[2]; uint8 *grid[2][2]; };\n"
                    "struct outer { uint8 pad[4]; u un; };")
            ctx.evaluation(("union-pointers", compiled, endian))
            ctx.cell("union-pointers")
            det = {"text": text, "compiled": compiled, "endian": endian, "workload": "union-pointers"}
            try:
                cs = lib.cstruct(endian=endian, pointer="uint8")
                cs.load(text, compiled=compiled)
                data = b"\x99\x98\x97\x96" + b"\x02\x00\x11\x22" + b"\xaa\xbb"
                fh = io.BytesIO(data)
                o = cs.outer(fh)
                pos = fh.tell()
                got = []
                for ptr in (o.un.p, o.un.s.q, o.un.arr[0], o.un.grid[0][0]):
                    try:
                        got.append(int(ptr.dereference()))
                    except Exception as e:  # noqa: BLE001
                        got.append(type(e).__name__)
                try:
                    o.un.raw = 9 if endian == "<" else 9 << 24      # the pointer members now hold address 9
                    got.append(int(o.un.p.dereference()))
                    got.append(int(o.un.s.q.dereference()))
                    got.append(int(o.un.grid[0][0].dereference()))
                except Exception as e:  # noqa: BLE001
                    got.append(type(e).__name__)
                got.append(fh.tell() == pos)
            except Exception as e:  # noqa: BLE001
                ctx.violation("union-pointers", f"pointer-in-union-raises:{type(e).__name__}", dict(det, error=lib.exc_sig(e)))
                continue
            if got != [0x97, 0x97, 0x97, 0x97, 0xBB, 0xBB, 0xBB, True]:
                ctx.violation("union-pointers", "pointer-inside-a-fixed-size-union-dereferences-into-the-unions-private-buffer",
                              dict(det, got=repr(got), want="[0x97, 0x97, 0x97, 0x97, 0xbb, 0xbb, 0xbb, True] (absolute offsets 2 and 9 of the stream)"))
            else:
                ctx.event("union_pointers_absolute")
            # a union that did not come from a stream -- built from values, default-constructed and then assigned, or
            # a member of such a structure -- has pointers without a stream: the dedicated error, never its own bytes
            ctx.evaluation(("union-pointers-without-stream", compiled, endian))
            ctx.cell("union-pointers:built-from-values")
            try:
                from dissect.cstruct.exceptions import NullPointerDereference

                a = cs.u(raw=0x01010101)
                b = cs.u()
                b.p = 1
                c = cs.outer()
                c.un.raw = 0x02020202
                d = cs.outer(pad=[1, 2, 3, 4], un=cs.u(raw=0x01010101))
                outs = []
                for ptr in (a.p, a.s.q, a.arr[1], a.grid[1][0], b.p, b.s.q, c.un.p, c.un.arr[0], c.un.grid[0][1], d.un.p):
                    try:
                        outs.append(("value", repr(ptr.dereference())))
                    except NullPointerDereference:
                        outs.append("null-dereference-error")
                    except Exception as e:  # noqa: BLE001
                        outs.append(type(e).__name__)
            except Exception as e:  # noqa: BLE001
                ctx.violation("union-pointers", f"pointer-in-union-raises:{type(e).__name__}", dict(det, error=lib.exc_sig(e)))
                continue
            if outs != ["null-dereference-error"] * len(outs):
                ctx.violation("union-pointers", "pointer-of-a-union-built-from-values-dereferences-the-unions-own-bytes",
                              dict(det, got=repr(outs)))
            else:
                ctx.event("union_pointers_without_stream")


def linked_structures(ctx):
    """A pointer member of a *dereferenced* structure is a pointer on the same stream: every further hop (a linked
    list, a name string behind the second node, a pointer array in a dereferenced structure) reads the absolute
    address in the caller's stream, and leaves it where it was."""
    import io

    for ptr in ("uint8", "uint16", "uint32", "uint64"):
        for endian in "<>":
            for compiled in (True, False):
                for align in (False, True):
                    text = ("struct node { uint16 v; node *next; char *name; uint8 *vals[2]; };\n"
                            "struct head { uint8 tag; node *first; };")
                    ctx.evaluation(("linked-structures", ptr, endian, compiled, align))
                    ctx.cell("linked-structures")
                    det = {"text": text, "ptr": ptr, "endian": endian, "compiled": compiled, "align": align,
                           "workload": "linked-structures"}
                    try:
                        cs = lib.load(text, endian, align, compiled, ptr)
                        w = len(cs.pointer)
                        bo = "little" if endian == "<" else "big"
                        nsize, hsize = len(cs.node), len(cs.head)
                        offs = {f.name: f.offset for f in cs.node.__fields__}
                        hoff = cs.head.__fields__[1].offset
                        # layout of the stream: head | node0 | node1 | node2 | strings and values
                        n_at = [hsize + i * nsize for i in range(3)]
                        tail_at = hsize + 3 * nsize
                        if tail_at + 24 >= 1 << (8 * w):
                            ctx.event("address_space_too_small")
                            continue
                        names = [b"zero\x00", b"one\x00", b"two\x00"]
                        name_at, pos = [], tail_at
                        for nm in names:
                            name_at.append(pos)
                            pos += len(nm)
                        vals_at = pos
                        buf = bytearray(pos + 6)
                        buf[tail_at:pos] = b"".join(names)
                        buf[vals_at:vals_at + 6] = bytes([0xA0, 0xA1, 0xB0, 0xB1, 0xC0, 0xC1])
                        buf[0] = 0x5A
                        buf[hoff:hoff + w] = n_at[0].to_bytes(w, bo)
                        for i in range(3):
                            b = n_at[i]
                            buf[b + offs["v"]:b + offs["v"] + 2] = (0x1000 + i).to_bytes(2, bo)
                            nxt = n_at[i + 1] if i < 2 else 0
                            buf[b + offs["next"]:b + offs["next"] + w] = nxt.to_bytes(w, bo)
                            buf[b + offs["name"]:b + offs["name"] + w] = name_at[i].to_bytes(w, bo)
                            for k in range(2):
                                o_ = b + offs["vals"] + k * w
                                buf[o_:o_ + w] = (vals_at + 2 * i + k).to_bytes(w, bo)
                        fh = io.BytesIO(bytes(buf))
                        h = cs.head(fh)
                        pos0 = fh.tell()
                        n0 = h.first.dereference()
                        n1 = n0.next.dereference()
                        n2 = n1.next.dereference()
                        facts = {
                            "values": [int(n0.v), int(n1.v), int(n2.v)] == [0x1000, 0x1001, 0x1002],
                            "names": [bytes(n.name.dereference()) for n in (n0, n1, n2)] == [b"zero", b"one", b"two"],
                            "pointer arrays": [[int(p.dereference()) for p in n.vals] for n in (n0, n1, n2)]
                            == [[0xA0, 0xA1], [0xB0, 0xB1], [0xC0, 0xC1]],
                            "addresses": [int(n0.next), int(n1.next), int(n2.next)] == [n_at[1], n_at[2], 0],
                            "same stream": all(p._stream is fh for n in (n0, n1, n2) for p in (n.next, n.name, n.vals[0], n.vals[1])),
                            "stream not moved": fh.tell() == pos0,
                            "through attribute access": int(h.first.next.next.v) == 0x1002 and bytes(h.first.next.name.dereference()) == b"one",
                        }
                    except Exception as e:  # noqa: BLE001
                        ctx.violation("linked", f"following-pointers-of-a-dereferenced-structure-raises:{type(e).__name__}",
                                      dict(det, error=lib.exc_sig(e)))
                        continue
                    bad = sorted(k for k, ok in facts.items() if not ok)
                    if bad:
                        ctx.violation("linked", "pointer-in-a-dereferenced-structure-is-not-on-the-caller-stream",
                                      dict(det, failed=bad))
                    else:
                        ctx.event("linked_structures_checked")


def pointers_in_array_elements(ctx):
    """Pointers inside the elements of an array of structures (counted and fixed arrays, structures and unions as
    elements): each one dereferences at its absolute address in the caller's stream."""
    import io

    for ptr in ("uint8", "uint16", "uint32", "uint64"):
        for endian in "<>":
            for compiled in (True, False):
                text = ("struct entry { uint8 id; uint16 *p; };\nunion alt { uint16 *q; uint8 raw[8]; };\n"
                        "struct tab { uint8 count; entry entries[count]; entry pair[2]; alt alts[2]; uint8 end; };")
                ctx.evaluation(("pointers-in-array-elements", ptr, endian, compiled))
                ctx.cell("pointers-in-array-elements")
                det = {"text": text, "ptr": ptr, "endian": endian, "compiled": compiled, "workload": "pointers-in-array-elements"}
                try:
                    cs = lib.load(text, endian, False, compiled, ptr)
                    w = len(cs.pointer)
                    bo = "little" if endian == "<" else "big"
                    esize = 1 + w
                    body_len = 1 + 2 * esize + 2 * esize + 2 * 8 + 1
                    tgt = body_len + 3                       # targets: six uint16 values behind the structure
                    addrs = [tgt + 2 * i for i in range(6)]
                    body = bytes([2])
                    for i in range(4):
                        body += bytes([0x10 + i]) + addrs[i].to_bytes(w, bo)
                    for i in range(2):
                        body += addrs[4 + i].to_bytes(w, bo).ljust(8, b"\x00") if endian == "<" else \
                            addrs[4 + i].to_bytes(w, bo) + bytes(8 - w)
                    body += bytes([0xEE])
                    vals = [0x1111 * (i + 1) for i in range(6)]
                    data = body + b"\x00\x00\x00" + b"".join(v.to_bytes(2, bo) for v in vals)
                    fh = io.BytesIO(data)
                    o = cs.tab(fh)
                    pos = fh.tell()
                    ptrs = [e.p for e in o.entries] + [e.p for e in o.pair] + [a.q for a in o.alts]
                    got = ([int(p) for p in ptrs], [int(p.dereference()) for p in ptrs], all(p._stream is fh for p in ptrs),
                           fh.tell() == pos, int(o.end))
                    want = (addrs, vals, True, True, 0xEE)
                except Exception as e:  # noqa: BLE001
                    ctx.violation("array-elements", f"pointer-in-array-element-raises:{type(e).__name__}", dict(det, error=lib.exc_sig(e)))
                    continue
                if got != want:
                    ctx.violation("array-elements", "pointer-in-an-array-element-is-not-on-the-caller-stream",
                                  dict(det, got=repr(got), want=repr(want)))
                else:
                    ctx.event("pointers_in_array_elements_checked")


def copied_pointers(ctx):
    """Copies (copy.copy / copy.deepcopy) of a pointer and of structures holding pointers: same address, same
    dereferenced value, the stream of the original is left where it was and keeps serving the original; asking a
    pointer for an attribute it does not have answers AttributeError-wise (hasattr) instead of dereferencing into an
    error of another kind."""
    import copy
    import io

    for ptr in ("uint8", "uint16", "uint32", "uint64"):
        for endian in "<>":
            for compiled in (True, False):
                text = ("struct t { uint8 v; uint8 w; };\nstruct s { uint8 a; t *p; uint8 *q[2]; char *n; };\n"
                        "struct only { t *p; uint8 v; };")
                ctx.evaluation(("copied-pointers", ptr, endian, compiled))
                ctx.cell("copied-pointers")
                det = {"text": text, "ptr": ptr, "endian": endian, "compiled": compiled, "workload": "copied-pointers"}
                try:
                    cs = lib.load(text, endian, False, compiled, ptr)
                    w = len(cs.pointer)
                    bo = "little" if endian == "<" else "big"
                    base = 1 + 4 * w
                    body = bytes([7]) + b"".join(x.to_bytes(w, bo) for x in (base, base + 2, base + 3, base + 4))
                    data = body + bytes([0x11, 0x22, 0x33, 0x44]) + b"name\x00" + b"tail"
                    fh = io.BytesIO(data)
                    o = cs.s(fh)
                    pos = fh.tell()
                    dup, shallow, pc, dflt = copy.deepcopy(o), copy.copy(o), copy.copy(o.p), copy.deepcopy(cs.s())
                    facts = {
                        "stream-not-moved": fh.tell() == pos,
                        "deepcopy-equal": dup == o and dup.dumps() == o.dumps() == body,
                        "deepcopy-addresses": [int(dup.p), int(dup.q[0]), int(dup.q[1]), int(dup.n)] == [base, base + 2, base + 3, base + 4],
                        "deepcopy-dereferences": (int(dup.p.v), int(dup.p.w), int(dup.q[1].dereference()), bytes(dup.n.dereference())) == (0x11, 0x22, 0x44, b"name"),
                        "original-dereferences": (int(o.p.v), int(o.q[0].dereference()), bytes(o.n.dereference())) == (0x11, 0x33, b"name"),
                        "copy-of-pointer": int(pc) == base and type(pc) is type(o.p) and int(pc.v) == 0x11,
                        "shallow-copy": shallow == o and int(shallow.p.w) == 0x22,
                        "default-deepcopy": dflt == cs.s() and int(dflt.p) == 0,
                        "stream-still-not-moved": fh.tell() == pos,
                        "hasattr-null": hasattr(cs.s().p, "__nope__") is False,
                        "hasattr-target": hasattr(o.p, "v") is True and hasattr(o.p, "__nope__") is False,
                    }
                    # a pointer handed to a constructor as the only positional value is that value: it is not probed as
                    # if it were a stream (which would dereference it -- or raise for a null pointer)
                    before = fh.tell()
                    as_value = cs.s(a=1, p=o.p)
                    single, null = cs.only(o.p), cs.only(cs.only().p)
                    facts["pointer as constructor value"] = (int(as_value.p) == base and int(single.p) == base
                                                             and int(single.v) == 0 and int(null.p) == 0 and fh.tell() == before)
                    # mutating what the copy points to leaves the original's target alone
                    dup.p.dereference().v = 0x99
                    facts["independent-targets"] = int(o.p.v) == 0x11
                except Exception as e:  # noqa: BLE001
                    ctx.violation("copies", f"copying-a-pointer-raises:{type(e).__name__}", dict(det, error=lib.exc_sig(e)))
                    continue
                bad = sorted(k for k, v in facts.items() if not v)
                if bad:
                    ctx.violation("copies", "copied-pointer-differs-from-the-original", dict(det, failed=bad))
                else:
                    ctx.event("copied_pointers_checked")


def native_orders(ctx):
    """The native byte order codes `=` and `@` (whatever the host's order is): a pointer's value is the unsigned integer
    stored in host order, it dereferences to the target at that address and dumps back unchanged -- single pointers,
    pointers to pointers, fixed and null-terminated arrays of pointers, both readers.  (All members have the pointer's
    width, so the native alignment of `@` has nothing to pad.)"""
    import io
    import sys

    bo = sys.byteorder
    for endian in "=@":
        for ptr, w in (("uint8", 1), ("uint16", 2), ("uint32", 4), ("uint64", 8)):
            for compiled in (True, False):
                text = "struct T { uint16 *p; uint16 **pp; uint16 *a[2]; uint16 *z[]; };"
                n_ptr = 7  # p, pp, a0, a1, z0, z1, terminator
                base = n_ptr * w
                # targets: five uint16 values behind the structure, then one pointer cell for pp
                tvals = [0x1234, 0xA1B2, 0x00FF, 0x8001, 0x7E7E]
                taddr = [base + 2 * i for i in range(5)]
                cell = base + 10
                if cell + w > (1 << (8 * w)) - 1 and w == 1:
                    pass
                addrs = [taddr[0], cell, taddr[1], taddr[2], taddr[3], taddr[4], 0]
                if max(addrs) >= 1 << (8 * w):
                    continue
                data = b"".join(a.to_bytes(w, bo) for a in addrs) + b"".join(v.to_bytes(2, bo) for v in tvals) + taddr[2].to_bytes(w, bo) + b"\xEE" * 4
                ctx.evaluation(("native-orders", endian, ptr, compiled))
                ctx.cell("native-byte-orders")
                det = {"text": text, "endian": endian, "ptr": ptr, "compiled": compiled, "data": data.hex(), "workload": "native-orders"}
                try:
                    cs = lib.load(text, endian, False, compiled, ptr)
                    st = io.BytesIO(data)
                    o = cs.T(st)
                    got = {"values": [int(o.p), int(o.pp), int(o.a[0]), int(o.a[1])] + [int(x) for x in o.z],
                           "deref": [int(o.p.dereference()), int(o.pp.dereference()), int(o.pp.dereference().dereference()),
                                     int(o.a[0].dereference()), int(o.a[1].dereference())] + [int(x.dereference()) for x in o.z],
                           "tell": st.tell(), "dump": o.dumps().hex(), "size": len(cs.T.fields["p"].type)}
                    want = {"values": addrs[:6], "deref": [tvals[0], taddr[2], tvals[2], tvals[1], tvals[2], tvals[3], tvals[4]],
                            "tell": base, "dump": data[:base].hex(), "size": w}
                except Exception as e:  # noqa: BLE001
                    ctx.violation("native", f"native-order-pointer-structure-raises:{type(e).__name__}", dict(det, error=lib.exc_sig(e)))
                    continue
                if got != want:
                    ctx.violation("native", "pointer-under-a-native-byte-order-code-differs-from-host-order",
                                  dict(det, got=repr(got), want=repr(want)))
                else:
                    ctx.event("native_order_pointers_checked")


def run(ctx):
    if ctx.shard == 0:
        union_pointers(ctx)
    if ctx.shard % 8 == 3:
        copied_pointers(ctx)
    if ctx.shard % 8 == 4:
        linked_structures(ctx)
    if ctx.shard % 8 == 5:
        pointers_in_array_elements(ctx)
    if ctx.shard % 8 == 1:
        reconfigured_width(ctx, ctx.rng("reconfigured"))
    if ctx.shard % 8 == 2:
        context_targets(ctx, ctx.rng("context-targets"))
    if ctx.shard % 8 == 6:
        native_orders(ctx)
    combos = [(k, p, e, a, c) for k in ("scalar", "float", "char", "wchar", "struct", "ptrptr") for p in PTR_TYPES
              for e in ("<", ">") for a in (False, True) for c in (True, False)]
    reps = 1 if not ctx.thorough else 12
    jobs = [(c, r) for c in combos for r in range(reps)]
    for (kind, ptr, e, a, c), rep in jobs[ctx.shard::ctx.nshards]:
        if ctx.out_of_time():
            break
        check(ctx, ctx.rng("combo", kind, ptr, e, a, c, rep), kind, ptr, e, a, c)
    ctx.sample({"definition": "struct T { uint8 lead; <target> *p; uint16 after; <target> *arr[2]; uint8 tail; }",
                "stream": "[random prefix][structure][encoded targets at the stored absolute addresses]"})
    ctx.sample({"pointer_types": PTR_TYPES, "targets": ["scalar", "float", "char", "wchar", "struct", "ptrptr"]})


def replay(ctx, detail):
    if detail.get("workload") == "native-orders":
        print(detail)
        native_orders(ctx)
        return
    if detail.get("workload") == "pointers-in-array-elements":
        print(detail)
        pointers_in_array_elements(ctx)
        return
    if detail.get("workload") == "linked-structures":
        print(detail)
        linked_structures(ctx)
        return
    if detail.get("workload") == "copied-pointers":
        print(detail)
        copied_pointers(ctx)
        return
    _replay(ctx, detail)


def _replay(ctx, detail):
    import random

    print("definition:\n" + detail.get("text", ""))
    print({k: v for k, v in detail.items() if k not in ("ast", "text")})
    if detail.get("workload") == "union-pointers":
        union_pointers(ctx)
        return
    if detail.get("workload") == "reconfigured-width":
        reconfigured_width(ctx, random.Random(0))
        return
    if detail.get("workload") == "context-targets":
        context_targets(ctx, random.Random(0))
        return
    cfgd = detail["cfg"]
    for seed in range(8):
        check(ctx, random.Random(seed), detail.get("target", "scalar"), cfgd["ptr"], cfgd["endian"], cfgd["align"],
              cfgd["compiled"])
