"""C07  Array length semantics: fixed, expression, null-terminated and to-end-of-stream."""
from __future__ import annotations

import io

from .. import engine, gen, lib, model
from ..engine import case_detail, outcome
from ..gen import F, L_EOF, L_NULL, L_expr, L_fixed, N_array, N_char, N_float, N_int, N_leb, N_ptr, N_struct, N_wchar

N_CASES = {"quick": 40, "thorough": 900}


def elem_kinds(g):
    """name -> element node factory (fresh node per use)."""
    def enum(flag):
        def mk():
            return g.enum_node(base=g.r.choice(["uint8", "uint16", "uint32", "int16", "uint24"]) if not flag
                               else g.r.choice(["uint8", "uint16", "uint32"]), flag=flag)
        return mk

    def static_struct():
        return N_struct([F(g.nm(), N_int(g.r.choice(["uint8", "uint16", "int32"]))),
                         F(g.nm(), g.r.choice([N_char(), N_int("uint24"), N_float("float")]))])

    def int_struct():
        return g.all_int_struct()

    def dyn_struct():
        n = g.nm()
        return N_struct([F(n, N_int("uint8"), len_src=True), F(g.nm(), N_array(N_char(), L_expr(f"{n} & 3")))])

    return {
        "packed": lambda: N_int(g.r.choice(["uint8", "int8", "uint16", "int16", "uint32", "int32", "uint64", "int64"])),
        "wide": lambda: N_int(g.r.choice(["uint24", "int24", "uint48", "int48", "uint128", "int128"])),
        "float": lambda: N_float(g.r.choice(["float16", "float", "double"])),
        "char": N_char,
        "wchar": N_wchar,
        "enum": enum(False),
        "flag": enum(True),
        "leb": lambda: N_leb(g.r.choice(["uleb128", "ileb128"])),
        "struct": static_struct,
        "intstruct": int_struct,
        "dynstruct": dyn_struct,
        "array": lambda: N_array(N_int(g.r.choice(["uint8", "uint16", "uint24"])), L_fixed(g.r.randint(1, 3))),
        "chararray": lambda: N_array(N_char(), L_fixed(g.r.randint(1, 3))),
        # an inner dimension that is an expression over a field of the structure: every element needs the context
        "exprarray": lambda: N_array(N_int(g.r.choice(["uint8", "uint16", "uint24"])), L_expr(g.r.choice(["m & 3", "m", "(m & 1) + 1"]))),
        "ptr": lambda: N_ptr(N_int("uint8")),
    }


NULL_OK = {"packed", "wide", "char", "wchar", "enum", "flag", "leb", "intstruct", "ptr"}
FORMS = ["fixed0", "fixed1", "fixedk", "fixedneg", "expr", "exprneg", "exprconst", "exprsizeof", "exprenum", "null", "eof"]


def matrix_case(rng, ek, form):
    g = gen.Gen(rng)
    kinds = elem_kinds(g)
    elem = kinds[ek]()
    fields = [F("n", N_int(rng.choice(["uint8", "int8"])), len_src=True), F("m", N_int("uint8"), len_src=True)]
    src = rng.random()
    if form in ("expr", "exprconst", "exprsizeof") and src < 0.45:
        # the field that supplies the length is an enum / flag / enum bit-field / plain bit-field
        if src < 0.3:
            en = g.enum_node(base=rng.choice(["uint8", "uint16", "uint32"]), flag=src < 0.1)
            fields[0] = F("n", en, len_src=True)
        elif src < 0.38:
            en = g.enum_node(base="uint8", flag=False)
            fields[0] = F("n", en, bits=3)
            fields.insert(1, F("npad", N_int("uint8"), bits=5))
        else:
            fields[0] = F("n", N_int("uint16"), bits=3)
            fields.insert(1, F("npad", N_int("uint16"), bits=13))
    if form == "exprenum":
        # the bare name of an enum / flag / enum bit-field field is the length
        which = rng.random()
        if which < 0.4:
            fields[0] = F("n", g.enum_node(base=rng.choice(["uint8", "uint16", "uint32", "int16"]), flag=False), len_src=True)
        elif which < 0.7:
            fields[0] = F("n", g.enum_node(base=rng.choice(["uint8", "uint16"]), flag=True), len_src=True)
        else:
            fields[0] = F("n", g.enum_node(base="uint8", flag=False), bits=3)
            fields.insert(1, F("npad", N_int("uint8"), bits=5))
        ln = L_expr("n")
    elif form == "fixed0":
        ln = L_fixed(0)
    elif form == "fixedneg":
        # a constant count below zero (a literal, a constant expression): no entries, like a computed one
        k = rng.choice([-1, -2, -200])
        ln = {"f": "fixed", "n": k, "text": rng.choice([str(k), f"2 - {2 - k}", f"({k})"])}
    elif form == "fixed1":
        ln = L_fixed(1)
    elif form == "fixedk":
        ln = L_fixed(rng.randint(2, 5))
    elif form == "expr":
        ln = L_expr(rng.choice(["n", "n + m", "n * 2", "(n & 3) + 1", "m + 1", "n | 1", "m << 1", "n+m", "2 * n"]))
    elif form == "exprneg":
        ln = L_expr(rng.choice(["n - 3", "n - m", "-n", "n - 200", "-1 - m"]))
    elif form == "exprconst":
        k = g.const()
        ln = L_expr(rng.choice([f"n + {k}", f"{k} * m", f"{k} + n - 1"]))
    elif form == "exprsizeof":
        ln = L_expr(rng.choice(["sizeof(uint16) * n", "n + sizeof(uint8)", "sizeof(uint32) - m"]))
    elif form == "null":
        ln = L_NULL
    else:
        ln = L_EOF
    fields.append(F("arr", N_array(elem, ln)))
    if form != "eof":
        fields.append(F("tail", N_int("uint16")))
    top = N_struct(fields, name="T", decl="top")
    g.decls.append({"d": "struct", "node": top})
    case = gen.finish_case(g.decls, top, g.consts, {f"arr:{ek}x{form}"})
    case["named"] = {}
    return case


def write_refusal(ctx, case, cfgd, cfg, T, rng):
    """Dumping a fixed-size array of non-character elements with another element count must be refused."""
    top = case["top"]
    for i, f in enumerate(top["fields"]):
        t = f["t"]
        if t["k"] != "array" or t["len"]["f"] != "fixed" or t["elem"]["k"] in ("char", "wchar"):
            continue
        try:
            v = model.random_value(top, rng, cfg)
        except model.ModelUnsupported:
            return
        n = max(0, t["len"]["n"])      # (a constant count below zero means no entries)
        extra = model.random_value(t["elem"], rng, cfg, v)
        wrong = v[f["name"]] + [extra] if rng.random() < 0.5 or n == 0 else v[f["name"]][:-1]
        v[f["name"]] = wrong
        ctx.evaluation((case["text"], tuple(sorted(cfgd.items())), "refusal", len(wrong)))
        ctx.event("write_refusal_attempts")
        try:
            obj = lib.build(T, top, v)
            d = obj.dumps()
        except Exception:  # noqa: BLE001
            ctx.event("write_refused")
            continue
        ctx.violation("write-refusal", "fixed-array-with-wrong-count-dumped",
                      case_detail(case, cfg=cfgd, field=f["name"], declared=n, given=len(wrong), dump=d))


def big_operand_lengths(ctx):
    """Length expressions are integer arithmetic also when an operand is larger than a double holds exactly."""
    text = ("#define UNIT 0x40000000000000\nstruct T { uint64 total; uint8 data[total / UNIT]; uint8 tail; };\n"
            "struct M { uint64 total; uint8 data[total % 0x20000000000001]; uint8 tail; };\n"
            "struct S { uint64 total; uint16 data[(total >> 54) + (total / 0x7FFFFFFFFFFFFFFF)]; uint8 tail; };")
    for compiled in (True, False):
        for endian in "<>":
            ctx.evaluation(("big-operand-lengths", compiled, endian))
            ctx.cell("length-expressions-with-operands-beyond-2^53")
            det = {"text": text, "compiled": compiled, "endian": endian, "workload": "big-operand-lengths"}
            bo = "little" if endian == "<" else "big"
            try:
                cs = lib.load(text, endian, False, compiled)
                got, want = [], []
                for name, total, n, esize in (("T", 0xBFFFFFFFFFFFFF, 2, 1), ("T", 0xC0000000000000, 3, 1), ("T", (1 << 62) + 2, 256, 1),
                                              ("M", 0x20000000000001 * 3 + 2, 2, 1), ("M", 0x20000000000001 * 5, 0, 1),
                                              ("S", 0x7FFFFFFFFFFFFFFE, 511, 2), ("S", 0x7FFFFFFFFFFFFFFF, 512, 2)):
                    body = bytes((7 * i + 1) & 0xFF for i in range(n * esize))
                    data = total.to_bytes(8, bo) + body + b"\x7e" + b"\xee" * 3
                    o = getattr(cs, name)(data)
                    got.append((name, len(o.data), int(o.tail), o.dumps() == data[:8 + n * esize + 1]))
                    want.append((name, n, 0x7E, True))
            except Exception as e:  # noqa: BLE001
                ctx.violation("value", f"big-operand-length-raises:{type(e).__name__}", dict(det, error=lib.exc_sig(e)))
                continue
            if got != want:
                ctx.violation("value", "length-expression-with-a-large-operand-is-not-integer-arithmetic", dict(det, got=repr(got), want=repr(want)))
            else:
                ctx.event("big_operand_lengths_checked")


def ragged_rows(ctx):
    """A multi-dimensional array whose dimensions are all fixed takes rows of exactly the declared lengths: rows of
    other lengths are refused also when the total number of cells happens to be right (through a field and through
    the type made by the API, both readers, integer / wide / structure / enum elements)."""
    text = ("enum E : uint8 { A, B };\nstruct P { uint8 a; uint8 b; };\n"
            "struct T { uint8 cells[2][3]; uint16 cube[2][2][2]; int24 wide[2][2]; P pts[2][2]; E es[3][2]; uint8 t; };")
    for compiled in (True, False):
        cs = lib.load(text, "<", False, compiled)
        P, E = cs.P, cs.E
        good = {"cells": [[1, 2, 3], [4, 5, 6]], "cube": [[[1, 2], [3, 4]], [[5, 6], [7, 8]]], "wide": [[1, 2], [3, 4]],
                "pts": [[P(a=1, b=2), P(a=3, b=4)], [P(a=5, b=6), P(a=7, b=8)]], "es": [[E.A, E.B], [E.B, E.A], [E.A, E.A]]}
        ragged = {"cells": [[[1, 2, 3, 4], [5, 6]], [[1, 2, 3, 4, 5, 6], []], [[1], [2, 3, 4, 5, 6]]],
                  "cube": [[[[1, 2, 3], [4]], [[5, 6], [7, 8]]], [[[1, 2], [3, 4], [5, 6], [7, 8]], []]],
                  "wide": [[[1, 2, 3], [4]], [[1, 2, 3, 4], []]],
                  "pts": [[[P(a=1, b=2), P(a=3, b=4), P(a=5, b=6)], [P(a=7, b=8)]]],
                  "es": [[[E.A, E.B, E.B], [E.A], [E.A, E.A]], [[E.A] * 6, [], []]]}
        for name, variants in ragged.items():
            for bad in variants:
                ctx.evaluation(("ragged-rows", compiled, name, repr(bad)[:80]))
                ctx.cell("ragged-rows-with-the-right-total")
                for how in ("field", "type"):
                    try:
                        if how == "field":
                            d = cs.T(**dict(good, **{name: bad}), t=9).dumps()
                        else:
                            d = cs.T.fields[name].type.dumps(bad)
                    except Exception:  # noqa: BLE001
                        ctx.event("ragged_rows_refused")
                        continue
                    ctx.violation("write-refusal", "fixed-array-with-wrong-count-dumped",
                                  {"text": text, "compiled": compiled, "field": name, "how": how, "given": repr(bad)[:200],
                                   "dump": d.hex(), "workload": "ragged-rows"})
        # (the well-shaped values are written)
        try:
            ok = cs.T(**good, t=9).dumps()
            if len(ok) != len(cs.T) or cs.T(ok) != cs.T(**good, t=9):
                raise ValueError("well-shaped value does not round-trip")
        except Exception as e:  # noqa: BLE001
            ctx.violation("write-refusal", f"well-shaped-multi-dimensional-value-refused:{type(e).__name__}",
                          {"text": text, "compiled": compiled, "error": lib.exc_sig(e), "workload": "ragged-rows"})


def judge_all(ctx, case, rng, matrix_cell=None):
    top = case["top"]
    for cfgd in engine.std_configs(rng, ctx.thorough, top):
        cfg = engine.mcfg(case, cfgd["endian"], cfgd["align"], cfgd["ptr"])
        cs, err = engine.load_cfg(ctx, case, cfgd)
        if cs is None:
            ctx.violation("load", f"load-fails:{type(err).__name__}", case_detail(case, cfg=cfgd, error=repr(err)))
            continue
        T = cs.T
        if matrix_cell:
            ctx.cell(f"{matrix_cell}:{'compiled' if T.__compiled__ else 'interpreted'}")
        inputs = []
        try:
            for _ in range(3):
                inputs.append(engine.model_input(case, cfg, rng, maxlen=4 if not ctx.thorough else 9))
        except model.ModelUnsupported:
            ctx.event("model_unsupported")
        for mode in (1, 2):
            inputs.append((gen.arbitrary_bytes(rng, rng.randint(8, 60), mode), None, None, None))
        for inp, used, mask, v in inputs:
            r, exp = engine.judge_parse(ctx, case, cfgd, cfg, T, inp)
            if r[0] == "ok" and exp[0] == "ok" and not model.has_nan(exp[1]):
                try:
                    d = r[1].dumps()
                except Exception as e:  # noqa: BLE001
                    ctx.violation("dump-raises", f"dumps-raises:{type(e).__name__}",
                                  case_detail(case, cfg=cfgd, data=inp, error=lib.exc_sig(e)))
                    continue
                dm, dmask, k1 = model.dump_full(top, exp[1], cfg)
                canonical = not engine.bits_differ(dm, inp[:len(dm)], dmask)
                if d != dm and canonical:
                    diffs = engine.bits_differ(d, dm, bytes([0xFF]) * min(len(d), len(dm)))
                    if len(d) == len(dm) and engine.k1_explains(diffs, d, k1):
                        ctx.event("k1_seen_not_judged_here")
                    else:
                        ctx.violation("dump", "array-dump-differs-from-model",
                                      case_detail(case, cfg=cfgd, data=inp, got=d, want=dm))
        write_refusal(ctx, case, cfgd, cfg, T, rng)


LONG_LENGTHS = [255, 256, 257, 300, 511, 512, 513, 1000, 4095, 4096, 4097, 9000]


def long_case(rng, ek, form, L):
    g = gen.Gen(rng)
    elem = elem_kinds(g)[ek]()
    fields = [F("n", N_int("uint16"), len_src=True)]
    if form == "null":
        ln = L_NULL
    elif form == "expr":
        ln = L_expr(rng.choice(["n", "n + 0", "n * 1"]))
    else:
        ln = L_fixed(L)
    fields.append(F("arr", N_array(elem, ln)))
    fields.append(F("tail", N_int("uint16")))
    fields.append(F("arr2", N_array(elem, ln if form != "fixed" else L_fixed(3))))
    fields.append(F("end", N_int("uint8")))
    top = N_struct(fields, name="T", decl="top")
    g.decls.append({"d": "struct", "node": top})
    case = gen.finish_case(g.decls, top, g.consts, {f"long:{ek}x{form}"})
    case["named"] = {}
    return case, elem


def long_arrays(ctx, jobs):
    """Arrays whose length crosses typical block / buffer boundaries (the value of what FOLLOWS the array and the
    stream position are part of the judgement)."""
    for ek, form, L in jobs:
        if ctx.out_of_time():
            break
        rng = ctx.rng("long", ek, form, L)
        case, elem = long_case(rng, ek, form, L)
        top = case["top"]
        for cfgd in engine.std_configs(rng, False, top)[:: 2 if not ctx.thorough else 1]:
            cfg = engine.mcfg(case, cfgd["endian"], cfgd["align"], cfgd["ptr"])
            cs, err = engine.load_cfg(ctx, case, cfgd)
            if cs is None:
                ctx.violation("load", f"load-fails:{type(err).__name__}", case_detail(case, cfg=cfgd, error=repr(err)))
                continue

            def arr(n):
                node = N_array(elem, L_fixed(n))
                nz = form == "null"
                if elem["k"] == "char":
                    return model.rand_bytes(rng, n, no_nul=nz)
                if elem["k"] == "wchar":
                    return model.rand_wstr(rng, n, no_nul=True if nz else False)
                return [model.random_value(elem, rng, cfg, nonzero=nz) for _ in range(n)]

            n2 = L if form != "fixed" else 3
            v = {"n": L if form == "expr" else rng.randrange(65536), "arr": arr(L), "tail": rng.randrange(65536),
                 "arr2": arr(n2 if form != "null" else rng.choice([0, 1, L])), "end": rng.randrange(256)}
            try:
                data, mask = model.dump(top, v, cfg)
            except model.ModelValueError:
                continue
            inp = model.garbage_fill(data, mask, rng) + bytes(rng.randrange(256) for _ in range(16))
            ctx.cell(f"long:{ek}x{form}")
            ctx.event("long_array_elements", L)
            r, exp = engine.judge_parse(ctx, case, cfgd, cfg, cs.T, inp, label="long")
            if r[0] == "ok" and exp[0] == "ok" and not model.has_nan(exp[1]):
                d = r[1].dumps()
                if d != data and not gen.has_leb(top):
                    ctx.violation("dump", "array-dump-differs-from-model",
                                  case_detail(case, cfg=cfgd, data=inp[:64], got=d[:64], want=data[:64], length=L))


def direct_use(ctx, rng):
    """cs.<type>[n](bytes) without a structure around it."""
    for endian in "<>":
        cs = lib.cstruct(endian=endian)
        cfg = model.Cfg(endian, False)
        for t in ["uint8", "int16", "uint24", "int48", "uint64", "uint128", "float", "char", "wchar"]:
            node_e = (N_int(t) if t in gen.ALL_INTS else N_float(t) if t in gen.FLOATS else
                      N_char() if t == "char" else N_wchar())
            lt = getattr(cs, t)
            for n in (0, 1, 3):
                node = N_array(node_e, L_fixed(n))
                v = model.random_value(node, rng, cfg)
                data, _ = model.dump(node, v, cfg)
                ctx.evaluation(("direct", endian, t, n, data.hex()))
                ctx.cell("direct-use")
                try:
                    s = io.BytesIO(data + b"\xEE\xEE")
                    got = lt[n](s)
                    gv = lib.nan_clean(lib.norm(got, node))
                    if gv != lib.nan_clean(model.clean(v)) or s.tell() != len(data):
                        ctx.violation("direct", "direct-array-parse-differs",
                                      {"type": t, "n": n, "endian": endian, "data": data.hex(), "got": repr(gv)})
                    d = lt[n].dumps(got)
                    if d != data:
                        ctx.violation("direct", "direct-array-dump-differs",
                                      {"type": t, "n": n, "endian": endian, "data": data.hex(), "got": d.hex()})
                except Exception as e:  # noqa: BLE001
                    ctx.violation("direct", f"direct-array-raises:{type(e).__name__}",
                                  {"type": t, "n": n, "endian": endian, "data": data.hex(), "error": lib.exc_sig(e)})
            if t in ("float",):
                continue
            node = N_array(node_e, L_NULL)
            v = model.random_value(node, rng, cfg)
            data, _ = model.dump(node, v, cfg)
            ctx.evaluation(("direct-null", endian, t, data.hex()))
            try:
                s = io.BytesIO(data + b"\x01\x02")
                got = lt[None](s)
                gv = lib.norm(got, node)
                if gv != model.clean(v) or s.tell() != len(data):
                    ctx.violation("direct", "direct-null-terminated-parse-differs",
                                  {"type": t, "endian": endian, "data": data.hex(), "got": repr(gv)})
                d = lt[None].dumps(got)
                if d != data:
                    ctx.violation("direct", "direct-null-terminated-dump-drops-terminator",
                                  {"type": t, "endian": endian, "data": data.hex(), "got": d.hex()})
            except Exception as e:  # noqa: BLE001
                ctx.violation("direct", f"direct-null-terminated-raises:{type(e).__name__}",
                              {"type": t, "endian": endian, "data": data.hex(), "error": lib.exc_sig(e)})


def void_arrays(ctx):
    """Arrays of void occupy nothing; the null-terminated one is empty (a void is the zero element) and reads back."""
    for compiled in (True, False):
        ctx.evaluation(("void-arrays", compiled))
        ctx.cell("void-arrays")
        try:
            cs = lib.load("struct V { uint8 h; void v[]; void w[3]; uint8 t; };", "<", False, compiled)
            o = cs.V(b"\x05\x06")
            d = cs.V(h=1, v=[], t=2).dumps()
            got = (len(o.v), len(o.w), int(o.t), len(cs.void[None](b"abc")), d, cs.V(d) == cs.V(h=1, v=[], t=2))
        except Exception as e:  # noqa: BLE001
            got = lib.exc_sig(e)
        if got != (0, 3, 6, 0, b"\x01\x02", True):
            ctx.violation("void-arrays", "void-array-does-not-read-back", {"got": repr(got), "compiled": compiled, "workload": "void-arrays"})
        else:
            ctx.event("void_arrays_checked")


def enum_counts(ctx):
    """An array type made through the API with an enum / flag member (or a constant of an anonymous enum) as its count
    has that many entries, for every element type, and reads and dumps like the one made with the plain integer."""
    text = "enum { N = 2 };\nenum E : uint16 { A = 1, B = 2 };\nflag F : uint8 { X = 2 };\nstruct S { uint8 a; uint16 b; };"
    for endian in "<>":
        cs = lib.load(text, endian)
        data = bytes(range(1, 40))
        for tname in ("uint8", "int16", "uint32", "uint24", "int128", "float", "char", "wchar", "uleb128", "E", "S"):
            t = getattr(cs, tname)
            ref = t[2]
            for label, count in (("anonymous-enum-constant", cs.N), ("enum-member", cs.E.B), ("flag-member", cs.F.X)):
                ctx.evaluation(("enum-count", endian, tname, label))
                ctx.cell("array-count-is-an-enum-member")
                try:
                    at = t[count]
                    got = (at.num_entries, at.size, lib.stable_repr(at(data)), at.dumps(at(data)), lib.stable_repr(at.__default__()))
                    want = (2, ref.size, lib.stable_repr(ref(data)), ref.dumps(ref(data)), lib.stable_repr(ref.__default__()))
                except Exception as e:  # noqa: BLE001
                    ctx.violation("enum-count", f"array-with-enum-member-count-raises:{type(e).__name__}",
                                  {"type": tname, "count": label, "endian": endian, "error": lib.exc_sig(e), "workload": "enum-counts"})
                    continue
                if got != want:
                    ctx.violation("enum-count", "array-with-enum-member-count-differs-from-integer-count",
                                  {"type": tname, "count": label, "endian": endian, "got": repr(got), "want": repr(want),
                                   "workload": "enum-counts"})
                else:
                    ctx.event("enum_counts_checked")


def shadowing(ctx):
    """x[expr]: identifiers resolve in the fields parsed before the array first, then in the constants."""
    for compiled in (True, False):
        for text, data, want in [
            ("#define n 3\nstruct T { uint8 n; uint8 a[n]; uint8 t; };", bytes([1, 9, 8, 7, 6]), ([9], 8)),
            # ... also when the field holds 0
            ("#define n 3\nstruct T { uint8 n; uint8 a[n]; uint8 t; };", bytes([0, 9, 8, 7, 6]), ([], 9)),
            ("#define n 3\nstruct T { uint8 n; uint8 a[n * 2 + 1]; uint8 t; };", bytes([0, 9, 8, 7, 6]), ([9], 8)),
            ("#define n 3\nstruct T { uint8 n; uint8 a[n + 1]; uint8 t; };", bytes([1, 9, 8, 7, 6, 5]), ([9, 8], 7)),
            ("#define k 2\nstruct T { uint8 n; uint8 a[n + k]; uint8 t; };", bytes([1, 9, 8, 7, 6, 5]), ([9, 8, 7], 6)),
            # a char / wchar field counts by its character code
            ("struct T { char n; uint8 a[n]; uint8 t; };", bytes([2, 9, 8, 7]), ([9, 8], 7)),
            ("struct T { wchar n; uint8 a[n & 3]; uint8 t; };", bytes([0x32, 0, 9, 8, 7]), ([9, 8], 7)),
            # the operand of sizeof() names a type even if a preceding field has the same name (static size kept)
            ("struct n { uint8 q; uint8 r; };\nstruct T { n n; uint8 a[sizeof(n)]; uint8 t; };", bytes([1, 2, 9, 8, 7]),
             ([9, 8], 7)),
        ]:
            ctx.evaluation(("shadow", text, compiled))
            ctx.cell("shadowing")
            try:
                cs = lib.load(text, compiled=compiled)
                o = cs.T(data)
                got = ([int(x) for x in o.a], int(o.t))
                if "sizeof(n)" in text and cs.T.size != 5:
                    got = f"static size lost: {cs.T.size}"
            except Exception as e:  # noqa: BLE001
                got = lib.exc_sig(e)
            if got != want:
                shadowed = "#define n" in text
                ctx.violation("shadowing", "constant-shadows-field-when-length-is-evaluated-at-load" if shadowed
                              else "length-expression-resolution", {"text": text, "data": data.hex(), "got": repr(got),
                                                                   "want": repr(want), "compiled": compiled})


def folded_length_source(ctx):
    """The fields folded in from an anonymous structure (or union) member are fields parsed before the array: a length
    may name them, also when a constant of the same name exists, in every dimension, in both readers (this was the
    open finding K12 until repair 90)."""
    for compiled in (True, False):
        for text, data, want in [
            ("struct T { struct { uint8 n; }; uint8 a[n]; uint8 t; };", bytes([2, 9, 8, 7]), ([9, 8], 7)),
            ("struct T { struct { uint8 k; uint8 n; }; uint8 a[n + 1]; uint8 t; };", bytes([5, 1, 9, 8, 7]), ([9, 8], 7)),
            ("#define n 3\nstruct T { struct { uint8 n; }; uint8 a[n]; uint8 t; };", bytes([1, 9, 8, 7]), ([9], 8)),
            ("#define n 3\nstruct T { struct { uint8 n; }; uint8 a[n]; uint8 t; };", bytes([0, 9, 8, 7]), ([], 9)),
            ("struct T { uint8 h; union { uint8 n; uint16 w; }; uint8 a[n]; uint8 t; };", bytes([5, 2, 0, 9, 8, 7]), ([9, 8], 7)),
            ("struct T { struct { uint8 r; struct { uint8 n; }; }; uint16 a[r][n]; uint8 t; };",
             bytes([1, 2, 9, 0, 8, 0, 7]), ([[9, 8]], 7)),
            ("struct T { struct { uint8 n; }; uint8 x; struct { uint8 m; }; uint8 a[n * m]; uint8 t; };",
             bytes([2, 5, 1, 9, 8, 7]), ([9, 8], 7)),
        ]:
            ctx.evaluation(("folded-length", text, compiled))
            ctx.cell("folded-length-source")
            try:
                cs = lib.load(text, compiled=compiled)
                o = cs.T(data)
                got = ([[int(y) for y in x] if isinstance(x, list) else int(x) for x in o.a], int(o.t))
                if cs.T(o.dumps()) != o:
                    got = ("round trip differs", got)
            except Exception as e:  # noqa: BLE001
                got = lib.exc_sig(e)
            if got != want:
                ctx.violation("folded-length", "length-expression-cannot-see-fields-of-a-preceding-anonymous-member",
                              {"text": text, "data": data.hex(), "got": repr(got), "want": repr(want), "compiled": compiled,
                               "workload": "folded-length"})
            else:
                ctx.event("folded_length_resolved")


def terminator_reappended(ctx):
    """Dumping `x[]` writes every element it is given and then the terminator -- also when the list is empty, ends in a
    zero element or holds one (such a list does not read back as itself, but what is written is still elements +
    terminator), for integer, wide, LEB128, pointer, enum and structure elements, as a member and directly."""
    def leb(v):
        out = bytearray()
        while True:
            b = v & 0x7F
            v >>= 7
            out.append(b | (0x80 if v else 0))
            if not v:
                return bytes(out)

    text = ("enum E : uint16 { Z = 0, A = 1, B = 2 };\nstruct P { uint8 a; uint16 b; };\n"
            "struct S { uint16 w[]; uint24 t3[]; uleb128 l[]; uint32 *p[]; E e[]; P s[]; uint64 q[]; uint8 tail; };")
    lists = [[], [0], [3, 0], [0, 5], [1, 2], [7, 0, 0], [1, 0, 2]]
    for endian in "<>":
        bo = "little" if endian == "<" else "big"
        for compiled in (True, False):
            try:
                cs = lib.load(text, endian, False, compiled, "uint32")
            except Exception as e:  # noqa: BLE001
                ctx.violation("terminator", f"terminator-workload-load-fails:{type(e).__name__}", {"text": text, "error": lib.exc_sig(e)})
                continue
            enc = {"w": lambda v: v.to_bytes(2, bo), "t3": lambda v: v.to_bytes(3, bo), "l": leb, "p": lambda v: v.to_bytes(4, bo),
                   "e": lambda v: v.to_bytes(2, bo), "s": lambda v: bytes([v]) + (v * 3).to_bytes(2, bo),
                   "q": lambda v: v.to_bytes(8, bo)}   # (in the order of the members)
            for name in enc:
                for lst in lists:
                    ctx.evaluation(("terminator", endian, compiled, name, repr(lst)))
                    ctx.cell("terminator-reappended")
                    det = {"text": text, "endian": endian, "compiled": compiled, "member": name, "list": lst, "workload": "terminator"}
                    vals = [cs.P(a=v, b=v * 3) for v in lst] if name == "s" else ([cs.E(v) for v in lst] if name == "e" else list(lst))
                    want_member = b"".join(enc[name](v) for v in lst) + enc[name](0)
                    try:
                        kw = {name: vals}
                        got = cs.S(tail=0xAA, **kw).dumps()
                        before = b"".join(enc[n](0) for n in list(enc)[:list(enc).index(name)])
                        after = b"".join(enc[n](0) for n in list(enc)[list(enc).index(name) + 1:])
                        want = before + want_member + after + b"\xAA"
                        direct = cs.S.fields[name].type.dumps(vals)
                    except Exception as e:  # noqa: BLE001
                        ctx.violation("terminator", f"dump-of-a-null-terminated-array-raises:{type(e).__name__}", dict(det, error=lib.exc_sig(e)))
                        continue
                    if got != want or direct != want_member:
                        ctx.violation("terminator", "null-terminated-array-not-written-as-elements-plus-terminator",
                                      dict(det, got=got.hex(), want=want.hex(), direct=direct.hex(), want_direct=want_member.hex()))
                    else:
                        ctx.event("terminators_checked")


def run(ctx):
    if ctx.shard == 0:
        direct_use(ctx, ctx.rng("direct"))
        shadowing(ctx)
        folded_length_source(ctx)
        ragged_rows(ctx)
        big_operand_lengths(ctx)
        enum_counts(ctx)
        void_arrays(ctx)
    if ctx.shard == 1:
        terminator_reappended(ctx)
    # the element kind x length form matrix, every cell on every run
    cells = []
    tmp = gen.Gen(ctx.rng("kinds"))
    for ek in elem_kinds(tmp):
        for form in FORMS:
            if form == "null" and ek not in NULL_OK:
                continue
            cells.append((ek, form))
    reps = 1 if not ctx.thorough else 6
    jobs = [(c, r) for c in cells for r in range(reps)]
    for (ek, form), rep in jobs[ctx.shard::ctx.nshards]:
        if ctx.out_of_time():
            break
        rng = ctx.rng("matrix", ek, form, rep)
        case = matrix_case(rng, ek, form)
        judge_all(ctx, case, rng, matrix_cell=f"{ek}x{form}")
        ctx.sample({"text": case["text"]}, limit=2)
    # long arrays around block/buffer boundaries
    ljobs = [(ek, form, L) for ek in ("char", "wchar", "packed", "wide", "enum", "leb", "intstruct")
             for form in ("null", "expr", "fixed") for L in LONG_LENGTHS]
    if not ctx.thorough:
        ljobs = [j for j in ljobs if j[2] in (255, 256, 257, 1000, 4097)]
    long_arrays(ctx, ljobs[ctx.shard::ctx.nshards])
    # generated array-heavy definitions
    for i in range(N_CASES[ctx.tier]):
        if ctx.out_of_time():
            break
        rng = ctx.rng("case", i)
        opts = dict(bias="arrays", dyn_unions=False)
        if ctx.thorough:
            opts.update(max_fields=rng.choice([6, 9]), max_depth=3, max_len=rng.choice([4, 9]))
        case = engine.make_case(rng, **opts)
        for t in case["feats"]:
            ctx.cell("feat:" + t)
        judge_all(ctx, case, rng)


def replay(ctx, detail):
    if "ast" not in detail:
        print("record:", detail)
        if detail.get("workload") == "folded-length":
            folded_length_source(ctx)
        elif detail.get("workload") == "terminator":
            terminator_reappended(ctx)
        elif "text" in detail and "#define" in detail["text"]:
            shadowing(ctx)
        else:
            direct_use(ctx, ctx.rng("direct"))
        return
    case = engine.case_from_detail(detail)
    cfgd = detail["cfg"]
    print("definition:\n" + case["text"])
    print("config:", cfgd)
    cs, err = engine.load_cfg(ctx, case, cfgd)
    if cs is None:
        print("load error:", repr(err))
        ctx.violation("load", "load-fails", detail)
        return
    cfg = engine.mcfg(case, cfgd["endian"], cfgd["align"], cfgd["ptr"])
    if "data" in detail:
        inp = engine.unhex(detail["data"])
        r, exp = engine.judge_parse(ctx, case, cfgd, cfg, cs.T, inp)
        print("input  :", inp.hex())
        print("library:", r[0], r[1], r[2])
        print("model  :", exp[0], exp[1], exp[2])
        if r[0] == "ok" and exp[0] == "ok":
            d = r[1].dumps()
            dm, _ = model.dump(case["top"], exp[1], cfg)
            print("dumps  :", d.hex(), "\nmodel  :", dm.hex())
            if d != dm:
                ctx.violation("dump", "array-dump-differs-from-model", detail)
    else:
        import random

        write_refusal(ctx, case, cfgd, cfg, cs.T, random.Random(0))
