"""C09  Stream discipline: position-independent and consistent across input kinds."""
from __future__ import annotations

import io

from .. import engine, gen, lib, model
from ..engine import case_detail, norm_or_err, sizes_tree
from ..streams import RecordingStream

N_CASES = {"quick": 70, "thorough": 1200}


def run_at(T, data, p):
    s = RecordingStream(data, p)
    try:
        with engine.guard():
            obj = T(s)
    except Exception as e:  # noqa: BLE001
        return ("err", e, None, s)
    return ("ok", obj, s.position(), s)


def judge(ctx, case, cfgd, cfg, cs, inp, rng, modeled):
    top = case["top"]
    T = cs.T
    # EOF arrays extend to the end of input by definition: the bytes after the extent are kept unchanged and the
    # upper bound on reads is not judged.  (A dynamic union used to be exempt as well: the library took the end of
    # its *last* member for its extent -- defect 76; it extends to the end of the member that reaches furthest.)
    has_eof = gen.has_eof(top)
    key0 = (case["text"], tuple(sorted(cfgd.items())), inp.hex())

    def viol(kind, sig, **kw):
        ctx.violation(kind, sig, case_detail(case, cfg=cfgd, data=inp, **kw))

    # baseline: the bytes on their own
    base = run_at(T, inp, 0)
    if base[0] != "ok":
        ctx.event("baseline_rejected")
        return
    bval, e = norm_or_err(base[1], top)
    if e:
        viol("norm", "unexpected-value-kind", error=e)
        return
    c = base[2]
    bsizes = sizes_tree(base[1], top)
    ctx.evaluation(key0)
    if modeled:
        exp = engine.expected_parse(case, cfg, inp, 0)
        if exp[0] == "ok" and (lib.nan_clean(model.clean(exp[1])) != bval or exp[2] != c):
            viol("model", "baseline-differs-from-model", got=bval, want=lib.nan_clean(model.clean(exp[1])),
                 consumed=c, model_consumed=exp[2])
            return
    lo = base[3].lowest_read_offset()
    hi = base[3].highest_read_end()
    if hi is not None and hi > c and not has_eof:
        viol("extent", "reads-beyond-the-encoded-extent", highest_read_end=hi, extent=c)

    # start offsets with random prefix / suffix
    step = 16 if cfgd["align"] else 1
    for p in {step * rng.randint(1, 9), step * rng.randint(1, 40), 1 * step}:
        pre = bytes(rng.randrange(256) for _ in range(p))
        body = inp if has_eof else inp[:c] + bytes(rng.randrange(256) for _ in range(rng.randint(0, 24)))
        r = run_at(T, pre + body, p)
        ctx.evaluation(key0 + ("offset", p, body.hex()))
        ctx.cell("offsets")
        ctx.event("log_events", len(r[3].log))
        if r[0] != "ok":
            viol("offset", f"parse-at-offset-raises:{type(r[1]).__name__}", offset=p, error=lib.exc_sig(r[1]))
            continue
        got, e = norm_or_err(r[1], top)
        if got != bval:
            viol("offset", "value-depends-on-start-offset-or-surrounding-bytes", offset=p, got=got, want=bval)
            continue
        if r[2] != p + c:
            viol("offset", "stream-not-left-at-start-plus-encoded-size", offset=p, got=r[2], want=p + c)
        sz = sizes_tree(r[1], top)
        if sz != bsizes:
            viol("offset", "_sizes-depend-on-start-offset", offset=p, got=sz, want=bsizes)
        lo = r[3].lowest_read_offset()
        if lo is not None and lo < p:
            viol("offset", "reads-before-the-start-position", offset=p, lowest=lo)
        hi = r[3].highest_read_end()
        if hi is not None and hi > p + c and not has_eof:
            viol("offset", "reads-beyond-the-encoded-extent", offset=p, highest_read_end=hi, extent_end=p + c)
        if modeled:
            exp = engine.expected_parse(case, cfg, pre + body, p)
            if exp[0] == "ok" and (lib.nan_clean(model.clean(exp[1])) != got or exp[2] != r[2]):
                viol("model", "parse-at-offset-differs-from-model", offset=p, got=got,
                     want=lib.nan_clean(model.clean(exp[1])))

    # histories: several values back to back on one stream
    if not has_eof:
        k = rng.randint(2, 4)
        parts = [inp[:c]]
        for _ in range(k - 1):
            if modeled:
                try:
                    parts.append(engine.model_input(case, cfg, rng, tail=0)[0])
                except model.ModelUnsupported:
                    parts.append(inp[:c])
            else:
                parts.append(inp[:c])
        p0 = 16 * rng.randint(0, 2)
        blob = bytes(rng.randrange(256) for _ in range(p0)) + b"".join(parts) + b"\x99" * 8
        s = RecordingStream(blob, p0)
        pos = p0
        ok = True
        for j, part in enumerate(parts):
            alone = run_at(T, part, 0)
            try:
                obj = T(s)
            except Exception as e:  # noqa: BLE001
                if alone[0] == "ok":
                    viol("history", f"read-{j}-on-shared-stream-raises:{type(e).__name__}", parts=[x.hex() for x in parts])
                ok = False
                break
            if alone[0] != "ok":
                ok = False
                break
            pos += alone[2]
            a, _ = norm_or_err(alone[1], top)
            g, _ = norm_or_err(obj, top)
            if a != g or s.position() != pos:
                viol("history", "read-in-a-sequence-differs-from-read-alone", index=j, got=g, want=a,
                     tell=s.position(), want_tell=pos, parts=[x.hex() for x in parts])
                ok = False
                break
        ctx.evaluation(key0 + ("history", k))
        ctx.event("histories")
        ctx.event("history_reads", len(parts) if ok else 0)

    # input kinds and call forms
    body = inp if has_eof else inp[:c] + b"\xA5" * 7
    forms = {
        "T(bytes)": lambda: T(bytes(body)),
        "T(bytearray)": lambda: T(bytearray(body)),
        "T(memoryview)": lambda: T(memoryview(body)),
        "T(BytesIO)": lambda: T(io.BytesIO(body)),
        "T.read(bytes)": lambda: T.read(bytes(body)),
        "T.read(bytearray)": lambda: T.read(bytearray(body)),
        "T.read(memoryview)": lambda: T.read(memoryview(body)),
        "T.read(BytesIO)": lambda: T.read(io.BytesIO(body)),
        "T.reads(bytes)": lambda: T.reads(bytes(body)),
        "T.reads(bytearray)": lambda: T.reads(bytearray(body)),
        "T.reads(memoryview)": lambda: T.reads(memoryview(body)),
        "cs.read(name, bytes)": lambda: cs.read("T", bytes(body)),
        "cs.read(name, BytesIO)": lambda: cs.read("T", io.BytesIO(body)),
        "cs.read(name, memoryview)": lambda: cs.read("T", memoryview(body)),
        # subclasses of the bytes-like types (the value of a parsed char[n] field is one)
        "T(bytes-subclass)": lambda: T(_Bytes(body)),
        "T.read(bytes-subclass)": lambda: T.read(_Bytes(body)),
        "T.reads(bytearray-subclass)": lambda: T.reads(_ByteArray(body)),
        "cs.read(name, bytearray-subclass)": lambda: cs.read("T", _ByteArray(body)),
        "T(char-array-value)": lambda: T(cs.char[len(body)](body)) if len(body) != 1 else T(_Bytes(body)),
        # views that do not cover their underlying object: slices of bytes / bytearray, and a cast view
        "T(memoryview-slice)": lambda: T(memoryview(b"\x11\x22\x33" + body + b"\x44")[3:-1]),
        "T.reads(memoryview-slice)": lambda: T.reads(memoryview(bytearray(b"\x99" * 5 + body))[5:]),
        "T.read(memoryview-cast)": lambda: T.read(memoryview(b"\x77" * 2 + body)[2:].cast("B")),
        # views that are not contiguous: every second byte of an interleaved buffer, a reversed buffer read backwards
        "T(memoryview-strided)": lambda: T(memoryview(bytes(b for x in body for b in (x, 0xEE)))[::2]),
        "T.reads(memoryview-reversed)": lambda: T.reads(memoryview(body[::-1])[::-1]),
        "cs.read(name, memoryview-strided)": lambda: cs.read("T", memoryview(bytes(b for x in body for b in (0xEE, x)))[1::2]),
    }
    for name, fn in forms.items():
        ctx.evaluation(key0 + (name,))
        ctx.cell("form:" + name)
        try:
            obj = fn()
        except Exception as e:  # noqa: BLE001
            viol("forms", f"call-form-raises:{type(e).__name__}", form=name, error=lib.exc_sig(e))
            continue
        got, e = norm_or_err(obj, top)
        if got != bval:
            viol("forms", "call-form-or-input-kind-changes-the-value", form=name, got=got, want=bval)
    for name in ("T(BytesIO)", "T.read(BytesIO)", "cs.read(name, BytesIO)"):
        s = io.BytesIO(body)
        (T if name[0] == "T" and "read" not in name else None)
        try:
            if name == "T(BytesIO)":
                T(s)
            elif name == "T.read(BytesIO)":
                T.read(s)
            else:
                cs.read("T", s)
        except Exception:  # noqa: BLE001
            continue
        if s.tell() != c and not has_eof:
            viol("forms", "stream-position-after-call-form", form=name, got=s.tell(), want=c)


def gen_opts(rng, thorough):
    o = dict(dyn_unions=rng.random() < 0.3)
    if thorough:
        o.update(max_fields=rng.choice([6, 9, 12]), max_depth=3)
    return o


def check_case(ctx, case, rng):
    top = case["top"]
    dyn_union = gen.has_dynamic_union(top)
    for cfgd in engine.std_configs(rng, ctx.thorough, top):
        cfg = engine.mcfg(case, cfgd["endian"], cfgd["align"], cfgd["ptr"])
        cs, err = engine.load_cfg(ctx, case, cfgd)
        if cs is None:
            ctx.event("load_rejected")
            continue
        ctx.cell(f"align:{cfgd['align']}", f"compiled:{bool(cs.T.__compiled__)}")
        inputs = []
        if dyn_union:
            ctx.cell("dynamic-union")
            inputs = [(gen.arbitrary_bytes(rng, 96, m), False) for m in (2, 3)]
        else:
            try:
                inputs.append((engine.model_input(case, cfg, rng, tail=8)[0], True))
            except model.ModelUnsupported:
                pass
            inputs.append((gen.arbitrary_bytes(rng, 96, rng.choice((1, 2, 3))), True))
        for inp, modeled in inputs:
            judge(ctx, case, cfgd, cfg, cs, inp, rng, modeled)


def top_level_union(rng):
    """A union as the type that is called directly (its call forms go through UnionMetaType.__call__): static ones
    with members of different extents (struct members with padding or unnamed bits, arrays, scalars), and dynamic
    ones (a NUL-terminated or counted member)."""
    from ..gen import F, L_NULL, L_expr, N_array, N_char, N_int, N_struct
    from . import c11

    if rng.random() < 0.25:
        members = [F("name", N_array(rng.choice([N_char(), N_int("uint16")]), L_NULL)),
                   F("magic", N_int(rng.choice(["uint32", "uint16", "uint64"])))]
        if rng.random() < 0.5:
            members.reverse()
        if rng.random() < 0.4:
            members.append(F("pair", N_struct([F("n", N_int("uint8"), len_src=True),
                                               F("d", N_array(N_int("uint8"), L_expr("n & 3")))])))
        top = N_struct(members, name="T", union=True, decl="top")
        case = gen.finish_case([{"d": "struct", "node": top}], top, {}, ["union", "dynamic-union"])
        case["named"] = {}
        return case
    while True:
        case, upath = c11.make_union_case(rng)
        if not upath:
            return case


def _mmap_of(path):
    import mmap

    with open(path, "rb") as fh:
        return mmap.mmap(fh.fileno(), 0, access=mmap.ACCESS_READ)


class _Reader:
    """The least a seekable file-like object is: read, seek and tell over some bytes."""

    def __init__(self, data):
        self.data = bytes(data)
        self.pos = 0

    def read(self, n=-1):
        if n is None or n < 0:
            n = max(0, len(self.data) - self.pos)
        out = self.data[self.pos:self.pos + n]
        self.pos += len(out)
        return out

    def seek(self, offset, whence=io.SEEK_SET):
        if whence == io.SEEK_CUR:
            offset += self.pos
        elif whence == io.SEEK_END:
            offset += len(self.data)
        self.pos = offset
        return self.pos

    def tell(self):
        return self.pos


class _SlotsReader:
    """A file-like object of a class with __slots__ (no __dict__, no __weakref__: it cannot be weakly referenced)."""
    __slots__ = ("b",)

    def __init__(self, data):
        self.b = io.BytesIO(bytes(data))

    def read(self, n=-1):
        return self.b.read(n)

    def seek(self, *a):
        return self.b.seek(*a)

    def tell(self):
        return self.b.tell()


class _Bytes(bytes):
    """A subclass of bytes (what a parsed char[n] field holds is one, too)."""


class _ByteArray(bytearray):
    pass


def pointer_tables(ctx, rng, n):
    """Pointers parsed from a stream are dereferenced on that stream: a table of fixed-size entries that point at data
    behind the table gives the same targets for every input kind, call form and start offset (the entries of counted,
    fixed and nested arrays, and plain members)."""
    import os
    import struct
    import tempfile

    text = ("struct entry { uint16 id; char *name; };\n"
            "struct pair { uint32 *num; entry e; };\n"
            "union uref { entry e; uint8 raw[12]; };\n"
            "struct table { uint8 count; entry entries[count]; pair p; entry fixed[2]; uref u; uint8 end; };\n")
    tmpdir = tempfile.mkdtemp(prefix="vf-c09p-")
    try:
        for it in range(n):
            endian = rng.choice("<>")
            ptr = rng.choice(["uint32", "uint64", "uint16"])
            psz = {"uint16": 2, "uint32": 4, "uint64": 8}[ptr]
            pf = endian + {2: "H", 4: "I", 8: "Q"}[psz]
            compiled = rng.random() < 0.5
            cs = lib.load(text, endian, False, compiled, ptr=ptr)
            count = rng.randint(0, 5)
            nent = count + 1 + 2 + 1      # counted entries, the one in `pair`, the fixed two, the one inside the union
            names = [bytes(rng.randrange(97, 123) for _ in range(rng.randint(0, 6))) for _ in range(nent)]
            num = rng.randrange(1 << 32)
            tsize = 1 + (nent - 1) * (2 + psz) + psz + 12 + 1

            def blob_at(p, prefix):
                pos = p + tsize
                addrs = []
                tail = b""
                for nm in names:
                    addrs.append(pos + len(tail))
                    tail += nm + b"\x00"
                numaddr = pos + len(tail)
                tail += struct.pack(endian + "I", num)
                ent = [struct.pack(endian + "H", 0x100 + i) + struct.pack(pf, a) for i, a in enumerate(addrs)]
                body = (bytes([count]) + b"".join(ent[:count]) + struct.pack(pf, numaddr) + ent[count]
                        + b"".join(ent[count + 1:count + 3]) + ent[count + 3].ljust(12, b"\x00") + b"\x7e")
                assert len(body) == tsize
                return prefix + body + tail + b"\xcc" * 3

            def targets(obj):
                out = [obj.count, obj.end, int(obj.p.num.dereference())]
                for e in [*obj.entries, obj.p.e, *obj.fixed, obj.u.e]:
                    out.append((e.id, e.name.dereference()))
                return out

            want = [count, 0x7e, num] + [(0x100 + i, nm) for i, nm in enumerate(names)]
            for p in (0, rng.choice([1, 5, 16, 100])):
                prefix = bytes(rng.randrange(256) for _ in range(p))
                blob = blob_at(p, prefix)
                path = os.path.join(tmpdir, "t.bin")
                with open(path, "wb") as fh:
                    fh.write(blob)
                kinds = {
                    "BytesIO": lambda: io.BytesIO(blob), "buffered-file": lambda: open(path, "rb"),
                    "unbuffered-file": lambda: open(path, "rb", buffering=0),
                    "recording": lambda: RecordingStream(blob, 0), "minimal-reader": lambda: _Reader(blob),
                    "mmap": lambda: _mmap_of(path), "slots-reader": lambda: _SlotsReader(blob),
                }
                if p == 0:
                    kinds.update({"bytes": lambda: blob, "bytearray": lambda: bytearray(blob),
                                  "memoryview": lambda: memoryview(blob), "bytes-subclass": lambda: _Bytes(blob),
                                  "bytearray-subclass": lambda: _ByteArray(blob),
                                  "char-array-value": lambda: cs.char[len(blob)](blob)})
                for kname, mk in kinds.items():
                    for form, call in (("T(x)", lambda x: cs.table(x)), ("T.read(x)", lambda x: cs.table.read(x)),
                                       ("cs.read(name, x)", lambda x: cs.read("table", x))):
                        ctx.evaluation(("pointer-table", it, p, kname, form, endian, ptr, compiled))
                        ctx.cell("pointer-table:" + kname)
                        x = mk()
                        try:
                            if hasattr(x, "seek"):
                                x.seek(p)
                            obj = call(x)
                            got = targets(obj)
                            pos = None
                            if hasattr(x, "tell"):
                                pos = x.position() if isinstance(x, RecordingStream) else None
                        except Exception as e:  # noqa: BLE001
                            ctx.violation("forms", f"pointer-table-raises:{type(e).__name__}",
                                          {"input": kname, "form": form, "offset": p, "endian": endian, "ptr": ptr,
                                           "compiled": compiled, "blob": blob.hex(), "error": lib.exc_sig(e),
                                           "workload": "pointer-tables"})
                            continue
                        finally:
                            if hasattr(x, "close"):
                                x.close()
                        ctx.event("pointer_targets_compared", len(got))
                        if got != want:
                            ctx.violation("forms", "pointers-of-parsed-entries-do-not-dereference-on-the-input-they-came-from",
                                          {"input": kname, "form": form, "offset": p, "endian": endian, "ptr": ptr,
                                           "compiled": compiled, "blob": blob.hex(), "got": repr(got), "want": repr(want),
                                           "workload": "pointer-tables"})
    finally:
        import shutil

        shutil.rmtree(tmpdir, ignore_errors=True)


def direct_types(ctx, rng, n):
    """Non-structure types parsed directly: scalars, enums, arrays, pointers, unions, at arbitrary offsets, through
    BytesIO, real file objects (buffered and unbuffered) and buffers."""
    import os
    import tempfile

    from ..gen import F, L_NULL, L_fixed, N_array, N_char, N_float, N_int, N_leb, N_struct, N_wchar

    text = ("enum E : uint16 { EA, EB = 5 };\nflag FL : uint8 { F1, F2 };\nstruct S { uint8 a; uint24 b; };\n"
            "union U { uint32 w; uint8 b[4]; };\nstruct T { uint8 x; };\n")
    enode = {"k": "enum", "name": "E", "flag": False, "base": "uint16", "members": [["EA", 0], ["EB", 5]], "src": []}
    fnode = {"k": "enum", "name": "FL", "flag": True, "base": "uint8", "members": [["F1", 1], ["F2", 2]], "src": []}
    snode = N_struct([F("a", N_int("uint8")), F("b", N_int("uint24"))], name="S", decl="top")
    unode = N_struct([F("w", N_int("uint32")), F("b", N_array(N_int("uint8"), L_fixed(4)))], name="U", union=True,
                     decl="top")
    kinds = [
        ("uint32", N_int("uint32"), lambda cs: cs.uint32), ("int24", N_int("int24"), lambda cs: cs.int24),
        ("uint128", N_int("uint128"), lambda cs: cs.uint128), ("double", N_float("double"), lambda cs: cs.double),
        ("uleb128", N_leb("uleb128"), lambda cs: cs.uleb128), ("ileb128", N_leb("ileb128"), lambda cs: cs.ileb128),
        ("enum", enode, lambda cs: cs.E), ("flag", fnode, lambda cs: cs.FL),
        ("char[8]", N_array(N_char(), L_fixed(8)), lambda cs: cs.char[8]),
        ("char[]", N_array(N_char(), L_NULL), lambda cs: cs.char[None]),
        ("wchar[3]", N_array(N_wchar(), L_fixed(3)), lambda cs: cs.wchar[3]),
        ("wchar[]", N_array(N_wchar(), L_NULL), lambda cs: cs.wchar[None]),
        ("uint16[4]", N_array(N_int("uint16"), L_fixed(4)), lambda cs: cs.uint16[4]),
        ("uint16[2][3]", N_array(N_array(N_int("uint16"), L_fixed(3)), L_fixed(2)), lambda cs: cs.uint16[3][2]),
        ("int48[]", N_array(N_int("int48"), L_NULL), lambda cs: cs.int48[None]),
        ("E[3]", N_array(enode, L_fixed(3)), lambda cs: cs.E[3]),
        ("S[2]", N_array(snode, L_fixed(2)), lambda cs: cs.S[2]),
        ("S", snode, lambda cs: cs.S), ("U", unode, lambda cs: cs.U),
    ]
    tmpdir = tempfile.mkdtemp(prefix="vf-c09-")
    try:
        for it in range(n):
            for endian in "<>":
                cs = lib.load(text, endian, False, rng.random() < 0.5)
                cfg = model.Cfg(endian, False)
                for name, node, getter in kinds:
                    T = getter(cs)
                    v = model.random_value(node, rng, cfg, nonzero=False)
                    raw, _ = model.dump(node, v, cfg)
                    want = lib.nan_clean(model.clean(model.parse(node, raw, 0, cfg)[0]))
                    p = rng.choice([0, 1, 3, 7, 16, 33, 255, 4095, 4096, 70000])
                    blob = bytes(rng.randrange(256) for _ in range(min(p, 64))).rjust(p, b"\x5a") + raw + bytes(
                        rng.randrange(256) for _ in range(rng.randint(0, 9)))
                    path = os.path.join(tmpdir, "blob.bin")
                    with open(path, "wb") as fh:
                        fh.write(blob)
                    streams = {
                        "BytesIO": lambda: io.BytesIO(blob),
                        "buffered-file": lambda: open(path, "rb"),
                        "unbuffered-file": lambda: open(path, "rb", buffering=0),
                        "recording": lambda: RecordingStream(blob, 0),
                        # a memory-mapped file is a file-like object (read/seek/tell: parsed from where it stands) that
                        # also exports its bytes
                        "mmap": lambda: _mmap_of(path),
                    }
                    for sname, mk in streams.items():
                        ctx.evaluation(("direct", name, endian, sname, p, raw.hex()))
                        ctx.cell(f"direct:{sname}")
                        s = mk()
                        try:
                            s.seek(p)
                            for form, call in (("T(x)", lambda: T(s)), ("T.read(x)", lambda: T.read(s)),
                                               ("cs.read", None)):
                                if call is None:
                                    continue
                                s.seek(p)
                                obj = call()
                                got = lib.nan_clean(lib.norm(obj, node))
                                pos = s.tell() if not isinstance(s, RecordingStream) else s.position()
                                if got != want or pos != p + len(raw):
                                    ctx.violation("direct", "direct-type-parse-depends-on-offset-or-stream-kind",
                                                  {"type": name, "endian": endian, "stream": sname, "offset": p,
                                                   "form": form, "raw": raw.hex(), "got": repr(got), "want": repr(want),
                                                   "tell": pos, "want_tell": p + len(raw)})
                                    break
                        except Exception as e:  # noqa: BLE001
                            ctx.violation("direct", f"direct-type-parse-raises:{type(e).__name__}",
                                          {"type": name, "endian": endian, "stream": sname, "offset": p,
                                           "raw": raw.hex(), "error": lib.exc_sig(e)})
                        finally:
                            if hasattr(s, "close"):
                                s.close()
                    # a forward-only source (a pipe, a socket: nothing but read()): whatever T(x) does with it -- most
                    # types need nothing else -- T.read(x) and cs.read(name, x) do the same
                    class _Pipe:
                        def __init__(self, data):
                            self._s = io.BytesIO(data)

                        def read(self, n=-1):
                            return self._s.read(n)

                    def _try(fn):
                        try:
                            return ("ok", lib.nan_clean(lib.norm(fn(), node)))
                        except Exception as e:  # noqa: BLE001
                            return ("err", type(e).__name__)

                    tail_ = raw + b"\x00" * 4
                    outs = {"T(x)": _try(lambda: T(_Pipe(tail_))), "T.read(x)": _try(lambda: T.read(_Pipe(tail_)))}
                    if name in cs.typedefs or name in ("uint32", "int24", "uint128", "double", "uleb128", "ileb128"):
                        tn = {"enum": "E", "flag": "FL"}.get(name, name)
                        outs["cs.read(name, x)"] = _try(lambda: cs.read(tn, _Pipe(tail_)))
                    ctx.evaluation(("direct-pipe", name, endian, raw.hex()))
                    ctx.cell("direct:forward-only-stream")
                    if outs["T(x)"][0] == "ok":
                        ctx.event("forward_only_stream_parses")
                    if len({o[0] for o in outs.values()}) != 1 or (outs["T(x)"][0] == "ok" and
                                                                    any(o[1] != want for o in outs.values())):
                        ctx.violation("direct", "call-forms-differ-on-a-forward-only-stream",
                                      {"type": name, "endian": endian, "raw": raw.hex(), "outcomes": repr(outs),
                                       "want": repr(want)})
                    # a view whose items are wider than a byte, holding exactly as many *items* as the type has bytes
                    if name in ("char[8]", "uint16[4]", "wchar[3]", "uint32", "S"):
                        width = {"char[8]": 8, "uint16[4]": 8, "wchar[3]": 6, "uint32": 4, "S": 4}[name]
                        for fmt, isz in (("H", 2), ("I", 4)):
                            if len(raw) != width:
                                continue
                            wide = memoryview(raw + bytes(range(0x30, 0x30 + width * (isz - 1)))).cast(fmt)
                            ctx.evaluation(("direct-wide-view", name, endian, fmt, raw.hex()))
                            ctx.cell("direct:memoryview-of-wide-items")
                            outs2 = {"T(x)": _try(lambda: T(wide)), "T.read(x)": _try(lambda: T.read(wide)),
                                     "T.reads(x)": _try(lambda: T.reads(wide))}
                            if any(o != ("ok", want) for o in outs2.values()):
                                ctx.violation("direct", "call-forms-differ-on-a-view-of-items-wider-than-a-byte",
                                              {"type": name, "endian": endian, "format": fmt, "raw": raw.hex(),
                                               "outcomes": repr(outs2), "want": repr(want)})
                    # buffers: bytes / bytearray / memoryview slice
                    for bname, buf in (("bytes", raw + b"zz"), ("bytearray", bytearray(raw + b"zz")),
                                       ("memoryview-slice", memoryview(blob)[p:])):
                        ctx.evaluation(("direct-buf", name, endian, bname, raw.hex()))
                        if name in ("char[8]",) and bname == "bytes":
                            buf = raw + b"zz"  # not exactly the type's size: parsed, not the bytes shortcut
                        try:
                            got = lib.nan_clean(lib.norm(T.reads(buf), node))
                            got2 = lib.nan_clean(lib.norm(T(buf), node))
                            if got != want or got2 != want:
                                ctx.violation("direct", "direct-type-buffer-parse-differs",
                                              {"type": name, "endian": endian, "buffer": bname, "raw": raw.hex(),
                                               "got": repr(got), "got_call": repr(got2), "want": repr(want)})
                        except Exception as e:  # noqa: BLE001
                            ctx.violation("direct", f"direct-type-buffer-parse-raises:{type(e).__name__}",
                                          {"type": name, "endian": endian, "buffer": bname, "raw": raw.hex(),
                                           "error": lib.exc_sig(e)})
    finally:
        import shutil

        shutil.rmtree(tmpdir, ignore_errors=True)


def text_streams(ctx):
    """A stream that is not binary (its read() gives str) is not an input kind: every type raises on it -- none returns a
    value made of code points, none spins on the empty string that marks its end."""
    text = "enum E : uint16 { EA, EB = 5 };\nstruct S { uint8 a; uint24 b; };\nstruct Z { char s[]; uint8 t; };\nunion DU { char s[]; uint8 b; };"
    cs = lib.load(text)
    kinds = {"uint8": cs.uint8, "uint32": cs.uint32, "int24": cs.int24, "double": cs.double, "char": cs.char, "char[3]": cs.char[3],
             "char[]": cs.char[None], "wchar[]": cs.wchar[None], "uleb128": cs.uleb128, "ileb128[]": cs.ileb128[None],
             "enum": cs.E, "struct": cs.S, "struct-with-char[]": cs.Z, "dynamic-union": cs.DU, "uint16[2]": cs.uint16[2]}
    for name, T in kinds.items():
        for content in ("abc\x00def\x00", "a", "", "\x01\x02\x03\x04\x05\x06\x07\x08\x09"):
            ctx.evaluation(("text-stream", name, content))
            ctx.cell("text-mode-stream")
            try:
                with engine.guard():
                    v = T(io.StringIO(content))
                res = ("value", repr(v)[:80])
            except engine.ParseAbandoned:
                res = ("spins", None)
            except Exception as e:  # noqa: BLE001
                res = ("raises", type(e).__name__)
            if res[0] != "raises":
                ctx.violation("forms", "text-mode-stream-" + ("is-parsed-as-if-its-characters-were-bytes" if res[0] == "value"
                                                               else "makes-the-reader-spin"),
                              {"type": name, "content": repr(content), "got": res[1], "workload": "text-streams"})
            else:
                ctx.event("text_streams_refused")


def char_shortcut(ctx):
    """T(b) for a structure whose only field is char[n] and len(b) == n is value construction (by design);
    it must agree with parsing on value and dump."""
    for compiled in (True, False):
        cs = lib.load("struct T { char a[4]; };\nstruct S { char c; };", compiled=compiled)
        for T, b in ((cs.T, b"abcd"), (cs.S, b"x")):
            ctx.evaluation(("shortcut", compiled, b))
            ctx.cell("char-shortcut")
            a = T(b)
            p = T(io.BytesIO(b))
            fa = bytes(a.a if T is cs.T else a.c)
            fp = bytes(p.a if T is cs.T else p.c)
            if fa != fp or a.dumps() != p.dumps() or not (a == p):
                ctx.violation("forms", "char-shortcut-construction-differs-from-parsing",
                              {"compiled": compiled, "bytes": b.hex(), "constructed": repr(a), "parsed": repr(p)})


def ragged_ends_and_rebound_names(ctx, rng):
    """(a) Inputs that end inside the trailing padding of an aligned structure -- alone, as the last entry of an `[EOF]`
    array, as the last element of a counted array: whether such an input gives a value or an error is left open, but
    it is the same answer for every kind of input object and every call form, at offset 0 and at an aligned offset.
    (b) `cs.read(name, x)` looks the name up when it is called: after an alias (or the target of an alias of an alias)
    was re-bound, it reads what `cs.<name>(x)` reads."""
    import os
    import tempfile

    text = ("struct E { uint32 a; uint8 b; };\nstruct A { uint16 n; E items[EOF]; };\nstruct C { uint8 n; E items[n]; };\n"
            "struct W { uint64 q; uint16 w; E e; };")
    tmpdir = tempfile.mkdtemp(prefix="vf-C09-")
    try:
        for compiled in (True, False):
            for endian in "<>":
                cs = lib.load(text, endian, True, compiled)
                for name, full in (("E", 8), ("A", 4 + 3 * 8), ("C", 4 + 2 * 8), ("W", 24)):
                    T = getattr(cs, name)
                    data = bytearray(rng.randrange(1, 256) for _ in range(full))
                    if name == "C":
                        data[0] = 2
                    data = bytes(data)
                    for missing in (1, 2, 3):
                        for p0 in (0, 16):
                            body = data[:full - missing]
                            blob = bytes(rng.randrange(256) for _ in range(p0)) + body
                            path = os.path.join(tmpdir, "in.bin")
                            with open(path, "wb") as fh:
                                fh.write(blob)

                            def at(stream):
                                stream.seek(p0)
                                return stream

                            kinds = {"bytes": lambda: T(body), "bytearray": lambda: T(bytearray(body)), "memoryview": lambda: T(memoryview(body)),
                                     "BytesIO": lambda: T(at(io.BytesIO(blob))), "T.read(BytesIO)": lambda: T.read(at(io.BytesIO(blob))),
                                     "cs.read(BytesIO)": lambda: cs.read(name, at(io.BytesIO(blob))), "T.reads": lambda: T.reads(body),
                                     "recording": lambda: T(RecordingStream(blob, p0)), "reader-object": lambda: T(at(_Reader(blob))),
                                     "file": lambda: _with(open(path, "rb"), lambda f: T(at(f))),
                                     "file-unbuffered": lambda: _with(open(path, "rb", buffering=0), lambda f: T(at(f)))}
                            # (a memory-mapped file is left out here: it refuses to be positioned beyond its end, which
                            # skipping the missing padding asks for -- the stream's answer, not the library's)
                            res = {}
                            for k, fn in kinds.items():
                                if fn is None:
                                    continue
                                try:
                                    res[k] = ("ok", lib.stable_repr(fn()))
                                except Exception as e:  # noqa: BLE001
                                    res[k] = ("err",)
                            ctx.evaluation(("ragged-end", compiled, endian, name, missing, p0))
                            ctx.cell("input-ends-inside-trailing-padding")
                            if len(set(res.values())) != 1:
                                ctx.violation("forms", "input-kinds-disagree-on-an-input-that-lacks-trailing-padding",
                                              {"text": text, "type": name, "compiled": compiled, "endian": endian, "missing": missing, "offset": p0,
                                               "data": body.hex(), "outcomes": {k: v[0] for k, v in res.items()}, "workload": "ragged-ends"})
                            else:
                                ctx.event("ragged_ends_checked:" + next(iter(res.values()))[0])
    finally:
        import shutil

        shutil.rmtree(tmpdir, ignore_errors=True)
    # (b)
    for compiled in (True, False):
        cs = lib.cstruct()
        cs.load("typedef long mylong_t;\ntypedef mylong_t off_t;\nstruct rec { off_t pos; uint8 t; };", compiled=compiled)
        cs.add_type("inner", "int16")
        cs.add_type("outer", "inner")
        data = bytes(range(1, 17))
        ctx.evaluation(("rebound-names", compiled))
        ctx.cell("names-read-after-rebinding")
        hist = []
        try:
            for step, (nm, target) in enumerate([(None, None), ("inner", "int64"), ("inner", "uint8"), ("mylong_t", "int16"), ("mylong_t", "uint64")]):
                if nm:
                    cs.add_type(nm, target, replace=True)
                for name in ("outer", "inner", "off_t", "mylong_t"):
                    s1, s2 = io.BytesIO(data), io.BytesIO(data)
                    a = cs.read(name, s1)
                    b = getattr(cs, name)(s2)
                    c_ = cs.resolve(name)(data)
                    d_ = cs.read(name, data)
                    hist.append((step, name, int(a), s1.tell()))
                    if not (int(a) == int(b) == int(c_) == int(d_)) or s1.tell() != s2.tell() or s1.tell() != len(getattr(cs, name)):
                        ctx.violation("forms", "cs.read(name)-differs-from-the-other-call-forms-after-rebinding",
                                      {"history": hist[-6:], "got": [int(a), int(b), int(c_), int(d_)], "tells": [s1.tell(), s2.tell()],
                                       "compiled": compiled, "workload": "ragged-ends"})
                        raise StopIteration
            ctx.event("rebound_names_checked")
        except StopIteration:
            pass
        except Exception as e:  # noqa: BLE001
            ctx.violation("forms", f"rebinding-workload-raises:{type(e).__name__}", {"history": hist[-6:], "error": lib.exc_sig(e), "workload": "ragged-ends"})


def _with(res, fn):
    try:
        return fn(res)
    finally:
        res.close()


def run(ctx):
    if ctx.shard == 0:
        char_shortcut(ctx)
        text_streams(ctx)
    if ctx.shard == 4:
        ragged_ends_and_rebound_names(ctx, ctx.rng("ragged-ends"))
    if ctx.shard % 4 == 2:
        direct_types(ctx, ctx.rng("direct"), 2 if not ctx.thorough else 25)
    if ctx.shard % 4 == 3:
        pointer_tables(ctx, ctx.rng("pointer-tables"), 6 if not ctx.thorough else 120)
    if ctx.shard % 4 == 1:
        # to-end-of-stream arrays whose elements are read entry by entry (with an end-of-stream probe before each)
        from ..gen import F, L_EOF, N_array, N_int, N_struct

        for elem in (N_int("int24"), N_struct([F("a", N_int("uint8")), F("b", N_int("uint16"))]), N_int("uint48")):
            case = gen.simple_case([F("h", N_int("uint8")), F("x", N_array(elem, L_EOF))])
            case["named"] = {}
            ctx.cell("eof-array-of-entry-by-entry-elements")
            check_case(ctx, case, ctx.rng("eof-entry", repr(elem)))
    for i in range(N_CASES[ctx.tier]):
        if ctx.out_of_time():
            break
        rng = ctx.rng("case", i)
        if i % 5 == 4:
            case = top_level_union(rng)
            ctx.cell("top-level-union:" + ("dynamic" if gen.has_dynamic_union(case["top"]) else "static"))
        else:
            case = engine.make_case(rng, **gen_opts(rng, ctx.thorough))
        for t in case["feats"]:
            ctx.cell("feat:" + t)
        check_case(ctx, case, rng)
        if i < 2:
            ctx.sample({"text": case["text"], "feats": case["feats"]})


def replay(ctx, detail):
    if "ast" not in detail:
        print("record:", detail)
        import random as _r

        char_shortcut(ctx)
        text_streams(ctx)
        if detail.get("workload") == "ragged-ends":
            ragged_ends_and_rebound_names(ctx, ctx.rng("ragged-ends"))
        elif detail.get("workload") == "pointer-tables":
            pointer_tables(ctx, ctx.rng("pointer-tables"), 6)
        elif "stream" in detail or "buffer" in detail:
            direct_types(ctx, _r.Random(0), 1)
        return
    import random

    case = engine.case_from_detail(detail)
    cfgd = detail["cfg"]
    print("definition:\n" + case["text"])
    print("config:", cfgd)
    for k in ("offset", "got", "want", "form", "index", "error", "lowest", "highest_read_end"):
        if k in detail:
            print(f"{k}: {detail[k]}")
    cs, err = engine.load_cfg(ctx, case, cfgd)
    if cs is None:
        print("load error:", repr(err))
        return
    cfg = engine.mcfg(case, cfgd["endian"], cfgd["align"], cfgd["ptr"])
    inp = engine.unhex(detail["data"])
    for seed in range(6):
        judge(ctx, case, cfgd, cfg, cs, inp, random.Random(seed), not gen.has_dynamic_union(case["top"]))
