"""C13  Definition parsing ignores comments, spacing and order of unrelated definitions."""
from __future__ import annotations

import re

from .. import engine, gen, lib, model
from ..engine import norm_or_err, outcome, type_sig

N_CASES = {"quick": 40, "thorough": 700}

TOK = re.compile(r"[A-Za-z0-9_]+|\s+|<<|>>|.", re.S)
COMMENTS = ["/* c */", "/**/", "/* ; */", "/* { } */", "/* struct union enum typedef */", "/* it's \"quoted\" */",
            "/* multi\n line\n */", "/* // nested line marker */", "/* #define X 1 */", "/* a[3] */", "/*\t*/",
            "/* * / * */",
            # runs of asterisks at either end (documentation and banner styles), slashes and stars inside
            "/** doc **/", "/***/", "/****/", "/*** x ***/", "/******************/", "/*******************/", "/** a\n ** b\n **/",
            "/* a/b */", "/*/ */", "/* **/", "/*\\*/"]
LINE_COMMENTS = ["// c", "// ; }", "// struct x {", "//", "// /* not a block", "// it's"]
SPACES = [" ", "  ", "\t", "\n", "\r\n", " \n ", "\n\n"]


def boundaries(text):
    """Indices in `text` where something may be inserted between two tokens (also inside and between the brackets of
    array declarators): not on #define lines (the preprocessor is line-oriented), never inside a token."""
    out = []
    pos = 0
    depth = 0
    line_start = 0
    toks = TOK.findall(text)
    in_define = False
    for i, t in enumerate(toks):
        if pos == line_start or (pos > 0 and text[pos - 1] == "\n"):
            in_define = text[pos:].lstrip(" \t").startswith("#define")
        if "\n" in t:
            in_define = False
        if not in_define and i > 0 and not t.isspace() and pos > 0:
            prev = toks[i - 1]
            kind = ("ws" if prev.isspace() else "tight") + ":" + (prev.strip() or "_")[-1:] + "|" + t[:1]
            out.append((pos, kind))
        if t == "[":
            depth += 1
        if t == "]":
            depth = max(0, depth - 1)
        pos += len(t)
    # a #define line extends to its end: drop boundaries that sit on such a line
    res = []
    for p, kind in out:
        ls = text.rfind("\n", 0, p) + 1
        if text[ls:].lstrip(" \t").startswith("#define"):
            continue
        res.append((p, kind))
    return res


def mutate(text, rng, kind):
    bs = boundaries(text)
    if not bs:
        return text, []
    k = rng.randint(1, min(6, len(bs)))
    picks = sorted(rng.sample(bs, k), reverse=True)
    used = []
    for p, bk in picks:
        if kind == "comment":
            ins = rng.choice(COMMENTS)
        elif kind == "line":
            ins = " " + rng.choice(LINE_COMMENTS) + "\n"
        elif kind == "space":
            ins = rng.choice(SPACES)
        else:
            ins = rng.choice(COMMENTS + SPACES + [" " + c + "\n" for c in LINE_COMMENTS])
        text = text[:p] + ins + text[p:]
        used.append((bk, ins))
    # line endings as written by other platforms: the same definitions with \r\n (or bare \r) line ends
    x = rng.random()
    if x < 0.25:
        text = text.replace("\n", "\r\n")
        used.append(("line-ends", "crlf"))
    elif x < 0.3:
        text = text.replace("\n", "\r")
        used.append(("line-ends", "cr"))
    return text, used


def table_sig(cs, names):
    sig = {}
    for n in names:
        try:
            sig[n] = type_sig(cs.resolve(n))
        except Exception as e:  # noqa: BLE001
            sig[n] = f"unresolved:{type(e).__name__}"
    return sig


def decl_names(d):
    k = d["d"]
    if k == "define":
        return [d["name"]]
    if k == "enum":
        return [d["node"]["name"]] + [m[0] for m in d["node"]["members"]]
    if k == "struct":
        n = d["node"]
        names = [n["name"]]
        if n["decl"] == "typedef2":
            names += ["_" + n["name"], n["name"] + "_alt"]
        if n["decl"] in ("typedef3", "top2"):
            names += [n["name"] + "_alt", n["name"] + "_alt2"]
        return names
    if k == "typedef":
        return [d["name"]]
    return []


def reorder(case, rng):
    """A random dependency-respecting order of the top-level declarations."""
    decls = case["decls"]
    texts = [gen.render_decl(d) for d in decls]
    toks = [set(re.findall(r"[A-Za-z_][A-Za-z0-9_]*", t)) for t in texts]
    names = [set(decl_names(d)) for d in decls]
    deps = {i: {j for j in range(len(decls)) if j != i and names[j] & toks[i]} for i in range(len(decls))}
    order, done = [], set()
    remaining = set(range(len(decls)))
    while remaining:
        ready = [i for i in remaining if deps[i] <= done]
        if not ready:
            return None
        i = rng.choice(ready)
        order.append(i)
        done.add(i)
        remaining.discard(i)
    return [texts[i] for i in order], order


def type_names(case):
    names = ["T"]
    for d in case["decls"]:
        if d["d"] in ("struct", "enum", "typedef"):
            names += [n for n in decl_names(d) if not n.startswith(("E", "F")) or d["d"] != "enum" or n == d["node"]["name"]]
    return sorted({n for n in names if n})


def behaviour(cs, case, inputs):
    out = []
    for inp in inputs:
        r = outcome(cs.T, inp)
        if r[0] == "ok":
            v, e = norm_or_err(r[1], case["top"])
            out.append(("ok", repr(v), r[2], e))
        else:
            out.append(("err", type(r[1]).__name__))
    return out


def check_case(ctx, case, rng):
    text = case["text"]
    cfgd = {"endian": rng.choice("<>"), "align": rng.random() < 0.5, "compiled": rng.random() < 0.5, "ptr": "uint64"}
    try:
        ref = lib.load(text, cfgd["endian"], cfgd["align"], cfgd["compiled"])
    except Exception:  # noqa: BLE001
        ctx.event("reference_load_rejected")
        return
    names = type_names(case)
    cfg = engine.mcfg(case, cfgd["endian"], cfgd["align"])
    inputs = []
    try:
        inputs.append(engine.model_input(case, cfg, rng)[0])
    except Exception:  # noqa: BLE001
        pass
    inputs.append(gen.arbitrary_bytes(rng, 96, 2))
    ref_sig = table_sig(ref, names)
    ref_consts = {k: repr(v) for k, v in ref.consts.items()}
    ref_beh = behaviour(ref, case, inputs)

    def compare(variant, label, how):
        ctx.evaluation((text, label, repr(how)))
        try:
            cs = lib.cstruct(endian=cfgd["endian"])
            if isinstance(variant, list):
                for part in variant:
                    cs.load(part, compiled=cfgd["compiled"], align=cfgd["align"])
            else:
                cs.load(variant, compiled=cfgd["compiled"], align=cfgd["align"])
        except Exception as e:  # noqa: BLE001
            ctx.violation(label, f"mutated-text-rejected:{type(e).__name__}",
                          {"text": text, "variant": variant, "how": how, "error": lib.exc_sig(e), "cfg": cfgd})
            return
        sig = table_sig(cs, names)
        if sig != ref_sig:
            diff = [n for n in names if sig.get(n) != ref_sig.get(n)]
            ctx.violation(label, "types-differ-after-mutation",
                          {"text": text, "variant": variant, "how": how, "differing": diff, "cfg": cfgd,
                           "got": repr([sig[n] for n in diff])[:600], "want": repr([ref_sig[n] for n in diff])[:600]})
            return
        if {k: repr(v) for k, v in cs.consts.items()} != ref_consts:
            ctx.violation(label, "constants-differ-after-mutation", {"text": text, "variant": variant, "how": how})
            return
        beh = behaviour(cs, case, inputs)
        if beh != ref_beh:
            # a difference between two parses of the same bytes is deterministic: it shows again when both sides are
            # evaluated once more (an abandoned parse on a loaded machine does not, and is no verdict)
            again_ref, again = behaviour(ref, case, inputs), behaviour(cs, case, inputs)
            if again == again_ref:
                ctx.event("behaviour_difference_not_reproduced")
                return
            k = next((i for i, (a_, b_) in enumerate(zip(again, again_ref)) if a_ != b_), 0)
            ctx.violation(label, "parsing-behaviour-differs-after-mutation",
                          {"text": text, "variant": variant, "how": how, "cfg": cfgd,
                           "got": repr(again[k])[:600] if k < len(again) else None,
                           "want": repr(again_ref[k])[:600] if k < len(again_ref) else None,
                           "data": inputs[k].hex() if k < len(inputs) else None})
            return
        ctx.event(f"equivalent:{label}")

    for kind in ("comment", "line", "space", "mixed"):
        for _ in range(2 if not ctx.thorough else 4):
            variant, used = mutate(text, rng, kind)
            for bk, ins in used:
                ctx.cell("boundary:" + bk)
            compare(variant, "insertion:" + kind, used)
    # every distinct kind of token boundary of this text gets one insertion of its own (the random picks above may
    # miss the rare ones, e.g. the blank before the comma of a list of names)
    by_kind = {}
    for pos, bk in boundaries(text):
        by_kind.setdefault(bk, []).append(pos)
    for bk in sorted(by_kind):
        pos = rng.choice(by_kind[bk])
        ins = rng.choice([" ", "\t", "\n", " /* c */ ", "/**/ ", " "])
        ctx.cell("boundary:" + bk)
        compare(text[:pos] + ins + text[pos:], "insertion:per-boundary", [(bk, ins)])
    # a comment *instead of* the whitespace between two tokens (in C a comment is a separator like a blank): every
    # whitespace run outside #define lines that sits at a token boundary is a candidate
    ws = [(m.start(), m.end()) for m in re.finditer(r"[ \t]+", text)
          if any(p == m.end() and k.startswith("ws:") for p, k in boundaries(text))]
    for _ in range(2 if not ctx.thorough else 5):
        if not ws:
            break
        picks = sorted(rng.sample(ws, min(len(ws), rng.randint(1, 5))), reverse=True)
        variant = text
        for a, b in picks:
            variant = variant[:a] + rng.choice(["/**/", "/* c */", "/*\n*/", "/*;*/", "/* // */"]) + variant[b:]
        ctx.cell("comment-replaces-whitespace")
        compare(variant, "replacement:comment-for-whitespace", [text[a - 3:b + 3] for a, b in picks])
    # a #define without a value (an empty macro) between the declarations defines nothing but itself
    lines = text.split("\n")
    k = rng.randrange(len(lines) + 1)
    while 0 < k < len(lines) and (lines[k - 1].count("{") != lines[k - 1].count("}") or not lines[k - 1].rstrip().endswith(";")
                                  and lines[k - 1].strip()):
        k -= 1
    if k == 0 or lines[k - 1].strip() == "" or lines[k - 1].rstrip().endswith(";") or lines[k - 1].startswith("#define"):
        depth = sum(ln.count("{") - ln.count("}") for ln in lines[:k])
        if depth == 0:
            empty = rng.choice(["#define VF_EMPTY", "#define VF_EMPTY  ", "#define VF_EMPTY\t"])
            variant = "\n".join(lines[:k] + [empty] + lines[k:])
            ctx.cell("define-without-value")
            ctx.evaluation((text, "empty-define", k))
            try:
                cs2 = lib.cstruct(endian=cfgd["endian"])
                cs2.load(variant, compiled=cfgd["compiled"], align=cfgd["align"])
                consts2 = {k_: repr(v) for k_, v in cs2.consts.items() if k_ != "VF_EMPTY"}
                if table_sig(cs2, names) != ref_sig or consts2 != ref_consts or cs2.consts.get("VF_EMPTY") != "" or \
                        behaviour(cs2, case, inputs) != ref_beh:
                    ctx.violation("define", "define-without-a-value-changes-the-definitions-around-it",
                                  {"text": text, "variant": variant, "cfg": cfgd, "empty": repr(cs2.consts.get("VF_EMPTY"))})
                else:
                    ctx.event("equivalent:empty-define")
            except Exception as e:  # noqa: BLE001
                ctx.violation("define", f"define-without-a-value-rejected:{type(e).__name__}",
                              {"text": text, "variant": variant, "cfg": cfgd, "error": lib.exc_sig(e)})
    ro = reorder(case, rng)
    if ro is not None:
        parts, order = ro
        if order != list(range(len(order))):
            compare("\n".join(parts) + "\n", "reorder", order)
            ctx.cell("reordered")
        # the same declarations split over several load() calls
        cut = sorted(rng.sample(range(1, len(parts)), min(len(parts) - 1, rng.randint(1, 3)))) if len(parts) > 1 else []
        if cut:
            chunks, last = [], 0
            for c in cut + [len(parts)]:
                chunks.append("\n".join(parts[last:c]) + "\n")
                last = c
            compare(chunks, "split-loads", {"order": order, "cuts": cut})
            ctx.cell("split-loads")


def aliases(ctx, rng):
    """Alias identity, redeclaration rules, unknown and cyclic aliases."""
    from dissect.cstruct.exceptions import ResolveError

    cs = lib.cstruct()
    for a, c in sorted({**gen.INT_ALIASES, **gen.OTHER_ALIASES}.items()):
        ctx.evaluation(("builtin-alias", a))
        try:
            if cs.resolve(a) is not cs.resolve(c):
                ctx.violation("alias", "builtin-synonym-resolves-to-another-type", {"alias": a, "target": c})
        except Exception as e:  # noqa: BLE001
            ctx.violation("alias", f"builtin-synonym-unresolvable:{type(e).__name__}", {"alias": a})
    ctx.cell("builtin-aliases")
    for i in range(30):
        # every other chain uses names that begin like a keyword / type / literal prefix
        px = gen.TRICKY_PREFIXES[(i // 2) % len(gen.TRICKY_PREFIXES)] if i % 2 else ""
        base = rng.choice(["uint16", "char", "int24", "WORD", "unsigned int"])
        depth = rng.randint(1, 5)
        lines, prev = [], base
        for k in range(depth):
            lines.append(f"typedef {prev} {px}A{i}_{k};")
            prev = f"{px}A{i}_{k}"
        text = "\n".join(lines) + f"\ntypedef struct {px}_S{i} {{ {prev} x; {px}A{i}_0 y[2]; }} {px}S{i}, {px}S{i}b, {px}S{i}c;\n"
        ctx.evaluation(("chain", text))
        ctx.cell("alias-chain")
        try:
            cs = lib.load(text)
            tgt = cs.resolve(base)
            for k in range(depth):
                if cs.resolve(f"{px}A{i}_{k}") is not tgt:
                    ctx.violation("alias", "typedef-chain-resolves-to-another-type", {"text": text, "alias": f"{px}A{i}_{k}"})
            s = cs.resolve(f"{px}S{i}")
            for n in (f"{px}_S{i}", f"{px}S{i}b", f"{px}S{i}c"):
                if cs.resolve(n) is not s:
                    ctx.violation("alias", "struct-typedef-names-are-different-types", {"text": text, "alias": n})
            if s.fields["x"].type is not tgt:
                ctx.violation("alias", "field-of-alias-type-bound-to-another-type", {"text": text})
            # same target again: accepted; different target: rejected
            cs.load(f"typedef {base} {px}A{i}_0;")
            cs.add_type(f"{px}A{i}_0", tgt)
            try:
                cs.load(f"typedef uint64 {px}A{i}_0;")
                ctx.violation("alias", "redeclaration-with-different-target-accepted", {"text": text})
            except ValueError:
                ctx.event("conflicting_redeclaration_rejected")
        except Exception as e:  # noqa: BLE001
            ctx.violation("alias", f"alias-workload-raises:{type(e).__name__}", {"text": text, "error": lib.exc_sig(e)})
    # aliases of array and pointer types: the same declaration again is the same target, any other one is not
    same = ["typedef uint8 R[2];", "typedef uint16 *R;", "typedef uint8 R[];", "typedef uint8 R[2][3];", "typedef uleb128 R[2];",
            "typedef S0 R[2];", "typedef S0 *R;", "typedef uint8 R[EOF];", "typedef uint8 **R;", "typedef uint16 *R[2];"]
    other = {"typedef uint8 R[2];": ["typedef uint8 R[3];", "typedef int8 R[2];", "typedef uint8 R[];", "typedef uint8 *R;", "typedef uint8 R;"],
             "typedef uint16 *R;": ["typedef uint8 *R;", "typedef uint16 **R;", "typedef uint16 R;", "typedef uint16 R[1];"],
             "typedef uint8 R[];": ["typedef uint8 R[EOF];", "typedef uint8 R[1];", "typedef uint16 R[];"],
             "typedef uint8 R[2][3];": ["typedef uint8 R[3][2];", "typedef uint8 R[6];"],
             "typedef uleb128 R[2];": ["typedef uleb128 R[3];", "typedef ileb128 R[2];", "typedef uleb128 R[];"],
             "typedef S0 R[2];": ["typedef S1 R[2];", "typedef S0 R[1];"], "typedef S0 *R;": ["typedef S1 *R;"],
             "typedef uint8 R[EOF];": ["typedef uint8 R[];", "typedef uint8 R[2];"], "typedef uint8 **R;": ["typedef uint8 *R;"],
             "typedef uint16 *R[2];": ["typedef uint16 *R[3];", "typedef uint16 R[2];"]}
    pre = "struct S0 { uint8 a; };\nstruct S1 { uint8 a; };\n"
    for first in same:
        for second in [first] + other[first]:
            ctx.evaluation(("array-pointer-alias", first, second))
            ctx.cell("alias-of-array-or-pointer-redeclared")
            try:
                cs = lib.load(pre + first + "\ntypedef R RB;")
                before = cs.resolve("R")
                try:
                    cs.load(second)
                    accepted = True
                except ValueError:
                    accepted = False
                if cs.resolve("RB") is not cs.resolve("R"):
                    ctx.violation("alias", "redeclaration-separates-an-alias-from-its-target",
                                  {"first": first, "second": second, "accepted": accepted})
                    continue
                if accepted != (second == first):
                    ctx.violation("alias", "redeclaration-of-array-or-pointer-alias-" + ("accepted-for-another-target" if accepted
                                  else "refused-for-the-same-target"), {"first": first, "second": second})
                elif not accepted and cs.resolve("R") is not before:
                    ctx.violation("alias", "refused-redeclaration-rebinds-the-alias", {"first": first, "second": second})
                else:
                    ctx.event("array_pointer_redeclarations_checked")
            except Exception as e:  # noqa: BLE001
                ctx.violation("alias", f"alias-workload-raises:{type(e).__name__}", {"first": first, "second": second,
                                                                                     "error": lib.exc_sig(e)})
    # by-name alias chains follow a replaced target: nothing resolved earlier may be remembered
    for i, (first, second) in enumerate((("uint64", "uint32"), ("uint16", "int24"), ("char", "uint8"))):
        ctx.evaluation(("replace", first, second))
        ctx.cell("alias-replace")
        try:
            cs = lib.cstruct()
            cs.add_type("PV", first)
            cs.add_type("H", "PV")
            cs.add_type("HH", "H")
            t1 = cs.resolve(first)
            if cs.resolve("HH") is not t1 or cs.resolve("H") is not t1:
                ctx.violation("alias", "by-name-alias-chain-resolves-to-another-type", {"first": first})
            cs.load("struct first_use { H h; HH hh; PV p; };")
            cs.add_type("PV", second, replace=True)
            t2 = cs.resolve(second)
            got = [cs.resolve(n) is t2 for n in ("PV", "H", "HH")] + [cs.H is t2]
            cs.load("struct second_use { H h; HH hh; PV p; };")
            if not all(got) or len(cs.second_use) != 3 * len(t2) or len(cs.first_use) != 3 * len(t1):
                ctx.violation("alias", "alias-keeps-a-replaced-target", {"first": first, "second": second, "resolved": got,
                                                                         "size": len(cs.second_use)})
            cs.typedefs["PV"] = "nowhere_t"
            try:
                cs.resolve("HH")
                ctx.violation("alias", "alias-of-an-unknown-target-still-resolves", {"first": first})
            except ResolveError:
                ctx.event("dangling_alias_rejected")
        except Exception as e:  # noqa: BLE001
            ctx.violation("alias", f"alias-replace-workload-raises:{type(e).__name__}", {"error": lib.exc_sig(e)})
    # re-declaring a built-in synonym (a string reference in the type table) for its own target is accepted,
    # for another target it is rejected; the same through the API
    for a, c in sorted(gen.INT_ALIASES.items()):
        if " " in a:
            continue
        ctx.evaluation(("redeclare-builtin", a))
        ctx.cell("redeclare-builtin")
        try:
            cs = lib.load(f"typedef {c} {a};\nstruct T {{ {a} x; }};")
            if cs.resolve(a) is not cs.resolve(c):
                ctx.violation("alias", "redeclared-builtin-synonym-resolves-elsewhere", {"alias": a, "target": c})
        except Exception as e:  # noqa: BLE001
            ctx.violation("alias", f"same-target-redeclaration-of-builtin-synonym-rejected:{type(e).__name__}",
                          {"alias": a, "target": c, "error": lib.exc_sig(e)})
        other = "uint64" if gen.ALL_INTS[c][0] != 8 else "uint8"
        try:
            lib.load(f"typedef {other} {a};")
            ctx.violation("alias", "builtin-synonym-redeclared-with-another-target", {"alias": a, "target": other})
        except ValueError:
            ctx.event("conflicting_redeclaration_rejected")
        except Exception as e:  # noqa: BLE001
            ctx.violation("alias", f"conflicting-redeclaration-not-a-ValueError:{type(e).__name__}", {"alias": a})
    cs = lib.cstruct()
    try:
        cs.add_type("al_a", "uint8")
        cs.add_type("al_b", "al_a")
        cs.add_type("al_b", "BYTE")      # same target through another chain
        cs.add_type("al_b", cs.uint8)
        if cs.resolve("al_b") is not cs.uint8:
            ctx.violation("alias", "api-alias-chain-resolves-elsewhere", {})
        try:
            cs.add_type("al_b", "uint16")
            ctx.violation("alias", "api-redeclaration-with-different-target-accepted", {})
        except ValueError:
            pass
    except Exception as e:  # noqa: BLE001
        ctx.violation("alias", f"api-same-target-redeclaration-rejected:{type(e).__name__}", {"error": lib.exc_sig(e)})
    # unknown and cyclic aliases
    for text in ["struct T { nosuchtype a; };", "typedef nosuch X;", "struct T { uint8 a; struct missing b; };"]:
        ctx.evaluation(("unknown", text))
        ctx.cell("unknown-alias")
        try:
            lib.load(text)
            ctx.violation("alias", "unknown-type-accepted", {"text": text})
        except ResolveError:
            ctx.event("unknown_alias_resolve_error")
        except Exception as e:  # noqa: BLE001
            ctx.violation("alias", f"unknown-type-not-a-resolve-error:{type(e).__name__}", {"text": text})
    for n in (1, 2, 3, 12):
        cs = lib.cstruct()
        for k in range(n):
            cs.add_type(f"cyc{k}", f"cyc{(k + 1) % n}", replace=True)
        ctx.evaluation(("cycle", n))
        ctx.cell("cyclic-alias")
        try:
            cs.resolve("cyc0")
            ctx.violation("alias", "cyclic-alias-resolved", {"cycle": n})
        except ResolveError:
            ctx.event("cyclic_alias_resolve_error")
        except Exception as e:  # noqa: BLE001
            ctx.violation("alias", f"cyclic-alias-not-a-resolve-error:{type(e).__name__}", {"cycle": n})
        try:
            cs.load("struct U { cyc0 a; };")
            ctx.violation("alias", "cyclic-alias-bound-in-a-field", {"cycle": n})
        except ResolveError:
            pass
        except Exception as e:  # noqa: BLE001
            ctx.violation("alias", f"cyclic-alias-in-field-not-a-resolve-error:{type(e).__name__}", {"cycle": n})


def keyword_like_fields(ctx):
    """Fields whose name is a definition keyword of this library but an ordinary identifier in C (flag), or begins
    like one, in every declarator form and spacing, followed by further definitions."""
    for name in ("flag", "flags", "flag_", "enumx", "structx", "typedefx", "unionx"):
        for ws in ("", " ", "\t", "\n", " /* c */ "):
            text = (f"struct A {{ uint32 x:31; uint32 {name}{ws}:{ws}1; uint8 pad; }};\n"
                    f"struct B {{ uint8 {name}{ws}[{ws}2{ws}]{ws}; uint16 {name}2{ws}; }};\n"
                    f"flag F : uint8 {{ F1, F2 }};\nenum E : uint16 {{ E1 = 3 }};\nstruct C {{ F f; E e; B b; }};\n")
            ctx.evaluation(("keyword-like-field", name, ws))
            ctx.cell("keyword-like-field-names")
            try:
                cs = lib.load(text)
                got = ([(f.name, f.bits) for f in cs.A.__fields__], [f.name for f in cs.B.__fields__], len(cs.A), len(cs.B),
                       len(cs.C), int(cs.F.F2.value), int(cs.E.E1.value))
                want = ([("x", 31), (name, 1), ("pad", None)], [name, name + "2"], 5, 4, 7, 2, 3)
                if got != want:
                    ctx.violation("names", "keyword-like-field-name-changes-the-definitions",
                                  {"text": text, "got": repr(got), "want": repr(want)})
            except Exception as e:  # noqa: BLE001
                ctx.violation("names", f"keyword-like-field-name-rejected:{type(e).__name__}",
                              {"text": text, "error": lib.exc_sig(e)})


def tagged_typedef_declarators(ctx):
    """A typedef through the struct / union keyword whose name carries a pointer or array declarator: the tag names
    the structure itself, the typedef'd name the pointer to it / the array of it, `struct tag` in a later field means
    the structure, and the same holds for a structure that exists already."""
    from dissect.cstruct.types.base import BaseArray
    from dissect.cstruct.types.pointer import Pointer

    for kw in ("struct", "union"):
        for decl, kind in (("*ptag", "ptr"), ("arr[2]", "array"), ("* ptag", "ptr"), ("arr [ 2 ]", "array")):
            for existing in (False, True):
                name = "ptag" if kind == "ptr" else "arr"
                if existing:
                    text = f"{kw} tag {{ uint8 x; uint16 y; }};\ntypedef {kw} tag {decl};\n"
                else:
                    text = f"typedef {kw} tag {{ uint8 x; uint16 y; }} {decl};\n"
                text += f"struct user {{ {kw} tag a; uint8 z; tag b; {name} c; }};\n"
                ctx.evaluation(("tagged-typedef", kw, decl, existing))
                ctx.cell("tagged-typedef-declarators")
                det = {"text": text, "workload": "tagged-typedef-declarators"}
                try:
                    cs = lib.cstruct(pointer="uint16")
                    cs.load(text)
                    tag, named = cs.resolve("tag"), cs.resolve(name)
                    size = 3 if kw == "struct" else 2
                    facts = {
                        "tag is the structure": isinstance(tag, type) and issubclass(tag, lib.Structure) and len(tag) == size
                        and [f.name for f in tag.__fields__] == ["x", "y"],
                        "name is the derived type": (issubclass(named, Pointer) if kind == "ptr" else
                                                     issubclass(named, BaseArray) and named.num_entries == 2) and named.type is tag,
                        "fields of the user": [f.type is tag for f in cs.user.__fields__[:1]] == [True] and cs.user.__fields__[2].type is tag
                        and cs.user.__fields__[3].type is named,
                        "size of the user": len(cs.user) == size + 1 + size + (2 if kind == "ptr" else 2 * size),
                    }
                except Exception as e:  # noqa: BLE001
                    ctx.violation("aliases", f"tagged-typedef-with-declarator-rejected:{type(e).__name__}", dict(det, error=lib.exc_sig(e)))
                    continue
                bad = [k for k, ok in facts.items() if not ok]
                if bad:
                    ctx.violation("aliases", "tagged-typedef-with-declarator-binds-the-tag-or-the-name-to-the-wrong-type",
                                  dict(det, failing=bad, typedefs=repr({k: getattr(v, "__name__", v) for k, v in cs.typedefs.items()
                                                                       if k in ("tag", name)})))
                else:
                    ctx.event("tagged_typedef_declarators_checked")


def conflicting_structure_redeclarations(ctx):
    """A name that is bound to a structure cannot be silently re-declared with another layout: another bit width, bits
    against no bits, another member type of the same size, another order -- the second declaration is refused (or, if it
    were accepted, would have to win); the first layout never survives silently."""
    first = "typedef struct { uint16 kind : 4; uint16 length : 12; uint8 body[2]; } record_t;"
    seconds = ["typedef struct { uint16 kind : 8; uint16 length : 8; uint8 body[2]; } record_t;",
               "typedef struct { uint16 kind; uint16 length; uint8 body[2]; } record_t;",
               "typedef struct { uint16 kind : 4; uint16 length : 12; int8 body[2]; } record_t;",
               "typedef struct { uint16 length : 12; uint16 kind : 4; uint8 body[2]; } record_t;",
               "typedef union { uint16 kind : 4; uint16 length : 12; uint8 body[2]; } record_t;"]
    data = bytes([0x23, 0x01, 0x02, 0x00, 0x09, 0x09])
    for second in seconds:
        for compiled in (True, False):
            ctx.evaluation(("conflicting-redeclaration", second, compiled))
            ctx.cell("conflicting-structure-redeclarations")
            det = {"text": first, "variant": [first, second], "workload": "conflicting-redeclarations"}
            try:
                alone = lib.load(second, "<", False, compiled)
                want = (len(alone.record_t), lib.stable_repr(alone.record_t(data)))
                cs = lib.load(first, "<", False, compiled)
                before = (len(cs.record_t), lib.stable_repr(cs.record_t(data)))
                try:
                    cs.load(second, compiled=compiled)
                    accepted = True
                except ValueError:
                    accepted = False
                after = (len(cs.record_t), lib.stable_repr(cs.record_t(data)))
            except Exception as e:  # noqa: BLE001
                ctx.violation("alias", f"redeclaration-workload-raises:{type(e).__name__}", dict(det, error=lib.exc_sig(e)))
                continue
            if accepted and after != want:
                ctx.violation("alias", "conflicting-redeclaration-of-a-structure-accepted-and-ignored",
                              dict(det, got=repr(after), want=repr(want), before=repr(before)))
            elif not accepted and after != before:
                ctx.violation("alias", "refused-redeclaration-changed-the-type", dict(det, got=repr(after), before=repr(before)))
            else:
                ctx.event("conflicting_redeclarations_checked")


def enum_line_ends(ctx):
    """Enum members written one per line without commas (an extension the library supports): the same members whatever
    the line ends are (LF, CRLF, bare CR), with and without comments behind the members."""
    bodies = [("A", "B", "C"), ("A = 1", "B", "C = B + 1"), ("A = 0x10 // first", "B /* second */", "C")]
    for flag in (False, True):
        for body in bodies:
            ref = None
            for nl in ("\n", "\r\n", "\r"):
                text = ("flag" if flag else "enum") + " en : uint16 {" + nl + nl.join("  " + m for m in body) + nl + "};" + nl
                ctx.evaluation(("enum-line-ends", flag, body, nl))
                ctx.cell("enum-members-per-line")
                try:
                    cs = lib.load(text)
                    got = [(k, int(v.value)) for k, v in cs.en.__members__.items()]
                except Exception as e:  # noqa: BLE001
                    got = lib.exc_sig(e)
                if ref is None:
                    ref = got
                    if not isinstance(got, list) or [k for k, _ in got] != ["A", "B", "C"]:
                        ctx.violation("enum", "enum-members-per-line-not-recognised", {"text": text, "got": repr(got)})
                        break
                elif got != ref:
                    ctx.violation("enum", "enum-members-depend-on-the-kind-of-line-end",
                                  {"text": text, "got": repr(got), "want": repr(ref)})
                else:
                    ctx.event("enum_line_ends_checked")


def shared_names(ctx, rng, n):
    """Declarations that do not refer to each other but happen to use the same names where names are local: a
    constant (or an anonymous enum's member) named like a member of a named enum whose later members refer to it, and
    nested structures carrying the same tag inside different structures (as arrays of the same length, pointers,
    plain members).  Every block gives the types it gives alone, in every order and split into load() calls."""
    import itertools

    ints = ["uint8", "uint16", "uint32", "int16", "uint64", "int24"]
    for it in range(n):
        pre = rng.choice(["M", "MODE", "k"]) + "_"
        a, b_, c_, d_ = (pre + x for x in ("FIRST", "SECOND", "DEFAULT", "NEXT"))
        cval, eval_ = rng.sample(range(1, 40), 2)
        kind = rng.choice(["define", "anon-enum", "define-hex"])
        const_block = {"define": f"#define {a} {cval}\n", "anon-enum": f"enum {{ {a} = {cval} }};\n",
                       "define-hex": f"#define {a} {hex(cval)}\n"}[kind]
        ref_form = rng.choice([a, a, f"{a} + 1", f"({a})", f"{a}|0"])
        ebase = rng.choice(["uint8", "uint16", "uint32"])
        ekw = rng.choice(["enum", "enum", "flag"])
        enum_block = (f"{ekw} mode : {ebase} {{\n    {a} = {eval_},\n    {b_},\n    {c_} = {ref_form},\n    {d_}\n}};\n"
                      f"struct rec {{ mode m; uint8 pad; }};\n")
        tag = rng.choice(["entry", "item", "hdr"])
        cnt = rng.randint(1, 3)
        shape = rng.choice(["array", "array", "plain", "pointer", "array2"])

        def nested(outer, lead):
            fields = "".join(f" {rng.choice(ints)} {nm};" for nm in rng.sample(["id", "flags", "slot", "v", "w"], rng.randint(1, 3)))
            if rng.random() < 0.4:
                fields += f" char tag[{rng.randint(1, 3)}];"
            decl = {"array": f"entries[{cnt}]", "plain": "one", "pointer": "*ptr", "array2": f"grid[{cnt}][2]"}[shape]
            return f"struct {outer} {{\n    {lead} lead;\n    struct {tag} {{{fields} }} {decl};\n}};\n"

        rec_block, idx_block = nested("record", "uint8"), nested("index", rng.choice(["uint8", "uint16"]))
        user_block = f"struct user {{ uint8 d[{a}]; uint8 e; }};\n"      # refers to the constant: comes after it
        # a structure with a field of its own that is named like the constant and sizes an array (the same size text
        # as in `user`): the field read before the array is meant, wherever the constant is defined
        size_text = rng.choice([a, a, f"{a} * 2", f"({a})"])
        user_block = user_block.replace(f"d[{a}]", f"d[{size_text}]")
        shadow_block = f"struct shadow {{ uint8 {a}; char y[{size_text}]; uint8 tail; }};\n"
        if rng.random() < 0.3:
            shadow_block = f"struct shadow {{ struct {{ uint8 {a}; }}; char y[{size_text}]; uint8 tail; }};\n"
        blocks = {"const": const_block, "enum": enum_block, "record": rec_block, "index": idx_block, "user": user_block,
                  "shadow": shadow_block}
        owned = {"const": [], "enum": ["mode", "rec"], "record": ["record"], "index": ["index"], "user": ["user"],
                 "shadow": ["shadow"]}
        data = bytes(rng.randrange(1, 256) for _ in range(64))

        def facts(cs, names):
            out = {}
            for nm in names:
                T = cs.resolve(nm)
                f = [type_sig(T)]
                if hasattr(T, "__fields__"):
                    for d_ in (data, b"\x02" + data):
                        try:
                            o = T(d_)
                            f += [lib.stable_repr(o), o.dumps()]
                        except Exception as e:  # noqa: BLE001
                            f.append(type(e).__name__)
                out[nm] = repr(f)
            return out

        solo = {}
        try:
            for k, text in blocks.items():
                cs = lib.cstruct()
                cs.load((const_block if k == "user" else "") + text)
                solo[k] = facts(cs, owned[k])
            solo_const = lib.stable_repr(lib.cstruct().load(const_block).consts[a])
        except Exception as e:  # noqa: BLE001
            ctx.violation("shared-names", f"block-alone-rejected:{type(e).__name__}",
                          {"blocks": blocks, "error": lib.exc_sig(e), "workload": "shared-names"})
            continue
        keys = list(blocks)
        orders = [o for o in itertools.permutations(keys) if o.index("const") < o.index("user")]
        for order in rng.sample(orders, 6 if not ctx.thorough else 20):
            cuts = sorted(rng.sample(range(1, len(order)), rng.randint(0, 3)))
            chunks, last = [], 0
            for c in cuts + [len(order)]:
                chunks.append("".join(blocks[k] for k in order[last:c]))
                last = c
            ctx.evaluation(("shared-names", it, order, tuple(cuts)))
            ctx.cell("shared-local-names:" + ("split" if cuts else "one-load"))
            det = {"variant": chunks, "order": order, "workload": "shared-names"}
            try:
                cs = lib.cstruct()
                for ch in chunks:
                    cs.load(ch)
                for k in keys:
                    got = facts(cs, owned[k])
                    if got != solo[k]:
                        bad = next(nm for nm in owned[k] if got[nm] != solo[k][nm])
                        ctx.violation("shared-names", "declaration-changes-an-unrelated-one-that-uses-the-same-local-name",
                                      dict(det, block=k, type=bad, got=got[bad][:500], want=solo[k][bad][:500]))
                        break
                else:
                    if lib.stable_repr(cs.consts[a]) != solo_const:
                        ctx.violation("shared-names", "constant-changed-by-an-enum-member-of-the-same-name",
                                      dict(det, got=repr(cs.consts[a]), want=solo_const))
                    else:
                        ctx.event("equivalent:shared-names")
            except Exception as e:  # noqa: BLE001
                ctx.violation("shared-names", f"combination-rejected:{type(e).__name__}", dict(det, error=lib.exc_sig(e)))


def string_constants(ctx):
    """A quoted #define value is a string whatever it spells and wherever it stands relative to other constants."""
    import itertools

    lines = ['#define a 1', '#define c "a"', '#define d "a + 1"', '#define e "1/0"', '#define f "7"', '#define g (a + 2)',
             "#define h 'a'"]
    want = {"a": 1, "c": "a", "d": "a + 1", "e": "1/0", "f": "7", "g": 3, "h": "a"}
    for perm in itertools.islice(itertools.permutations(lines), 0, 5040, 97):
        if perm.index('#define a 1') > perm.index('#define g (a + 2)'):
            continue      # g refers to a
        text = "\n".join(perm) + "\nstruct T { uint8 x[g]; };\n"
        ctx.evaluation(("string-constants", text))
        ctx.cell("string-constants")
        try:
            cs = lib.load(text)
            got = {k: cs.consts.get(k) for k in want}
            if got != want or len(cs.T) != 3:
                ctx.violation("consts", "string-constant-value-depends-on-other-definitions",
                              {"text": text, "got": repr(got), "want": repr(want)})
        except Exception as e:  # noqa: BLE001
            ctx.violation("consts", f"string-constant-rejected:{type(e).__name__}", {"text": text, "error": lib.exc_sig(e)})


def loads_with_differing_options(ctx):
    """Unrelated declarations given to one cstruct object in several load() calls, each call with its own `align` /
    `compiled` options (the same keyword with other values, a keyword left out, given positionally as a dict): every
    declaration comes out as it does when it is loaded alone with its options, in either order."""
    blocks = [("hdr", "struct hdr { uint8 kind; uint32 len; uint16 crc; };"),
              ("rec", "struct rec { uint16 id; uint64 stamp; uint8 flags; };\ntypedef rec rec_t;"),
              ("pt", "typedef struct { uint8 tag; uint32 x; uint32 y; } pt;")]
    data = bytes(range(1, 40))

    def facts(cs, name):
        T = getattr(cs, name)
        o = T(data)
        return (len(T), [f.offset for f in T.__fields__], bool(T.__align__), bool(T.__compiled__), lib.stable_repr(o), o.dumps().hex())

    opts = [dict(align=True), dict(align=False), dict(compiled=True), dict(compiled=False), dict(align=True, compiled=False),
            dict(align=False, compiled=True), dict()]
    import itertools

    for (na, ta), (nb, tb) in itertools.permutations(blocks, 2):
        for oa, ob in itertools.product(opts, opts):
            ctx.evaluation(("load-options", na, nb, repr(oa), repr(ob)))
            ctx.cell("loads-with-differing-options")
            det = {"first": ta, "second": tb, "first_options": oa, "second_options": ob, "workload": "load-options"}
            try:
                alone_a, alone_b = facts(lib.cstruct().load(ta, **oa), na), facts(lib.cstruct().load(tb, **ob), nb)
                cs = lib.cstruct()
                cs.load(ta, **oa)
                cs.load(tb, **ob)
                got_a, got_b = facts(cs, na), facts(cs, nb)
            except Exception as e:  # noqa: BLE001
                ctx.violation("load-options", f"loads-with-options-raise:{type(e).__name__}", dict(det, error=lib.exc_sig(e)))
                continue
            if got_a != alone_a or got_b != alone_b:
                ctx.violation("load-options", "declaration-depends-on-the-options-of-another-load-call",
                              dict(det, got=repr((got_a[:4], got_b[:4])), want=repr((alone_a[:4], alone_b[:4]))))
            else:
                ctx.event("load_options_checked")


def run(ctx):
    if ctx.shard == 0:
        aliases(ctx, ctx.rng("aliases"))
    if ctx.shard == 2:
        string_constants(ctx)
        enum_line_ends(ctx)
    if ctx.shard == 1:
        keyword_like_fields(ctx)
    if ctx.shard == 4:
        loads_with_differing_options(ctx)
    if ctx.shard == 3:
        tagged_typedef_declarators(ctx)
        conflicting_structure_redeclarations(ctx)
    if ctx.shard % 4 == 2:
        shared_names(ctx, ctx.rng("shared-names"), 8 if not ctx.thorough else 60)
    for i in range(N_CASES[ctx.tier]):
        if ctx.out_of_time():
            break
        rng = ctx.rng("case", i)
        case = engine.make_case(rng, dyn_unions=rng.random() < 0.2)
        check_case(ctx, case, rng)
        if i < 2:
            ctx.sample({"text": case["text"], "mutant": mutate(case["text"], rng, "mixed")[0]})


def replay(ctx, detail):
    print("original:\n" + detail.get("text", ""))
    print("variant:\n" + str(detail.get("variant")))
    print("how:", detail.get("how"), "error:", detail.get("error"))
    cfgd = detail.get("cfg")
    if not cfgd or "variant" not in detail:
        aliases(ctx, ctx.rng("aliases"))
        keyword_like_fields(ctx)
        string_constants(ctx)
        shared_names(ctx, ctx.rng("shared-names"), 8)
        tagged_typedef_declarators(ctx)
        conflicting_structure_redeclarations(ctx)
        loads_with_differing_options(ctx)
        return
    try:
        cs = lib.cstruct(endian=cfgd["endian"])
        v = detail["variant"]
        for part in (v if isinstance(v, list) else [v]):
            cs.load(part, compiled=cfgd["compiled"], align=cfgd["align"])
        ref = lib.load(detail["text"], cfgd["endian"], cfgd["align"], cfgd["compiled"])
        names = [n for n in ref.typedefs if n not in lib.cstruct().typedefs]
        if table_sig(cs, names) != table_sig(ref, names):
            ctx.violation("replay", "types-differ-after-mutation", detail)
    except Exception as e:  # noqa: BLE001
        print("variant load:", repr(e))
        ctx.violation("replay", f"mutated-text-rejected:{type(e).__name__}", detail)
