"""C18  Incrementally built or self-referential structures equal the one-shot definition."""
from __future__ import annotations

import io
import re

from .. import engine, gen, lib, model
from ..engine import case_detail, norm_or_err, outcome, type_sig

N_CASES = {"quick": 40, "thorough": 800}


def source_of(T):
    if not getattr(T, "__compiled__", False):
        return None
    src = getattr(T._read.__func__, "__source__", "")
    return src


def sig_without_name(T):
    s = type_sig(T)
    return (s[0],) + s[2:]


def behaviour(T, top, inputs, rename=None):
    out = []
    for inp in inputs:
        r = outcome(T, inp)
        if r[0] == "ok":
            v, e = norm_or_err(r[1], top)
            try:
                d = r[1].dumps()
            except Exception as ex:  # noqa: BLE001
                d = type(ex).__name__
            try:
                h = hash(r[1]) == hash(T(inp))
            except TypeError:
                h = "unhashable"
            sizes = {k: v2 for k, v2 in r[1]._sizes.items()}
            out.append(("ok", repr(v), r[2], d, bool(r[1]), r[1] == T(inp), h, repr(sorted(sizes.items()))))
        else:
            out.append(("err", type(r[1]).__name__))
    # inputs as short as a leading member (the constructor has a shortcut for a lone char member)
    for inp in inputs[:1]:
        for k in (1, 2, 3, 4, 8):
            try:
                o_ = T(bytes(inp[:k]))          # the bytes themselves, not a stream over them
                r = ("ok", o_)
            except Exception as ex:  # noqa: BLE001
                r = ("err", ex)
            out.append(("short", k, r[0], repr(norm_or_err(r[1], top)[0]) if r[0] == "ok" else type(r[1]).__name__,
                        hasattr(r[1], "_sizes") if r[0] == "ok" else None))
    # the structure as the element of arrays: a NUL-terminated one (ends at the all-default element) and a fixed one
    for inp in inputs:
        for count in (None, 2):
            try:
                with engine.guard():
                    arr = T[count](inp)
                out.append(("array", count, [repr(norm_or_err(e, top)[0]) for e in arr], T[count](inp).dumps()
                            if count is not None else len(arr)))
            except engine.ParseAbandoned:
                out.append(("array", count, "not-judged"))
            except Exception as ex:  # noqa: BLE001
                out.append(("array-err", count, type(ex).__name__))
    try:
        dflt = T()
        out.append(("default", repr(norm_or_err(dflt, top)[0]), dflt.dumps() if T.size is not None or True else None))
        # two default constructions never hand out the same mutable object (list / nested structure)
        other = T()
        shared = []
        for f in T.__fields__:
            va, vb = dflt.__dict__.get(f._name), other.__dict__.get(f._name)
            if va is vb and isinstance(va, (list, lib.Structure)):
                shared.append(f._name)
        out.append(("defaults-shared-between-instances", shared))
    except Exception as ex:  # noqa: BLE001
        out.append(("default-err", type(ex).__name__))
    return out


class Deliberate(Exception):
    pass


def use_intermediate(inc, rng):
    """Instances of the not yet complete structure exist before it is extended further."""
    try:
        if rng.random() < 0.5:
            # ... also as the elements of arrays (NUL-terminated ones compare against the all-default element)
            with engine.guard():
                inc[None](bytes(64))
                inc[2](bytes(64)) if inc.size is not None else None
        o = inc()
        if rng.random() < 0.5:
            o = inc(bytes(64))
        # ... and are written, compared, hashed and measured (whatever that computes per class must not be kept)
        o.dumps()
        o == inc()
        len(o)
        bool(o)
        try:
            hash(o)
        except TypeError:
            pass
    except Exception:  # noqa: BLE001
        pass


def split_pattern(rng, n):
    """A way to split n fields into add_field / commit steps: list of ('single', i) | ('batch', [i..])"""
    steps, i = [], 0
    while i < n:
        if rng.random() < 0.5:
            steps.append(("single", [i]))
            i += 1
        else:
            k = rng.randint(1, min(4, n - i))
            steps.append(("batch", list(range(i, i + k))))
            i += k
    return steps


def transitions(top, cfg):
    tags = set()
    dyn = False
    bits = False
    al = 1
    for f in top["fields"]:
        d = gen.node_dynamic(f["t"])
        if d and not dyn:
            tags.add("becomes-dynamic")
        dyn = dyn or d
        if f.get("bits") and not bits:
            tags.add("gains-bit-fields")
        bits = bits or bool(f.get("bits"))
        a = model.align_of(f["t"], cfg)
        if a > al:
            tags.add("alignment-grows")
            al = a
    return tags


def check_case(ctx, case, rng):
    from dissect.cstruct import compiler

    top = case["top"]
    for cfgd in engine.std_configs(rng, ctx.thorough, top)[: (8 if ctx.thorough else 4)]:
        cfg = engine.mcfg(case, cfgd["endian"], cfgd["align"], cfgd["ptr"])
        cs, err = engine.load_cfg(ctx, case, cfgd)
        if cs is None:
            ctx.event("load_rejected")
            continue
        T = cs.T

        def viol(kind, sig, **kw):
            ctx.violation(kind, sig, case_detail(case, cfg=cfgd, **kw))

        inputs = []
        try:
            inputs.append(engine.model_input(case, cfg, rng)[0])
        except model.ModelUnsupported:
            pass
        inputs.append(gen.arbitrary_bytes(rng, 96, 2))
        want_beh = behaviour(T, top, inputs)
        for rep in range(2 if not ctx.thorough else 3):
            steps = split_pattern(rng, len(T.__fields__))
            from dissect.cstruct.types.structure import Structure, Union

            base = Union if issubclass(T, Union) else Structure
            inc = cs._make_struct("T", [], align=cfgd["align"], base=base)
            # the reader is requested at the start -- or later: between two steps, or inside a batch
            compile_at = None
            if cfgd["compiled"] and base is Structure:
                if rng.random() < 0.65:
                    inc = compiler.compile(inc)
                else:
                    compile_at = (rng.randrange(len(steps)), rng.choice(["before", "inside"]))
                    ctx.cell("reader-requested-later:" + compile_at[1])
            used = raised = refused = 0
            try:
                for si, (kind, idxs) in enumerate(steps):
                    if compile_at == (si, "before") or (compile_at == (si, "inside") and kind == "single"):
                        inc = compiler.compile(inc)
                    elif compile_at == (si, "inside"):
                        with inc.start_update():
                            compiler.compile(inc)
                            for i in idxs:
                                f = T.__fields__[i]
                                inc.add_field(f.name, f.type, bits=f.bits)
                        continue
                    if rng.random() < 0.4:
                        use_intermediate(inc, rng)
                        used += 1
                    if inc.__fields__ and rng.random() < 0.25:
                        # an extension the structure refuses (a name it already has), alone or inside a batch with a
                        # good field: it raises and leaves nothing behind, later extensions work as before
                        dup = rng.choice(inc.__fields__)
                        if dup.name is not None and dup.name != "_" and not dup.name.startswith("__anonymous"):
                            try:
                                if rng.random() < 0.5:
                                    inc.add_field(dup.name, dup.type, bits=dup.bits)
                                else:
                                    with inc.start_update():
                                        inc.add_field("zz_extra", cs.uint8)
                                        inc.add_field(dup.name, dup.type, bits=dup.bits)
                                refused_ok = False
                            except ValueError:
                                refused_ok = True
                            refused += 1
                            if not refused_ok:
                                viol("build", "duplicate-field-name-accepted", steps=steps, name=dup.name)
                                break
                    if kind == "single":
                        f = T.__fields__[idxs[0]]
                        inc.add_field(f.name, f.type, bits=f.bits)
                    elif rng.random() < 0.3:
                        # the block is left by an exception after its fields were added: they are committed all the
                        # same (start_update commits on the way out), nothing half-updated stays behind
                        try:
                            with inc.start_update():
                                for i in idxs:
                                    f = T.__fields__[i]
                                    inc.add_field(f.name, f.type, bits=f.bits)
                                raise Deliberate
                        except Deliberate:
                            raised += 1
                    else:
                        with inc.start_update():
                            for i in idxs:
                                f = T.__fields__[i]
                                inc.add_field(f.name, f.type, bits=f.bits)
            except Exception as e:  # noqa: BLE001
                viol("build", f"incremental-build-raises:{type(e).__name__}", steps=steps, error=lib.exc_sig(e))
                continue
            ctx.evaluation((case["text"], tuple(sorted(cfgd.items())), repr(steps)))
            ctx.cell("pattern:" + ("all-single" if all(k == "single" for k, _ in steps) else
                                   "one-batch" if len(steps) == 1 else "mixed"))
            for t in transitions(top, cfg):
                ctx.cell("transition:" + t)
            if used:
                ctx.cell("instances-exist-before-extension")
            if raised:
                ctx.cell("batch-left-by-exception")
            if refused:
                ctx.cell("refused-extension-in-between")
            if sig_without_name(inc) != sig_without_name(T):
                viol("layout", "incremental-layout-differs-from-one-shot", steps=steps,
                     got=repr(sig_without_name(inc))[:500], want=repr(sig_without_name(T))[:500])
                continue
            if bool(inc.__compiled__) != bool(T.__compiled__):
                viol("reader", "compiled-state-differs-from-one-shot", steps=steps, got=bool(inc.__compiled__),
                     want=bool(T.__compiled__))
                continue
            if source_of(inc) != source_of(T):
                viol("reader", "generated-reader-source-differs-from-one-shot", steps=steps,
                     got=source_of(inc), want=source_of(T))
                continue
            if [f.name for f in inc.fields.values()] != [f.name for f in T.fields.values()] or \
                    list(inc.lookup) != list(T.lookup):
                viol("layout", "field-tables-differ-from-one-shot", steps=steps)
                continue
            got_beh = behaviour(inc, top, inputs)
            if got_beh != want_beh:
                k = next(i for i, (a, b) in enumerate(zip(got_beh, want_beh)) if a != b)
                viol("behaviour", "incremental-structure-behaves-differently", steps=steps,
                     got=repr(got_beh[k])[:500], want=repr(want_beh[k])[:500],
                     data=inputs[k] if k < len(inputs) else b"")
                continue
            ctx.event("equivalent")


SELF_REF = [
    ("list", "struct node { uint8 v; node *next; };",
     lambda pw: (b"\x01" + (1 + pw).to_bytes(pw, "little") + b"\x02" + (2 * (1 + pw)).to_bytes(pw, "little") + b"\x03"
                 + (0).to_bytes(pw, "little")), [1, 2, 3]),
]


def self_reference(ctx):
    from dissect.cstruct.exceptions import NullPointerDereference

    for compiled in (True, False):
        for ptr in ("uint8", "uint16", "uint32"):
            pw = {"uint8": 1, "uint16": 2, "uint32": 4}[ptr]
            for name, text, mk, want in SELF_REF:
                ctx.evaluation(("selfref", name, compiled, ptr))
                ctx.cell("self-reference")
                try:
                    cs = lib.load(text, "<", False, compiled, ptr)
                    data = mk(pw)
                    n = cs.node(io.BytesIO(data))
                    vals = []
                    cur = n
                    for _ in range(5):
                        vals.append(int(cur.v))
                        try:
                            cur = cur.next.dereference()
                        except NullPointerDereference:
                            break
                    ok = vals == want and len(cs.node) == 1 + pw and cs.node.fields["next"].type.type is cs.node
                    if compiled and not cs.node.__compiled__:
                        ok = False
                    if not ok:
                        ctx.violation("self-reference", "self-referential-structure-misbehaves",
                                      {"text": text, "compiled": compiled, "ptr": ptr, "walk": vals, "want": want,
                                       "size": len(cs.node), "is_compiled": bool(cs.node.__compiled__)})
                except Exception as e:  # noqa: BLE001
                    ctx.violation("self-reference", f"self-referential-structure-raises:{type(e).__name__}",
                                  {"text": text, "compiled": compiled, "ptr": ptr, "error": lib.exc_sig(e)})
            # back references that are not a direct pointer field: arrays of pointers, pointer to pointer, pointer
            # inside a nested member.  Every pointer must target the very class the name resolves to.
            shapes = [
                ("ptr-array", "struct node { uint8 v; node *next[2]; };",
                 lambda c: c.node.fields["next"].type.type.type),
                ("ptr-ptr", "struct node { uint8 v; node **pp; };", lambda c: c.node.fields["pp"].type.type.type),
                ("nested", "struct node { uint8 v; struct { node *l; node *r; } links; };",
                 lambda c: c.node.fields["links"].type.fields["l"].type.type),
            ]
            for sname, stext, target in shapes:
                ctx.evaluation(("selfref-shape", sname, compiled, ptr))
                ctx.cell("self-reference:" + sname)
                try:
                    cs = lib.load(stext, "<", False, compiled, ptr)
                    if target(cs) is not cs.node:
                        ctx.violation("self-reference", "back-reference-targets-another-class-than-the-name-resolves-to",
                                      {"text": stext, "compiled": compiled, "ptr": ptr, "shape": sname})
                        continue
                    if sname == "ptr-array":
                        # node0 at 0 -> next[0] = node1, next[1] = 0
                        sz = 1 + 2 * pw
                        data = (b"\x01" + sz.to_bytes(pw, "little") + (0).to_bytes(pw, "little")
                                + b"\x02" + (0).to_bytes(pw, "little") * 2)
                        n = cs.node(io.BytesIO(data))
                        if int(n.next[0].dereference().v) != 2 or len(cs.node) != sz:
                            ctx.violation("self-reference", "walk-through-pointer-array-fails",
                                          {"text": stext, "compiled": compiled, "ptr": ptr})
                except Exception as e:  # noqa: BLE001
                    ctx.violation("self-reference", f"self-referential-shape-raises:{type(e).__name__}",
                                  {"text": stext, "compiled": compiled, "ptr": ptr, "error": lib.exc_sig(e)})
            # a structure that contains a (zero-length, "flexible") array of itself: whatever the reader generator makes
            # of it, the definition loads and is built incrementally with the same result in both reader modes
            for how in ("text", "add_field", "start_update"):
                ctx.evaluation(("selfref-flexible-array", how, compiled, ptr))
                ctx.cell("self-reference:flexible-array-of-itself")
                ftext = "struct node { uint8 v; uint8 n; node kids[0]; };"
                try:
                    if how == "text":
                        cs = lib.load(ftext, "<", False, compiled, ptr)
                        N = cs.node
                    else:
                        from dissect.cstruct import compiler as _c

                        cs = lib.cstruct(pointer=ptr)
                        N = cs._make_struct("node", [])
                        if compiled:
                            N = _c.compile(N)
                        if how == "add_field":
                            N.add_field("v", cs.uint8)
                            N.add_field("n", cs.uint8)
                            N.add_field("kids", N[0])
                        else:
                            with N.start_update():
                                N.add_field("v", cs.uint8)
                                N.add_field("n", cs.uint8)
                                N.add_field("kids", N[0])
                    o = N(b"\x05\x06\x07")
                    if (len(N), int(o.v), int(o.n), list(o.kids), o.dumps(), [f.name for f in N.__fields__]) != \
                            (2, 5, 6, [], b"\x05\x06", ["v", "n", "kids"]):
                        ctx.violation("self-reference", "self-referential-structure-misbehaves",
                                      {"text": ftext, "compiled": compiled, "how": how, "got": lib.stable_repr(o)})
                except Exception as e:  # noqa: BLE001
                    ctx.violation("self-reference", f"self-referential-structure-raises:{type(e).__name__}",
                                  {"text": ftext, "compiled": compiled, "how": how, "error": lib.exc_sig(e)})
            # a pointer to the structure itself behind a variable-size member and an anonymous member: however the fields
            # are committed, the structure gets the reader the definition in one piece gets
            if ptr == "uint8":
                from dissect.cstruct import Field as _F
                from dissect.cstruct import compiler as _c2
                from dissect.cstruct.expression import Expression as _E2

                ctx.evaluation(("selfref-after-anonymous", compiled))
                ctx.cell("self-reference:pointer-to-itself-after-dynamic-and-anonymous-members")
                stext = "struct S { uint8 n; uint8 d[n]; struct { uint16 p; }; S *g; uint8 t; };"
                try:
                    states = {}
                    data = bytes([2, 9, 8, 1, 0, 0, 7])
                    for how in ("text", "batch", "single", "two-batches"):
                        cs = lib.cstruct(pointer="uint8")
                        if how == "text":
                            cs.load(stext, compiled=compiled)
                            S = cs.S
                        else:
                            A = cs._make_struct("A", [_F("p", cs.uint16)], anonymous=True)
                            S = cs._make_struct("S", [])
                            if compiled:
                                S = _c2.compile(S)
                            steps_ = [("n", cs.uint8), ("d", cs.uint8[_E2(cs, "n")]), (None, A), ("g", cs._make_pointer(S)), ("t", cs.uint8)]
                            if how == "batch":
                                with S.start_update():
                                    for n_, t_ in steps_:
                                        S.add_field(n_, t_)
                            elif how == "single":
                                for n_, t_ in steps_:
                                    S.add_field(n_, t_)
                            else:
                                with S.start_update():
                                    for n_, t_ in steps_[:2]:
                                        S.add_field(n_, t_)
                                with S.start_update():
                                    for n_, t_ in steps_[2:]:
                                        S.add_field(n_, t_)
                        o = S(data)
                        states[how] = (bool(S.__compiled__), source_of(S), S.dynamic, [int(x) for x in o.d], int(o.p), int(o.g), int(o.t),
                                       o.dumps())
                    if len({repr(v) for v in states.values()}) != 1:
                        ctx.violation("reader", "compiled-state-differs-from-one-shot",
                                      {"text": stext, "compiled": compiled, "states": repr({k: v[:3] for k, v in states.items()})[:600],
                                       "workload": "self-reference"})
                    else:
                        ctx.event("selfref_after_anonymous_checked")
                except Exception as e:  # noqa: BLE001
                    ctx.violation("self-reference", f"self-referential-structure-raises:{type(e).__name__}",
                                  {"text": stext, "compiled": compiled, "error": lib.exc_sig(e)})
            # forward reference with arrays and a later-defined twin: same layout as without self reference
            text2 = "struct T { uint8 n; T *self; T *arr[2]; uint16 t; };\nstruct P { uint8 n; uint8 *self; uint8 *arr[2]; uint16 t; };"
            try:
                cs = lib.load(text2, "<", True, compiled, ptr)
                a = [(f.name, f.offset, f.type.size) for f in cs.T.__fields__]
                b = [(f.name, f.offset, f.type.size) for f in cs.P.__fields__]
                ctx.evaluation(("selfref-layout", compiled, ptr))
                if a != b or len(cs.T) != len(cs.P) or bool(cs.T.__compiled__) != bool(cs.P.__compiled__):
                    ctx.violation("self-reference", "self-referential-layout-differs-from-plain-pointers",
                                  {"text": text2, "compiled": compiled, "ptr": ptr, "self": a, "plain": b})
            except Exception as e:  # noqa: BLE001
                ctx.violation("self-reference", f"forward-reference-raises:{type(e).__name__}",
                              {"text": text2, "error": lib.exc_sig(e)})


def special_sequences(ctx, rng):
    """Field sequences the generator does not produce, built in every split: repeated discard fields (`_`), and a
    structure that was already used as an array element / member of another one before it is extended."""
    from dissect.cstruct import compiler
    from dissect.cstruct.types.structure import Structure

    # (a) a, _, b, _, c
    for compiled in (True, False):
        for align in (False, True):
            one = lib.load("struct T { uint8 a; uint8 _; uint16 b; uint8 _; uint32 c; };", "<", align, compiled)
            T = one.T
            data = bytes(range(1, 40))
            want = (sig_without_name(T), source_of(T), [f.name for f in T.__fields__], repr(T(data)), T(data).dumps())
            for pattern in ([1, 1, 1, 1, 1], [2, 3], [2, 1, 2], [4, 1], [1, 4], [5], [3, 2], [1, 2, 2]):
                ctx.evaluation(("discard-sequence", compiled, align, repr(pattern)))
                ctx.cell("discard-fields-sequence")
                det = {"workload": "special-sequences", "pattern": pattern, "compiled": compiled, "align": align}
                try:
                    cs = lib.cstruct()
                    inc = cs._make_struct("T", [], align=align, base=Structure)
                    if compiled:
                        inc = compiler.compile(inc)
                    i = 0
                    for k in pattern:
                        if k == 1:
                            f = T.__fields__[i]
                            inc.add_field(f.name, getattr(cs, f.type.__name__), bits=f.bits)
                        else:
                            with inc.start_update():
                                for f in T.__fields__[i:i + k]:
                                    inc.add_field(f.name, getattr(cs, f.type.__name__), bits=f.bits)
                        i += k
                    got = (sig_without_name(inc), source_of(inc), [f.name for f in inc.__fields__], repr(inc(data)),
                           inc(data).dumps())
                except Exception as e:  # noqa: BLE001
                    ctx.violation("build", f"incremental-build-raises:{type(e).__name__}", dict(det, error=lib.exc_sig(e)))
                    continue
                if got != want:
                    k = next(j for j, (a, b) in enumerate(zip(got, want)) if a != b)
                    ctx.violation("behaviour", "incremental-structure-behaves-differently",
                                  dict(det, got=repr(got[k])[:300], want=repr(want[k])[:300]))
    # (b) Elem[n] / a container of Elem exist at an intermediate state; after the extension a *new* request for the
    # same array type, and a newly declared container, are those of the complete Elem
    for compiled in (True, False):
        for n in (1, 2, 3):
            ctx.evaluation(("array-of-intermediate", compiled, n))
            ctx.cell("array-of-intermediate-state")
            det = {"workload": "special-sequences", "compiled": compiled, "n": n}
            try:
                cs = lib.cstruct()
                elem = cs._make_struct("Elem", [], base=Structure)
                if compiled:
                    elem = compiler.compile(elem)
                cs.add_type("Elem", elem)
                elem.add_field("x", cs.uint8)
                early = elem[n]                      # looked at while incomplete
                cs.load(f"struct Early {{ Elem items[{n}]; }};", compiled=compiled)
                elem.add_field("y", cs.uint16)
                elem.add_field("z", cs.uint8)
                late = elem[n]
                cs.load(f"struct Box {{ uint8 head; Elem items[{n}]; uint16 tail; }};", compiled=compiled)
                ref = lib.load(f"struct Elem {{ uint8 x; uint16 y; uint8 z; }};\nstruct Box {{ uint8 head; Elem items[{n}]; "
                               f"uint16 tail; }};", "<", False, compiled)
                data = bytes(range(1, 60))
                got = (late.size, len(cs.Box), repr(cs.Box(data)), cs.Box(data).dumps(), [f.offset for f in cs.Box.__fields__])
                want = (4 * n, len(ref.Box), repr(ref.Box(data)), ref.Box(data).dumps(), [f.offset for f in ref.Box.__fields__])
            except Exception as e:  # noqa: BLE001
                ctx.violation("build", f"incremental-build-raises:{type(e).__name__}", dict(det, error=lib.exc_sig(e)))
                continue
            if got != want:
                k = next(j for j, (a, b) in enumerate(zip(got, want)) if a != b)
                ctx.violation("behaviour", "array-or-container-of-an-extended-structure-keeps-the-intermediate-state",
                              dict(det, got=repr(got[k])[:300], want=repr(want[k])[:300]))
    # (d) explicit offsets and bit-field rules in later commits: a field at an explicit forward offset after a
    # variable-size one makes the layout static again; a bit-field that would straddle its unit is refused in
    # whichever commit it arrives
    from dissect.cstruct import Field

    for compiled in (True, False):
        for align in (False, True):
            for split in ([2, 2], [1, 1, 2], [2, 1, 1], [4], [1, 3], [3, 1]):
                ctx.evaluation(("offset-after-dynamic", compiled, align, repr(split)))
                ctx.cell("explicit-offset-after-dynamic-field")
                det = {"workload": "special-sequences", "compiled": compiled, "align": align, "split": split,
                       "part": "offset-after-dynamic"}
                try:
                    cs = lib.cstruct()
                    specs = [("n", cs.uint8, None, None), ("data", cs.char[lib.Expression(cs, "n")] if hasattr(lib, "Expression")
                              else None, None, None), ("tail", cs.uint32, None, 16), ("after", cs.uint16, None, None)]
                    from dissect.cstruct.expression import Expression as _E

                    specs[1] = ("data", cs.char[_E(cs, "n")], None, None)
                    one = cs._make_struct("T", [Field(n_, t_, bits=b_, offset=o_) for n_, t_, b_, o_ in specs], align=align,
                                          base=Structure)
                    inc = cs._make_struct("T", [], align=align, base=Structure)
                    if compiled:
                        one, inc = compiler.compile(one), compiler.compile(inc)
                    i = 0
                    for k in split:
                        if k == 1:
                            n_, t_, b_, o_ = specs[i]
                            inc.add_field(n_, t_, bits=b_, offset=o_)
                        else:
                            with inc.start_update():
                                for n_, t_, b_, o_ in specs[i:i + k]:
                                    inc.add_field(n_, t_, bits=b_, offset=o_)
                        i += k
                    data = bytes([3]) + b"abc" + bytes(range(40))

                    def facts(T_):
                        o = T_(data)
                        return (T_.size, T_.dynamic, [f.offset for f in T_.__fields__], source_of(T_), int(o.tail), int(o.after),
                                o.dumps(), T_[2].size)
                    got, want = facts(inc), facts(one)
                except Exception as e:  # noqa: BLE001
                    ctx.violation("build", f"incremental-build-raises:{type(e).__name__}", dict(det, error=lib.exc_sig(e)))
                    continue
                if got != want:
                    k = next(j for j, (a, b) in enumerate(zip(got, want)) if a != b)
                    ctx.violation("behaviour", "incremental-structure-behaves-differently",
                                  dict(det, got=repr(got[k])[:300], want=repr(want[k])[:300]))
                else:
                    ctx.event("offset_after_dynamic_checked")
            # (d') explicit offsets anywhere: forward gaps, into what was the tail padding of the aligned structure so
            # far, back into (overlaying) earlier fields -- in whichever commit they arrive the structure is the one
            # declared in one piece
            pool = ["uint8", "uint16", "uint32", "uint64", "int24", "char"]
            for it in range(12 if not ctx.thorough else 150):
                r2 = ctx.rng("explicit-offsets", compiled, align, it)
                cs = lib.cstruct()
                nf = r2.randint(2, 6)
                specs, pos = [], 0
                for j in range(nf):
                    t_ = getattr(cs, r2.choice(pool))
                    if r2.random() < 0.3:
                        t_ = t_[r2.randint(1, 3)]
                    o_ = None
                    if j and r2.random() < 0.5:
                        o_ = r2.choice([pos + r2.randint(0, 9), pos, max(0, pos - r2.randint(1, 6)), r2.randint(0, 24)])
                    specs.append((f"f{j}", t_, o_))
                    pos = (pos if o_ is None else o_) + t_.size
                split = split_pattern(r2, nf)
                ctx.evaluation(("explicit-offsets", compiled, align, repr([(n_, t_.__name__, o_) for n_, t_, o_ in specs]),
                                repr(split)))
                det = {"workload": "special-sequences", "compiled": compiled, "align": align, "split": repr(split),
                       "part": "explicit-offsets", "fields": repr([(n_, t_.__name__, o_) for n_, t_, o_ in specs])}
                data = bytes(range(1, 97))

                def facts2(T_):
                    import inspect

                    out = [T_.size, T_.alignment, [(f._name, f.offset) for f in T_.__fields__], source_of(T_),
                           str(inspect.signature(T_.__init__)), bool(T_.__compiled__)]
                    for start in (0, 8):
                        st_ = io.BytesIO(data)
                        st_.seek(start)
                        o = T_._read(st_)
                        out.append((st_.tell(), lib.stable_repr(o), o.dumps(), sorted(o._sizes.items())))
                    out.append(T_().dumps())
                    out.append(T_[2](data).dumps())
                    return out

                try:
                    one = cs._make_struct("T", [Field(n_, t_, offset=o_) for n_, t_, o_ in specs], align=align, base=Structure)
                    if compiled:
                        one = compiler.compile(one)
                    want = facts2(one)
                except Exception:  # noqa: BLE001
                    ctx.event("explicit_offsets_one_shot_refused")
                    continue
                try:
                    inc = cs._make_struct("T", [], align=align, base=Structure)
                    if compiled:
                        inc = compiler.compile(inc)
                    for kind, idxs in split:
                        if r2.random() < 0.3:
                            use_intermediate(inc, r2)
                        if kind == "single":
                            n_, t_, o_ = specs[idxs[0]]
                            inc.add_field(n_, t_, offset=o_)
                        else:
                            with inc.start_update():
                                for i2 in idxs:
                                    n_, t_, o_ = specs[i2]
                                    inc.add_field(n_, t_, offset=o_)
                    got = facts2(inc)
                except Exception as e:  # noqa: BLE001
                    ctx.violation("build", f"incremental-build-raises:{type(e).__name__}", dict(det, error=lib.exc_sig(e)))
                    continue
                ctx.cell("explicit-offsets-in-later-commits")
                if got != want:
                    k = next(j for j, (a, b) in enumerate(zip(got, want)) if a != b)
                    ctx.violation("behaviour", "incremental-structure-behaves-differently",
                                  dict(det, got=repr(got[k])[:300], want=repr(want[k])[:300]))
                else:
                    ctx.event("explicit_offsets_checked")
            # (d'') a structure that for a while consisted of a single char member (the constructor takes bytes of exactly
            # that size for the value then) and was extended: bytes of that size are a truncated input like for the
            # structure declared in one piece
            for n_ in (1, 4):
                for how in ("add_field", "start_update", "loaded-then-extended"):
                    ctx.evaluation(("lone-char-then-extended", compiled, align, n_, how))
                    ctx.cell("lone-char-member-then-extended")
                    det = {"workload": "special-sequences", "compiled": compiled, "align": align, "part": "lone-char-then-extended",
                           "size": n_, "how": how}
                    try:
                        cs = lib.cstruct()
                        ct = cs.char[n_] if n_ > 1 else cs.char
                        one = cs._make_struct("hdr", [Field("magic", ct), Field("version", cs.uint8), Field("count", cs.uint16)],
                                              align=align, base=Structure)
                        if how == "loaded-then-extended":
                            cs.load(f"struct hdr2 {{ char magic{'[%d]' % n_ if n_ > 1 else ''}; }};", compiled=compiled, align=align)
                            inc = cs.hdr2
                        else:
                            inc = cs._make_struct("hdr", [], align=align, base=Structure)
                            if compiled:
                                inc = compiler.compile(inc)
                            inc.add_field("magic", ct)
                        if compiled:
                            one = compiler.compile(one)
                        first = inc(b"HDR1"[:n_])            # the lone member: this is its value
                        if how == "start_update":
                            with inc.start_update():
                                inc.add_field("version", cs.uint8)
                                inc.add_field("count", cs.uint16)
                        else:
                            inc.add_field("version", cs.uint8)
                            inc.add_field("count", cs.uint16)

                        def facts3(T_):
                            out = []
                            for d_ in (b"HDR1"[:n_], b"HDR1\x02\x03\x00\x09"[:n_ + 3 + (1 if align and n_ % 2 == 0 else 0)], b"H", b""):
                                try:
                                    r = ("ok", T_(d_))      # the bytes themselves, not a stream over them
                                except Exception as ex:  # noqa: BLE001
                                    r = ("err", ex)
                                out.append((r[0], lib.stable_repr(r[1]).replace("hdr2", "hdr") if r[0] == "ok" else type(r[1]).__name__,
                                            hasattr(r[1], "_sizes") if r[0] == "ok" else None))
                            return out
                        got, want = facts3(inc), facts3(one)
                    except Exception as e:  # noqa: BLE001
                        ctx.violation("build", f"incremental-build-raises:{type(e).__name__}", dict(det, error=lib.exc_sig(e)))
                        continue
                    if got != want or bytes(first.magic) != b"HDR1"[:n_]:
                        ctx.violation("behaviour", "incremental-structure-behaves-differently",
                                      dict(det, got=repr(got)[:400], want=repr(want)[:400]))
                    else:
                        ctx.event("lone_char_then_extended_checked")
            # straddling bit-field arriving in a later commit, also after the structure became dynamic
            for lead in ([], [("n", "uint8", None), ("d", "dyn", None)]):
                ctx.evaluation(("late-straddle", compiled, align, len(lead)))
                ctx.cell("straddling-bit-field-in-a-later-commit")
                try:
                    cs = lib.cstruct()
                    from dissect.cstruct.expression import Expression as _E

                    inc = cs._make_struct("T", [], align=align, base=Structure)
                    if compiled:
                        inc = compiler.compile(inc)
                    for n_, t_, b_ in lead:
                        inc.add_field(n_, cs.char[_E(cs, "n")] if t_ == "dyn" else getattr(cs, t_), bits=b_)
                    inc.add_field("a", cs.uint8, bits=5)
                    try:
                        inc.add_field("b", cs.uint8, bits=5)
                        refused = False
                    except Exception:  # noqa: BLE001
                        refused = True
                    inc.add_field("c", cs.uint8, bits=3)         # fits: the refused field left nothing behind
                    ok = refused and [f.name for f in inc.__fields__][-2:] == ["a", "c"]
                except Exception as e:  # noqa: BLE001
                    ctx.violation("build", f"incremental-build-raises:{type(e).__name__}",
                                  {"workload": "special-sequences", "part": "late-straddle", "error": lib.exc_sig(e)})
                    continue
                if not ok:
                    ctx.violation("behaviour", "straddling-bit-field-accepted-in-a-later-commit",
                                  {"workload": "special-sequences", "part": "late-straddle", "compiled": compiled,
                                   "align": align, "after_dynamic_field": bool(lead)})
                else:
                    ctx.event("late_straddles_refused")
    # (e) a union that is written, compared and measured while incomplete and then extended with a larger member
    for endian in "<>":
        for order in (["b8", "w16", "d32", "q64"], ["q64", "b8"], ["w16", "arr", "q64"], ["b8", "st", "q64"]):
            ctx.evaluation(("union-extended-after-use", endian, repr(order)))
            ctx.cell("union-written-before-extension")
            det = {"workload": "special-sequences", "part": "union-extended-after-use", "endian": endian, "order": order}
            try:
                cs = lib.cstruct(endian=endian)
                cs.load("struct st_t { uint8 a; uint16 b; };")
                types_ = {"b8": cs.uint8, "w16": cs.uint16, "d32": cs.uint32, "q64": cs.uint64, "arr": cs.uint8[3], "st": cs.st_t}
                one = cs._make_union("U", [Field(n_, types_[n_]) for n_ in order])
                inc = cs._make_union("U", [])
                data = bytes(range(1, 9))
                for n_ in order:
                    inc.add_field(n_, types_[n_])
                    o = inc(data)
                    o.dumps(), bytes(o), len(o), o == inc(data), bool(o)
                    inc().dumps()

                def facts(U_):
                    o = U_(data)
                    kw = {order[-1]: getattr(o, order[-1])}
                    return (len(U_), U_.alignment, o.dumps(), bytes(o) == o._buf, U_(**kw).dumps(), U_().dumps(),
                            U_(data) == U_(data[:-1] + b"\xff"), [f.name for f in U_.__fields__])
                got, want = facts(inc), facts(one)
            except Exception as e:  # noqa: BLE001
                ctx.violation("build", f"incremental-build-raises:{type(e).__name__}", dict(det, error=lib.exc_sig(e)))
                continue
            if got != want:
                k = next(j for j, (a, b) in enumerate(zip(got, want)) if a != b)
                ctx.violation("behaviour", "incremental-structure-behaves-differently",
                              dict(det, got=repr(got[k])[:300], want=repr(want[k])[:300]))
            else:
                ctx.event("unions_extended_after_use_checked")
    # (c) a container declared *before* its member type is extended: afterwards it is the container of the complete
    # member type (size, offsets, both readers, writer) -- nothing of the member's intermediate size survives
    for compiled in (True, False):
        for align in (False, True):
            ctx.evaluation(("container-before-extension", compiled, align))
            ctx.cell("container-declared-before-member-extension")
            det = {"workload": "special-sequences", "compiled": compiled, "align": align, "part": "container-before-extension"}
            try:
                cs = lib.cstruct()
                cs.load("struct I { uint8 a; };\nstruct O { uint8 x; I i; uint8 z; };", compiled=compiled, align=align)
                cs.I.add_field("b", cs.uint32)
                ref = lib.load("struct I { uint8 a; uint32 b; };\nstruct O { uint8 x; I i; uint8 z; };", "<", align, compiled)
                data = bytes(range(1, 40))
                v = cs.O(x=1, i=cs.I(a=2, b=3), z=4)
                rv = ref.O(x=1, i=ref.I(a=2, b=3), z=4)

                def facts(c, val):
                    d = val.dumps()
                    o = c.O(d + bytes(16))
                    return (c.O.size, [f.offset for f in c.O.__fields__], d.hex(), (int(o.x), int(o.i.a), int(o.i.b), int(o.z)),
                            repr(c.O(data)))
                got, want = facts(cs, v), facts(ref, rv)
            except Exception as e:  # noqa: BLE001
                ctx.violation("build", f"incremental-build-raises:{type(e).__name__}", dict(det, error=lib.exc_sig(e)))
                continue
            if got != want:
                k = next(j for j, (a, b) in enumerate(zip(got, want)) if a != b)
                ctx.violation("behaviour", "K13:container-keeps-the-size-and-offsets-of-its-member-type-before-the-extension",
                              dict(det, got=repr(got[k])[:300], want=repr(want[k])[:300]))
            else:
                ctx.event("containers_follow_member_extension")
    # (c') the same mechanism within a single load(): an array of the structure itself is made while the structure is
    # still the empty placeholder and keeps the placeholder's alignment
    for compiled in (True, False):
        ctx.evaluation(("self-array-alignment", compiled))
        ctx.cell("self-referential-array-member")
        det = {"workload": "special-sequences", "compiled": compiled, "part": "self-referential-array-member"}
        try:
            cs = lib.load("struct N { uint32 v; uint8 n; N kids[n]; };\nstruct M { uint32 v; uint8 n; uint8 kids[0]; };\n"
                          "struct N2 { uint32 v; uint8 n; M kids[n]; };", "<", True, compiled)
            got = [(f.name, f.offset, f.alignment) for f in cs.N.__fields__]
            want = [(f.name, f.offset, f.alignment) for f in cs.N2.__fields__]
            d1 = cs.N(v=1, n=1, kids=[cs.N(v=2, n=0)]).dumps()
            d2 = cs.N2(v=1, n=1, kids=[cs.M(v=2, n=0)]).dumps()
        except Exception as e:  # noqa: BLE001
            ctx.violation("build", f"incremental-build-raises:{type(e).__name__}", dict(det, error=lib.exc_sig(e)))
            continue
        if got != want or d1 != d2:
            ctx.violation("behaviour", "K13:array-of-the-structure-itself-keeps-the-alignment-of-the-empty-placeholder",
                          dict(det, got=repr(got), want=repr(want), dump=d1.hex(), want_dump=d2.hex()))
        else:
            ctx.event("self_array_alignment_checked")


def sizes_named_in_lengths(ctx):
    """A structure whose size is named (through `sizeof`) in the array length of *another* structure, next to a field:
    after it was extended, the dependent structure counts with the size it has now -- as the same declarations do on a
    fresh object that saw the final text only (the dependent one does not contain it as a member: this is not K13)."""
    final = ("struct hdr { uint8 kind; uint16 len; uint32 crc; };\n"
             "struct pkt { uint8 total; char payload[total - sizeof(hdr)]; uint8 t; };\n"
             "struct twice { uint8 k; uint16 v[k * sizeof(hdr) / 7]; uint8 t; };\n"
             "struct pure { uint8 pad[sizeof(hdr)]; uint8 t; };")
    first = "struct hdr { uint8 kind; };\n" + final.split("\n", 1)[1].rsplit("\n", 1)[0]
    data = bytes([12]) + bytes(range(0x41, 0x41 + 40))
    for compiled in (True, False):
        for how in ("add_field", "batch"):
            ctx.evaluation(("sizes-in-lengths", compiled, how))
            ctx.cell("size-named-in-the-length-of-another-structure")
            det = {"workload": "sizes-in-lengths", "compiled": compiled, "how": how, "text": first}
            try:
                cs = lib.load(first, "<", False, compiled)
                for nm in ("pkt", "twice"):          # used before the extension
                    getattr(cs, nm)(data)
                if how == "add_field":
                    cs.hdr.add_field("len", cs.uint16)
                    cs.hdr.add_field("crc", cs.uint32)
                else:
                    with cs.hdr.start_update():
                        cs.hdr.add_field("len", cs.uint16)
                        cs.hdr.add_field("crc", cs.uint32)
                ref = lib.load(final, "<", False, compiled)
                got = {nm: (lib.stable_repr(getattr(cs, nm)(data)), getattr(cs, nm)(data).dumps().hex()) for nm in ("pkt", "twice")}
                want = {nm: (lib.stable_repr(getattr(ref, nm)(data)), getattr(ref, nm)(data).dumps().hex()) for nm in ("pkt", "twice")}
                hand = (len(cs.pkt(data).payload), len(cs.twice(data).v))
            except Exception as e:  # noqa: BLE001
                ctx.violation("build", f"incremental-build-raises:{type(e).__name__}", dict(det, error=lib.exc_sig(e)))
                continue
            if got != want or hand != (12 - 7, 12 * 7 // 7):
                ctx.violation("behaviour", "length-over-sizeof-keeps-the-size-of-an-intermediate-state",
                              dict(det, got=repr(got)[:400], want=repr(want)[:400], entries=hand))
            else:
                ctx.event("sizes_in_lengths_checked")


def run(ctx):
    if ctx.shard == 0:
        self_reference(ctx)
    if ctx.shard == 1:
        special_sequences(ctx, ctx.rng("special"))
    if ctx.shard == 2:
        sizes_named_in_lengths(ctx)
    for i in range(N_CASES[ctx.tier]):
        if ctx.out_of_time():
            break
        rng = ctx.rng("case", i)
        case = engine.make_case(rng, dyn_unions=False, unions=rng.random() < 0.3)
        check_case(ctx, case, rng)
        if i < 2:
            ctx.sample({"text": case["text"], "split": split_pattern(rng, len(case["top"]["fields"]))})


def replay(ctx, detail):
    import random

    if "ast" not in detail:
        print("record:", detail)
        self_reference(ctx)
        special_sequences(ctx, random.Random(0))
        sizes_named_in_lengths(ctx)
        return
    case = engine.case_from_detail(detail)
    print("definition:\n" + case["text"])
    print({k: v for k, v in detail.items() if k not in ("ast", "text")})
    for seed in range(10):
        check_case(ctx, case, random.Random(seed))
