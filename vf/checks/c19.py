"""C19  Utilities: hexdump is lossless, colour cosmetic, pack/unpack/swap are inverses."""
from __future__ import annotations

import re
import string

from .. import engine, gen, lib, model

ANSI = re.compile(r"\x1b\[[0-9;]*m")
PRINTABLE = set(string.digits + string.ascii_letters + string.punctuation + " ")
import sys as _sys

SPELLINGS = {"little": "little", "big": "big", "network": "big", "<": "little", ">": "big", "!": "big",
             "@": _sys.byteorder, "=": _sys.byteorder}   # the native spellings mean the host's order


def ref_hexdump(data, offset=0, prefix=""):
    lines = []
    for i in range(0, len(data), 16):
        chunk = data[i:i + 16]
        cols = []
        for j in range(16):
            cols.append(f"{chunk[j]:02x}" if j < len(chunk) else "  ")
        hexs = " ".join(cols[:8]) + "  " + " ".join(cols[8:]) + " "
        chars = "".join(chr(b) if chr(b) in PRINTABLE else "." for b in chunk)
        lines.append(f"{prefix}{offset + i:08x}  {hexs}  {chars}")
    return "\n".join(lines)


def random_palette(rng, n):
    from dissect.cstruct import utils

    colors = [utils.COLOR_RED, utils.COLOR_BG_GREEN, utils.COLOR_BLUE, utils.COLOR_BG_WHITE, utils.COLOR_CYAN,
              utils.COLOR_BG_PURPLE]
    shape = rng.choice(["exact", "short", "long", "zeros", "lineends", "single", "trailing-zero"])
    pal, total = [], 0
    if shape == "single":
        pal = [(rng.randint(0, n + 5), rng.choice(colors))]
    else:
        while total < (n if shape != "short" else max(0, n - rng.randint(1, 20))):
            k = rng.choice([0, 0, 1, 2, 3, 5, 16, 17, 15, 32]) if shape == "zeros" else (
                rng.choice([15, 16, 17, 1, 31, 33]) if shape == "lineends" else rng.randint(1, 12))
            pal.append((k, rng.choice(colors)))
            total += k
        if shape == "long":
            pal.append((rng.randint(1, 40), rng.choice(colors)))
        if shape == "trailing-zero":
            pal.append((0, rng.choice(colors)))
    return shape, pal


def hexdumps(ctx, rng, n):
    from dissect.cstruct import hexdump

    for i in range(n):
        ln = rng.choice([0, 1, 15, 16, 17, 31, 32, 33, 47, 48, 49, rng.randint(0, 200)])
        mode = rng.random()
        data = bytes(rng.randrange(256) for _ in range(ln)) if mode < 0.6 else bytes(
            rng.choice(b"AZaz09 ~!\x00\x7f\xff\n\t") for _ in range(ln))
        offset = rng.choice([0, 0, 16, 1, 0x1000, 0xFFFFFFF0, rng.randint(0, 1 << 20)])
        # the prefix is copied verbatim in front of every line, whatever characters it contains
        prefix = rng.choice(["", "", "> ", "\t", "xx:", "{", "}", "{}", "{0}", "{{", "}}", "%s ", "%(x)s", "{name!r}: ",
                             "\\x1b", "buf{1} "])
        ctx.evaluation(("hexdump", data.hex(), offset, prefix))
        ctx.cell(f"len%16={ln % 16}")
        want = ref_hexdump(data, offset, prefix)
        try:
            got = hexdump(data, offset=offset, prefix=prefix, output="string")
            gen_lines = list(hexdump(data, offset=offset, prefix=prefix, output="generator"))
        except Exception as e:  # noqa: BLE001
            ctx.violation("hexdump", f"hexdump-raises:{type(e).__name__}", {"data": data.hex(), "offset": offset,
                                                                             "prefix": prefix, "error": lib.exc_sig(e)})
            continue
        if got != want or "\n".join(gen_lines) != want:
            ctx.violation("hexdump", "hexdump-differs-from-reference-formatter",
                          {"data": data.hex(), "offset": offset, "prefix": prefix, "got": got, "want": want})
            continue
        for _ in range(2):
            shape, pal = random_palette(rng, ln)
            ctx.evaluation(("palette", data.hex(), offset, repr(pal)))
            ctx.cell(f"palette:{shape}")
            try:
                col = hexdump(data, palette=list(pal), offset=offset, prefix=prefix, output="string")
            except Exception as e:  # noqa: BLE001
                ctx.violation("colour", f"coloured-hexdump-raises:{type(e).__name__}",
                              {"data": data.hex(), "palette": repr(pal), "error": lib.exc_sig(e)})
                continue
            if ANSI.sub("", col) != want:
                ctx.violation("colour", "colour-changes-more-than-colour-codes",
                              {"data": data.hex(), "palette": repr(pal), "shape": shape, "got": col, "want": want})
        if i < 2:
            ctx.sample({"hexdump_of": data.hex(), "offset": offset, "prefix": prefix})


def value_text(v):
    """How dumpstruct renders a field value (taken from its documentation-by-example in the tests):
    integers in hex, everything else by repr/pformat.  Only used to check that the value is *listed*."""
    return None


ADDR = re.compile(r" object at 0x[0-9a-f]+")


def dumpstructs(ctx, n):
    from dissect.cstruct import dumpstruct

    for i in range(n):
        if ctx.out_of_time():
            break
        rng = ctx.rng("dumpstruct", i)
        case = engine.make_case(rng, dyn_unions=False, unions=rng.random() < 0.3, ptrs=False)
        top = case["top"]
        cfgd = {"endian": rng.choice("<>"), "align": rng.random() < 0.5, "compiled": rng.random() < 0.5, "ptr": "uint64"}
        cs, err = engine.load_cfg(ctx, case, cfgd)
        if cs is None:
            continue
        cfg = engine.mcfg(case, cfgd["endian"], cfgd["align"])
        try:
            inp = engine.model_input(case, cfg, rng, tail=0)[0]
        except model.ModelUnsupported:
            continue
        r = engine.outcome(cs.T, inp)
        if r[0] != "ok":
            continue
        obj = r[1]
        try:
            body = obj.dumps()
        except Exception:  # noqa: BLE001
            continue
        ctx.cell("dumpstruct:bits" if gen.has_bits(top) else "dumpstruct:plain")
        for color in (True, False):
            ctx.evaluation((case["text"], tuple(sorted(cfgd.items())), inp.hex(), color))
            try:
                out = dumpstruct(obj, output="string", color=color)
            except Exception as e:  # noqa: BLE001
                ctx.violation("dumpstruct", f"dumpstruct-raises:{type(e).__name__}",
                              engine.case_detail(case, cfg=cfgd, data=inp, color=color, error=lib.exc_sig(e)))
                continue
            if not color and "\x1b" in out:
                ctx.violation("dumpstruct", "dumpstruct-without-colour-contains-colour-codes",
                              engine.case_detail(case, cfg=cfgd, data=inp, color=color, got=out))
                continue
            plain = ANSI.sub("", out)
            want_hex = ref_hexdump(body)
            if want_hex not in plain:
                ctx.violation("dumpstruct", "dumpstruct-hexdump-is-not-the-dump-of-the-structure",
                              engine.case_detail(case, cfg=cfgd, data=inp, color=color, got=plain, want=want_hex))
                continue
            tail = plain.split(want_hex, 1)[1] if want_hex else plain
            missing = []
            for f in type(obj).__fields__:
                if getattr(f.type, "anonymous", False):
                    continue
                if not re.search(rf"^- {re.escape(f._name)}: ", tail, re.M):
                    missing.append(f._name)
            if missing:
                ctx.violation("dumpstruct", "dumpstruct-does-not-list-every-field",
                              engine.case_detail(case, cfg=cfgd, data=inp, color=color, missing=missing, got=plain))
            # parse-from-bytes form must agree with the instance form
            try:
                out2 = dumpstruct(cs.T, inp[:r[2]], output="string", color=color)
                # the class form shows the bytes it was given (padding and unassigned bits as they are in the input),
                # not a re-serialisation of the parsed value
                ctx.event("dumpstruct_class_form_vs_input_bytes" if body != inp[:r[2]] else "dumpstruct_class_form")
                if ref_hexdump(inp[:r[2]]) not in ANSI.sub("", out2):
                    ctx.violation("dumpstruct", "dumpstruct-class-form-does-not-show-the-bytes-it-was-given",
                                  engine.case_detail(case, cfg=cfgd, data=inp, color=color, got=ANSI.sub("", out2),
                                                     want=ref_hexdump(inp[:r[2]])))
                # (the listing of a void member shows its default repr, which contains the object's address)
                if ADDR.sub("", ANSI.sub("", out2)).split("\n\n", 1)[-1] != ADDR.sub("", plain).split("\n\n", 1)[-1] and body == inp[:r[2]]:
                    ctx.violation("dumpstruct", "dumpstruct-class-form-differs-from-instance-form",
                                  engine.case_detail(case, cfg=cfgd, data=inp, color=color))
                if not gen.has_eof(top) and body == inp[:r[2]]:
                    # bytes after the structure are not part of it: the dump stays the dump of the structure's bytes
                    out3 = dumpstruct(cs.T, inp[:r[2]] + b"TRAILING-BYTES-" * 2, output="string", color=color)
                    ctx.event("dumpstruct_with_trailing_bytes")
                    if ADDR.sub("", ANSI.sub("", out3)) != ADDR.sub("", ANSI.sub("", out2)):
                        ctx.violation("dumpstruct", "dumpstruct-class-form-shows-bytes-after-the-structure",
                                      engine.case_detail(case, cfg=cfgd, data=inp, color=color,
                                                         got=ANSI.sub("", out3), want=ANSI.sub("", out2)))
                # a display offset moves the running offsets of the hex dump and nothing else: the same bytes, the same
                # listing, in both forms
                off = rng.choice([16, 0x23, 0x1000, 1, 0xFFFFFFF0])
                ctx.cell("dumpstruct:display-offset")
                for form, call, shown in (("instance", lambda: dumpstruct(obj, offset=off, output="string", color=color), body),
                                          ("class", lambda: dumpstruct(cs.T, inp[:r[2]], offset=off, output="string", color=color), inp[:r[2]])):
                    o4 = ADDR.sub("", ANSI.sub("", call()))
                    base = ADDR.sub("", plain if form == "instance" else ANSI.sub("", out2))
                    wh, wh0 = ref_hexdump(shown, off), ref_hexdump(shown)
                    if wh not in o4 or (wh and wh0 and o4.split(wh, 1)[1] != base.split(wh0, 1)[1]):
                        ctx.violation("dumpstruct", f"dumpstruct-with-a-display-offset-shows-other-bytes-or-values:{form}",
                                      engine.case_detail(case, cfg=cfgd, data=inp, color=color, offset=off, got=o4, want=wh))
                    else:
                        ctx.event("dumpstruct_display_offsets")
            except Exception as e:  # noqa: BLE001
                ctx.violation("dumpstruct", f"dumpstruct-class-form-raises:{type(e).__name__}",
                              engine.case_detail(case, cfg=cfgd, data=inp, color=color, error=lib.exc_sig(e)))


def repeated_discard_members(ctx):
    """A structure may declare several members named `_` (the name only allows repetition): the listing has one line per
    declared member, in order, and the class form shows the bytes it was given."""
    from dissect.cstruct import dumpstruct

    text = "struct H { char magic[2]; uint8 _; uint16 length; uint8 _; uint8 kind; uint8 _; uint8 flags; };"
    data = bytes([0x4D, 0x5A, 1, 2, 3, 4, 5, 6, 7])
    for compiled in (True, False):
        for color in (True, False):
            ctx.evaluation(("repeated-discard", compiled, color))
            ctx.cell("dumpstruct:repeated-discard-members")
            det = {"text": text, "compiled": compiled, "color": color, "workload": "repeated-discard"}
            try:
                cs = lib.load(text, "<", False, compiled)
                outs = {"class": ANSI.sub("", dumpstruct(cs.H, data, color=color, output="string")),
                        "instance": ANSI.sub("", dumpstruct(cs.H(data), color=color, output="string"))}
            except Exception as e:  # noqa: BLE001
                ctx.violation("dumpstruct", f"dumpstruct-raises:{type(e).__name__}", dict(det, error=lib.exc_sig(e)))
                continue
            want = ["magic", "_", "length", "_", "kind", "_", "flags"]
            for form, out in outs.items():
                listed = re.findall(r"^- (\w+): ", out, re.M)
                if listed != want or (form == "class" and ref_hexdump(data) not in out):
                    ctx.violation("dumpstruct", "dumpstruct-does-not-list-every-field", dict(det, form=form, listed=listed, want=want, got=out))
                else:
                    ctx.event("repeated_discard_members_checked")


def dumpstruct_after_assignment(ctx):
    """dumpstruct shows the structure as it *is*: after fields of a parsed instance were assigned, the listing shows
    the new values next to the hex dump of the new bytes (not what was recorded when it was parsed)."""
    from dissect.cstruct import dumpstruct

    text = ("struct sub { uint8 x; uint16 y; };\nstruct s { uint16 magic; uint8 n; uint8 items[3]; char tag[4]; sub in; "
            "uint8 a : 4; uint8 b : 4; uint32 tail; };")
    for compiled in (True, False):
        for endian in "<>":
            ctx.evaluation(("dumpstruct-after-assignment", compiled, endian))
            ctx.cell("dumpstruct:after-assignment")
            det = {"text": text, "compiled": compiled, "endian": endian, "workload": "dumpstruct-after-assignment"}
            try:
                cs = lib.load(text, endian, False, compiled)
                o = cs.s(bytes(range(1, 1 + len(cs.s))))
                o.magic = 0xBEEF
                o.items = [7, 8, 9]
                o.tag = b"WXYZ"
                o.a = 0xC
                o.tail = 0x11223344
                o.n = 0x7F
                out = ANSI.sub("", dumpstruct(o, color=False, output="string"))
                out_c = ANSI.sub("", dumpstruct(o, color=True, output="string"))
                need = ["- magic: 0xbeef", "- n: 0x7f", "- items: [7, 8, 9]", "- tag: b'WXYZ'", "- a: 0xc", "- tail: 0x11223344"]
                missing = [x for x in need if x not in out or x not in out_c]
                if ref_hexdump(o.dumps()) not in out:
                    missing.append("hexdump of the current bytes")
            except Exception as e:  # noqa: BLE001
                ctx.violation("dumpstruct", f"dumpstruct-raises:{type(e).__name__}", dict(det, error=lib.exc_sig(e)))
                continue
            if missing:
                ctx.violation("dumpstruct", "dumpstruct-lists-stale-values-after-assignment", dict(det, missing=missing, got=out))
            else:
                ctx.event("dumpstruct_after_assignment_checked")
        # the listing follows the structure type as it is now: fields added after it was dumped once are listed
        for how in ("add_field", "start_update"):
            ctx.evaluation(("dumpstruct-after-extension", compiled, how))
            ctx.cell("dumpstruct:after-extension")
            det = {"compiled": compiled, "how": how, "workload": "dumpstruct-after-assignment", "what": "structure extended between two dumps"}
            try:
                cs = lib.load("struct ext { uint8 kind; uint8 flags : 3; uint16 length; };", "<", False, compiled)
                data = bytes(range(1, 17))
                first = ANSI.sub("", dumpstruct(cs.ext, data, color=True, output="string"))
                ANSI.sub("", dumpstruct(cs.ext(data), color=False, output="string"))
                if how == "add_field":
                    cs.ext.add_field("crc", cs.uint32)
                    cs.ext.add_field("x", cs.uint8)
                else:
                    with cs.ext.start_update():
                        cs.ext.add_field("crc", cs.uint32)
                        cs.ext.add_field("x", cs.uint8)
                o = cs.ext(data)
                outs = [ANSI.sub("", dumpstruct(cs.ext, data, color=c, output="string")) for c in (True, False)] + \
                       [ANSI.sub("", dumpstruct(o, color=c, output="string")) for c in (True, False)]
                need = ["- kind: 0x1", "- length:", f"- crc: {hex(int(o.crc))}", f"- x: {hex(int(o.x))}"]
                missing = sorted({x for out in outs for x in need if x not in out})
                if any(ref_hexdump(o.dumps()) not in out for out in outs):
                    missing.append("hexdump of all the bytes of the extended structure")
                if "- crc" in first:
                    missing.append("(the first dump listed a field that did not exist)")
            except Exception as e:  # noqa: BLE001
                ctx.violation("dumpstruct", f"dumpstruct-raises:{type(e).__name__}", dict(det, error=lib.exc_sig(e)))
                continue
            if missing:
                ctx.violation("dumpstruct", "dumpstruct-does-not-list-the-fields-the-structure-has-now", dict(det, missing=missing, got=outs[0]))
            else:
                ctx.event("dumpstruct_after_extension_checked")
        # a structure reached through two levels of unions
        ctx.evaluation(("dumpstruct-nested-union-member", compiled))
        try:
            cs = lib.load("struct s { uint8 x; uint16 y; };\nunion inner { s a; uint32 b; };\nunion outer { inner i; uint8 raw[4]; };\n"
                          "struct w { outer o; uint8 z; };", "<", False, compiled)
            for member in (cs.outer(b"\x01\x02\x03\x04").i.a, cs.w(b"\x01\x02\x03\x04\x05").o.i.a):
                o2 = ANSI.sub("", dumpstruct(member, color=False, output="string"))
                if ref_hexdump(b"\x01\x02\x03") not in o2 or "- x: 0x1" not in o2 or "- y: 0x302" not in o2:
                    ctx.violation("dumpstruct", "dumpstruct-of-a-union-member-structure-differs",
                                  {"got": o2, "workload": "dumpstruct-after-assignment"})
            ctx.event("dumpstruct_nested_union_members_checked")
        except Exception as e:  # noqa: BLE001
            ctx.violation("dumpstruct", f"dumpstruct-raises:{type(e).__name__}",
                          {"error": lib.exc_sig(e), "workload": "dumpstruct-after-assignment", "what": "structure in a union in a union"})


def dumpstruct_forms(ctx):
    """Shapes the generator does not produce: a structure of more than one hex dump line without colour, an enum type
    with a member named `anonymous`, a structure that is a member of a union (handed out through a proxy)."""
    from dissect.cstruct import dumpstruct

    text = ("enum E : uint8 { anonymous = 1, other = 2 };\nstruct s { E e; uint8 x; char pad[30]; };\n"
            "struct inn { uint8 a; uint16 b; };\nunion U { inn i; uint8 v; };\nstruct holder { uint8 h; U u; };")
    for compiled in (True, False):
        ctx.evaluation(("dumpstruct-forms", compiled))
        ctx.cell("dumpstruct:forms")
        try:
            cs = lib.load(text, "<", False, compiled)
            data = b"\x02\x05" + bytes(range(0x41, 0x41 + 30))
            outs = [dumpstruct(cs.s(data), color=False, output="string"), dumpstruct(cs.s, data, color=False, output="string"),
                    dumpstruct(cs.s(data), color=True, output="string")]
            for o in outs:
                plain = ANSI.sub("", o)
                if ref_hexdump(data) not in plain or not all(re.search(rf"^- {n}: ", plain, re.M) for n in ("e", "x", "pad")):
                    ctx.violation("dumpstruct", "dumpstruct-does-not-list-every-field",
                                  {"text": text, "got": plain, "workload": "dumpstruct-forms"})
            if "\x1b" in outs[0] or "\x1b" in outs[1]:
                ctx.violation("dumpstruct", "dumpstruct-without-colour-contains-colour-codes",
                              {"text": text, "got": outs[0], "workload": "dumpstruct-forms"})
            u = cs.U(b"\x01\x02\x03")
            h = cs.holder(b"\x09\x01\x02\x03")
            for member in (u.i, h.u.i):
                o = ANSI.sub("", dumpstruct(member, color=False, output="string"))
                if ref_hexdump(b"\x01\x02\x03") not in o or "- a: 0x1" not in o or "- b: 0x302" not in o:
                    ctx.violation("dumpstruct", "dumpstruct-of-a-union-member-structure-differs",
                                  {"text": text, "got": o, "workload": "dumpstruct-forms"})
            ctx.event("dumpstruct_forms_checked")
        except Exception as e:  # noqa: BLE001
            ctx.violation("dumpstruct", f"dumpstruct-raises:{type(e).__name__}",
                          {"text": text, "error": lib.exc_sig(e), "workload": "dumpstruct-forms"})


def packs(ctx, rng, n):
    from dissect.cstruct import utils

    fixed = {8: (utils.p8, utils.u8), 16: (utils.p16, utils.u16), 32: (utils.p32, utils.u32), 64: (utils.p64, utils.u64)}
    swaps = {16: utils.swap16, 32: utils.swap32, 64: utils.swap64}
    # every spelling with every width that has a helper (and one that has none), boundary values
    for sp, order in SPELLINGS.items():
        for bits in (8, 16, 24, 32, 64):
            for v in (0, 1, (1 << bits) - 1, 1 << (bits - 1), -1, -(1 << (bits - 1))):
                ctx.evaluation(("pack-sweep", bits, v, sp))
                ctx.cell(f"pack:{sp}")
                want = v.to_bytes(bits // 8, order, signed=v < 0)
                try:
                    got = (utils.pack(v, bits, sp), utils.unpack(want, bits, sp, sign=v < 0))
                    if bits in fixed:
                        got += (fixed[bits][0](v, sp), fixed[bits][1](want, sp, v < 0))
                except Exception as e:  # noqa: BLE001
                    got = ("raises", type(e).__name__)
                if got != (want, v) + ((want, v) if bits in fixed else ()):
                    ctx.violation("pack", "pack-unpack-differ-from-twos-complement", {"value": v, "bits": bits, "endian": sp, "got": repr(got), "want": want.hex()})
    for i in range(n):
        bits = rng.choice([8, 16, 24, 32, 40, 48, 64, 128, 256])
        signed = rng.random() < 0.5
        lo, hi = (-(1 << (bits - 1)), (1 << (bits - 1)) - 1) if signed else (0, (1 << bits) - 1)
        v = rng.choice([lo, hi, 0, 1, -1 if signed else hi, rng.randint(lo, hi), rng.randint(lo, hi)])
        sp, order = rng.choice(list(SPELLINGS.items()))
        ctx.evaluation(("pack", bits, v, sp))
        ctx.cell(f"pack:{sp}")
        want = v.to_bytes(bits // 8, order, signed=v < 0)
        try:
            got = utils.pack(v, bits, sp)
            back = utils.unpack(want, bits, sp, sign=v < 0)
            if got != want or back != v:
                ctx.violation("pack", "pack-unpack-differ-from-twos-complement",
                              {"value": v, "bits": bits, "endian": sp, "got": got.hex(), "want": want.hex(), "back": back})
            if bits in fixed and (not signed or v >= 0 or True):
                p, u = fixed[bits]
                if p(v, sp) != want or u(want, sp, v < 0) != v:
                    ctx.violation("pack", "fixed-width-helper-differs", {"value": v, "bits": bits, "endian": sp})
            # unsigned view of the same bytes
            if utils.unpack(want, bits, sp, sign=False) != int.from_bytes(want, order):
                ctx.violation("pack", "unsigned-unpack-differs", {"value": v, "bits": bits, "endian": sp})
            # size-less pack picks the minimal width
            # (also for negative values, with room for the sign: restricting this to v >= 0 had hidden defect 66)
            for v2 in (v, -abs(v) - 1, -abs(v), -(1 << (bits - 1)) - 1, -(1 << (bits - 1))):
                g2 = utils.pack(v2, endian=sp)
                ctx.event("sizeless_packs")
                minimal = ((v2.bit_length() if v2 >= 0 else (~v2).bit_length() + 1) + 7) // 8
                if int.from_bytes(g2, order, signed=v2 < 0) != v2 or len(g2) != minimal or \
                        utils.unpack(g2, endian=sp, sign=v2 < 0) != v2:
                    ctx.violation("pack", "sizeless-pack-not-invertible-or-not-minimal",
                                  {"value": v2, "endian": sp, "got": g2.hex(), "want_bytes": minimal})
        except Exception as e:  # noqa: BLE001
            ctx.violation("pack", f"pack-raises:{type(e).__name__}", {"value": v, "bits": bits, "endian": sp,
                                                                      "error": lib.exc_sig(e)})
        # swap: reverse the bytes of the size-bit two's complement image; twice = identity (mod 2^bits)
        if bits % 8 == 0:
            img = v % (1 << bits)
            want_s = int.from_bytes(img.to_bytes(bits // 8, "big"), "little")
            ctx.evaluation(("swap", bits, v))
            try:
                s1 = utils.swap(v, bits)
                if s1 % (1 << bits) != want_s:
                    ctx.violation("swap", "swap-differs-from-byte-reversal", {"value": v, "bits": bits, "got": s1,
                                                                               "want": want_s})
                elif utils.swap(s1, bits) % (1 << bits) != img:
                    ctx.violation("swap", "swap-twice-is-not-identity", {"value": v, "bits": bits})
                if bits in swaps and swaps[bits](v) != s1:
                    ctx.violation("swap", "fixed-width-swap-differs", {"value": v, "bits": bits})
            except Exception as e:  # noqa: BLE001
                ctx.violation("swap", f"swap-raises:{type(e).__name__}", {"value": v, "bits": bits,
                                                                          "error": lib.exc_sig(e)})
    # swap with a width that is not a whole number of bytes works on the whole bytes that hold it: the reversal of
    # those bytes, and twice is the identity
    for i in range(max(30, n // 10)):
        bits = rng.choice([1, 3, 7, 9, 12, 15, 17, 20, 31, 33, 63, 65, 100])
        v = rng.choice([rng.randrange(1 << bits), (1 << bits) - 1, 1, rng.randrange(1 << bits) | 1])
        nb = (bits + 7) // 8
        ctx.evaluation(("swap-odd-width", bits, v))
        ctx.cell("swap:width-not-a-multiple-of-8")
        try:
            s1 = utils.swap(v, bits)
            s2 = utils.swap(s1, bits)
        except Exception as e:  # noqa: BLE001
            ctx.violation("swap", f"swap-raises:{type(e).__name__}", {"value": v, "bits": bits, "error": lib.exc_sig(e)})
            continue
        if s1 != int.from_bytes(v.to_bytes(nb, "big"), "little"):
            ctx.violation("swap", "swap-differs-from-byte-reversal", {"value": v, "bits": bits, "got": s1})
        elif s2 != v:
            ctx.violation("swap", "swap-twice-is-not-identity", {"value": v, "bits": bits, "once": s1, "twice": s2})
        else:
            ctx.event("odd_width_swaps")
    # widths that are not a whole number of bytes: pack rounds up to whole bytes, unpack must accept exactly those
    for i in range(max(20, n // 20)):
        bits = rng.choice([1, 3, 7, 9, 12, 15, 17, 20, 31, 33, 63, 65, 100])
        signed = rng.random() < 0.5
        lo, hi = (-(1 << (bits - 1)), (1 << (bits - 1)) - 1) if signed else (0, (1 << bits) - 1)
        v = rng.choice([lo, hi, 0, rng.randint(lo, hi)])
        sp, order = rng.choice(list(SPELLINGS.items()))
        nbytes = (bits + 7) // 8
        ctx.evaluation(("pack-odd-width", bits, v, sp))
        ctx.cell("pack:odd-width")
        try:
            want = v.to_bytes(nbytes, order, signed=v < 0)
            got = utils.pack(v, bits, sp)
            back = utils.unpack(got, bits, sp, sign=v < 0)
            if got != want or back != v:
                ctx.violation("pack", "odd-width:pack-unpack-are-not-inverses",
                              {"value": v, "bits": bits, "endian": sp, "got": got.hex(), "want": want.hex(), "back": back})
        except Exception as e:  # noqa: BLE001
            ctx.violation("pack", f"odd-width:pack-or-unpack-raises:{type(e).__name__}",
                          {"value": v, "bits": bits, "endian": sp, "error": lib.exc_sig(e)})
    # wrong length must be refused
    for bits, raw in ((16, b"\x01"), (32, b"\x01\x02\x03"), (8, b"")):
        ctx.evaluation(("unpack-len", bits, raw))
        try:
            utils.unpack(raw, bits)
            ctx.violation("pack", "unpack-accepts-wrong-length", {"bits": bits, "raw": raw.hex()})
        except ValueError:
            ctx.event("wrong_length_refused")


def run(ctx):
    rng = ctx.rng("utils")
    hexdumps(ctx, rng, 120 if not ctx.thorough else 3000)
    packs(ctx, rng, 1500 if not ctx.thorough else 40000)
    dumpstructs(ctx, 12 if not ctx.thorough else 300)
    if ctx.shard == 0:
        dumpstruct_forms(ctx)
    if ctx.shard == 1:
        dumpstruct_after_assignment(ctx)
        repeated_discard_members(ctx)


def replay(ctx, detail):
    print("record:", {k: v for k, v in detail.items() if k != "ast"})
    from dissect.cstruct import dumpstruct, hexdump

    if detail.get("workload") in ("dumpstruct-after-assignment", "repeated-discard"):
        dumpstruct_after_assignment(ctx)
        repeated_discard_members(ctx)
        return
    if detail.get("workload") == "dumpstruct-forms":
        dumpstruct_forms(ctx)
        return
    if "ast" in detail:
        case = engine.case_from_detail(detail)
        cs, err = engine.load_cfg(ctx, case, detail["cfg"])
        inp = engine.unhex(detail["data"])
        obj = cs.T(inp)
        try:
            print(dumpstruct(obj, output="string", color=detail.get("color", True)))
        except Exception as e:  # noqa: BLE001
            print("raises", repr(e))
            ctx.violation("dumpstruct", f"dumpstruct-raises:{type(e).__name__}", detail)
    elif "palette" in detail:
        ctx.violation("colour", "replayed-from-record", detail)
    else:
        rng = ctx.rng("utils")
        hexdumps(ctx, rng, 120)
        packs(ctx, rng, 1500)
