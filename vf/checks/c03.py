"""C03  Compiled reader is observationally equivalent to the interpreted reader."""
from __future__ import annotations

import io

from .. import engine, gen, lib, model
from ..engine import case_detail, norm_or_err, outcome, sizes_agree, sizes_tree, source_shapes, type_sig

N_CASES = {"quick": 150, "thorough": 2500}
PTRS = ["uint64", "uint32", "uint16", "uint8"]


def gen_opts(rng, thorough):
    o = dict(dyn_unions=True)
    if thorough:
        o.update(max_fields=rng.choice([6, 9, 12]), max_depth=3, max_len=rng.choice([4, 9]))
        x = rng.random()
        if x < 0.08:
            o.update(max_fields=40, max_depth=1)        # wide structures (two-digit counts in struct formats)
        elif x < 0.16:
            o.update(max_len=300, max_depth=1, max_fields=5)   # long arrays (block sizes beyond 256 bytes)
    elif rng.random() < 0.04:
        o.update(max_fields=30, max_depth=1)
    if rng.random() < 0.25:
        o["fixed_only"] = True
    if rng.random() < 0.2:
        o["leb"] = False  # LEB128 scalars force the fallback; keep enough compiled structures
    return o


def compare_pair(ctx, case, cfgd, Tc, Ti, data, offset, full=None, label="full"):
    """Run both readers on (data, offset) and judge.  Returns the pair of outcomes."""
    top = case["top"]
    a = outcome(Tc, data, offset)
    b = outcome(Ti, data, offset)
    key = (case["text"], cfgd["endian"], cfgd["align"], cfgd["ptr"], data.hex(), offset, cfgd.get("switched_to"),
           tuple(cfgd.get("modes") or ()))
    ctx.evaluation(key)

    def viol(kind, sig, **kw):
        ctx.violation(kind, sig, case_detail(case, cfg=cfgd, data=data, offset=offset, label=label, **kw))

    if a[0] == "ok" and b[0] == "ok":
        na, ea = norm_or_err(a[1], top)
        nb, eb = norm_or_err(b[1], top)
        if ea or eb:
            viol("norm", "unexpected-value-kind", compiled_err=ea, interpreted_err=eb)
            return a, b
        ctx.event(f"both_ok:{label}")
        if na != nb:
            viol("value", "compiled-vs-interpreted-value", compiled=na, interpreted=nb)
        elif a[2] != b[2]:
            viol("tell", "compiled-vs-interpreted-consumed", compiled=a[2], interpreted=b[2])
        else:
            ok, why = sizes_agree(sizes_tree(a[1], top), sizes_tree(b[1], top))
            if not ok:
                viol("sizes", "compiled-vs-interpreted-_sizes", diff=why)
        if full is not None and not gen.has_eof(top) and label != "full":
            # any value returned from a shortened input must equal the value on the full input
            if na != full:
                viol("short-value", "value-from-short-input-differs", got=na, full=full)
    elif a[0] == "err" and b[0] == "err":
        ctx.event(f"both_err:{label}")
    else:
        ctx.event(f"mixed:{label}")
        ok_tell = a[2] if a[0] == "ok" else b[2]
        if label in ("full", "offset", "odd-offset", "endian-switch") and ok_tell is not None and ok_tell > len(data):
            # the input is shorter than the structure's extent and the reader that returned a value only skipped
            # (trailing) padding beyond the end; the other one read it: no contradiction
            ctx.event("mixed_outcome_on_missing_padding")
        elif label in ("full", "endian-switch"):
            which = "compiled" if a[0] == "err" else "interpreted"
            exc = a[1] if a[0] == "err" else b[1]
            viol("outcome", f"only-{which}-raises:{type(exc).__name__}", error=lib.exc_sig(exc))
        # on short inputs one reader may need padding the other does not touch: not a contradiction
    return a, b


def check_case(ctx, case, rng, shapes):
    thorough = ctx.thorough
    top = case["top"]
    text = case["text"]
    endians = ["<", ">"] + (["!"] if thorough and rng.random() < 0.3 else [])
    ptrs = [rng.choice(PTRS)] if not thorough else rng.sample(PTRS, 2)
    if not gen.has_ptr(top):
        ptrs = ptrs[:1]
    for endian in endians:
        for align in (False, True):
            for ptr in ptrs:
                cfgd = {"endian": endian, "align": align, "ptr": ptr}
                try:
                    ci = lib.load(text, endian, align, False, ptr)
                    err_i = None
                except Exception as e:  # noqa: BLE001
                    err_i = e
                try:
                    cc = lib.load(text, endian, align, True, ptr)
                    err_c = None
                except Exception as e:  # noqa: BLE001
                    err_c = e
                ctx.evaluation((text, endian, align, ptr, "load"))
                if (err_i is None) != (err_c is None):
                    ctx.violation("load", f"load-differs:{type(err_i or err_c).__name__}",
                                  case_detail(case, cfg=cfgd, compiled_error=repr(err_c), interpreted_error=repr(err_i)))
                    continue
                if err_i is not None:
                    ctx.event("load_rejected_by_both")
                    continue
                Tc, Ti = cc.T, ci.T
                ctx.cell(f"align:{align}", f"endian:{endian}", f"ptr:{ptr}", f"compiled:{bool(Tc.__compiled__)}")
                if not Tc.__compiled__:
                    ctx.cell("fallback")
                if Ti.__compiled__:
                    ctx.violation("mode", "interpreted-load-is-compiled", case_detail(case, cfg=cfgd))
                source_shapes(Tc, shapes)
                # layout
                sa, sb = type_sig(Tc), type_sig(Ti)
                if sa != sb:
                    ctx.violation("layout", "compiled-vs-interpreted-layout",
                                  case_detail(case, cfg=cfgd, compiled=repr(sa)[:600], interpreted=repr(sb)[:600]))
                    continue
                # inputs
                inputs = []
                cfg = engine.mcfg(case, endian, align, ptr)
                if not gen.has_dynamic_union(top):
                    for _ in range(2 if not thorough else 3):
                        try:
                            inp, used, mask, v = engine.model_input(case, cfg, rng)
                            inputs.append(inp)
                        except model.ModelUnsupported:
                            break
                for mode in rng.sample(range(4), 2 if not thorough else 3):
                    inputs.append(gen.arbitrary_bytes(rng, rng.randint(0, 40) + 64, mode))
                for inp in inputs:
                    a, b = compare_pair(ctx, case, cfgd, Tc, Ti, inp, 0)
                    full = None
                    used = None
                    if a[0] == "ok" and b[0] == "ok":
                        full, _ = norm_or_err(b[1], top)
                        used = b[2]
                    # a second start offset (aligned so that absolute and relative alignment coincide)
                    p = rng.randint(1, 5) * 16
                    pre = bytes(rng.randrange(256) for _ in range(p))
                    compare_pair(ctx, case, cfgd, Tc, Ti, pre + inp, p, label="offset")
                    # an odd start: for aligned structures the value is position dependent there (tail and dynamic
                    # alignment use the absolute stream position, C09 excludes it), but whatever the interpreted
                    # reader does the compiled one must do as well
                    q = rng.randint(1, 40) | 1
                    pre = bytes(rng.randrange(256) for _ in range(q))
                    compare_pair(ctx, case, cfgd, Tc, Ti, pre + inp, q, label="odd-offset")
                    if used:
                        cuts = range(used) if (thorough and used <= 48) else sorted(
                            {0, used - 1, max(0, used - 2), used // 2, *[rng.randrange(used) for _ in range(3)]})
                        for k in cuts:
                            compare_pair(ctx, case, cfgd, Tc, Ti, inp[:k], 0, full=full, label="cut")
                # the byte order of the cstruct object is switched after both readers exist: the compiled reader
                # must follow it exactly as the interpreted one does (nothing of the load-time order is baked in)
                other = ">" if endian == "<" else "<"
                cc.endian = ci.endian = other
                sw = dict(cfgd, switched_to=other)
                for inp in inputs[-2:]:
                    compare_pair(ctx, case, sw, Tc, Ti, inp, 0, label="endian-switch")


def load_modes(case, cfgd, compiled):
    """One load() per declaration, each with its own align flag (cfgd["modes"])."""
    cs = lib.cstruct(endian=cfgd["endian"], pointer=cfgd["ptr"])
    for d, al in zip(case["decls"], cfgd["modes"]):
        cs.load(gen.render_decl(d) + "\n", compiled=compiled, align=bool(al))
    return cs


def mixed_modes(ctx, case, rng):
    """Declarations of one cstruct object loaded with different align flags: aligned structures nested in packed
    ones (possibly at unaligned offsets) and the reverse.  The readers must still agree with each other."""
    if len(case["decls"]) < 2:
        return
    modes = [rng.random() < 0.5 for _ in case["decls"]]
    if len(set(modes)) < 2:
        modes[rng.randrange(len(modes))] ^= True
    cfgd = {"endian": rng.choice("<>"), "align": "mixed", "ptr": rng.choice(PTRS), "modes": [int(m) for m in modes]}
    try:
        ci = load_modes(case, cfgd, False)
        err_i = None
    except Exception as e:  # noqa: BLE001
        err_i = e
    try:
        cc = load_modes(case, cfgd, True)
        err_c = None
    except Exception as e:  # noqa: BLE001
        err_c = e
    ctx.evaluation((case["text"], "mixed-load", tuple(cfgd["modes"])))
    if (err_i is None) != (err_c is None):
        ctx.violation("load", f"mixed-modes:load-differs:{type(err_i or err_c).__name__}",
                      case_detail(case, cfg=cfgd, compiled_error=repr(err_c), interpreted_error=repr(err_i)))
        return
    if err_i is not None:
        ctx.event("load_rejected_by_both")
        return
    Tc, Ti = cc.T, ci.T
    ctx.cell("mixed-modes", f"mixed-modes:compiled:{bool(Tc.__compiled__)}")
    if type_sig(Tc) != type_sig(Ti):
        ctx.violation("layout", "mixed-modes:compiled-vs-interpreted-layout", case_detail(case, cfg=cfgd))
        return
    for mode in rng.sample(range(4), 3):
        inp = gen.arbitrary_bytes(rng, rng.randint(0, 40) + 96, mode)
        compare_pair(ctx, case, cfgd, Tc, Ti, inp, 0)
        p = rng.randint(1, 5) * 16
        compare_pair(ctx, case, cfgd, Tc, Ti, bytes(p) + inp, p, label="offset")
        q = rng.randint(1, 40) | 1
        compare_pair(ctx, case, cfgd, Tc, Ti, bytes(q) + inp, q, label="odd-offset")


def custom_type_fallback(ctx, rng):
    """A structure with a type the source generator does not support must load, fall back and parse."""
    from dissect.cstruct import BaseType

    class Custom(BaseType):
        @classmethod
        def _read(cls, stream, context=None):
            d = stream.read(3)
            if len(d) != 3:
                raise EOFError
            return cls.__new__(cls)

        @classmethod
        def _write(cls, stream, data):
            return stream.write(b"\x00\x00\x00")

        @classmethod
        def __default__(cls):
            return cls.__new__(cls)

    texts = ["struct T { uint8 a; custom_t c; uint16 b; uint8 d:3; uint8 e:5; };",
             "struct T { uint8 a; custom_t c[2]; uint16 b; uint8 d:3; uint8 e:5; };",
             "struct T { uint8 a; uint8 x; custom_t c[1][2]; uint16 b; uint8 d:3; uint8 e:5; };"]
    for endian, align, text in [(e, a, t) for e in "<>" for a in (False, True) for t in texts]:
        if True:
            res = []
            data = bytes(rng.randrange(256) for _ in range(24))
            for compiled in (True, False):
                cs = lib.cstruct(endian=endian)
                cs.add_custom_type("custom_t", Custom, 3, 1)
                try:
                    cs.load(text, compiled=compiled, align=align)
                except Exception as e:  # noqa: BLE001
                    ctx.violation("fallback", f"custom-type-load-fails:{type(e).__name__}",
                                  {"text": text, "compiled": compiled, "align": align, "error": repr(e)})
                    res.append(None)
                    continue
                if compiled and cs.T.__compiled__:
                    ctx.violation("fallback", "custom-type-reported-compiled", {"text": text})
                s = io.BytesIO(data)
                try:
                    o = cs.T(s)
                    res.append((int(o.a), int(o.b), int(o.d), int(o.e), s.tell(), dict(o._sizes)))
                except Exception as e:  # noqa: BLE001
                    res.append(("err", type(e).__name__))
            ctx.evaluation(("custom", endian, align))
            ctx.cell("fallback:custom-type")
            if res[0] != res[1]:
                ctx.violation("fallback", "custom-type-parse-differs", {"compiled": res[0], "interpreted": res[1]})


def special_definitions(ctx, rng):
    """Definitions and histories the generator does not produce; the two readers must agree on each of them:
    enums whose underlying type is itself an enum / flag; the pointer type of the cstruct object changed between two
    loads (structures and pointer typedefs made before the change, used before and after it)."""
    def outcome(T, data):
        s = io.BytesIO(data)
        try:
            o = T(s)
        except Exception as e:  # noqa: BLE001
            return ("err", type(e).__name__)
        return ("ok", repr(o), s.tell(), dict(o._sizes), o.dumps())

    nested_enums = ("enum A : uint8 { A1 = 1, A2 = 2 };\nenum B : A { B1 = 1, B2 = 2 };\nflag C : B { C1 = 1, C2 = 2 };\n"
                    "enum D : uint24 { D1 = 1 };\nenum E2 : D { E21 = 1 };\n"
                    "struct T { B x; uint8 y; B z[2]; C c; E2 e; E2 f[2]; uint8 g : 3; B h : 5; uint8 t; };")
    for endian in "<>":
        for align in (False, True):
            data = bytes(rng.randrange(4) for _ in range(32))
            res = []
            for compiled in (True, False):
                try:
                    cs = lib.load(nested_enums, endian, align, compiled)
                    res.append((len(cs.T), outcome(cs.T, data), outcome(cs.T, data[:5])))
                except Exception as e:  # noqa: BLE001
                    res.append(("load", type(e).__name__))
            ctx.evaluation(("nested-enums", endian, align))
            ctx.cell("special:enum-over-enum")
            if res[0] != res[1] or res[0][0] == "load":
                ctx.violation("special", "readers-differ-on-an-enum-over-an-enum",
                              {"text": nested_enums, "endian": endian, "align": align, "compiled": repr(res[0])[:400],
                               "interpreted": repr(res[1])[:400], "workload": "special-definitions"})
            else:
                ctx.event("special_definitions_checked")
    # structures whose generated reader text is the same and whose inline members carry the same local tag with
    # different bodies (a reader is made per structure, never shared by its text)
    twins = ("struct request { uint8 kind; struct hdr { uint16 id; uint16 len; } h; uint8 tail; };\n"
             "struct reply { uint8 kind; struct hdr { uint8 id; uint8 len; uint8 code; } h; uint8 tail; };\n"
             "struct replies { uint8 kind; struct hdr { uint32 id; } h; uint8 tail; };\n"
             "struct one { uint8 n; struct item { uint8 a; } items[2]; uint16 t; };\n"
             "struct two { uint8 n; struct item { uint16 a; uint8 b; } items[2]; uint16 t; };")
    for endian in "<>":
        for align in (False, True):
            data = bytes(rng.randrange(1, 250) for _ in range(40))
            res = []
            for compiled in (True, False):
                try:
                    cs = lib.load(twins, endian, align, compiled)
                    res.append([(len(getattr(cs, n)), outcome(getattr(cs, n), data), outcome(getattr(cs, n), data[:4]))
                                for n in ("request", "reply", "replies", "one", "two")])
                except Exception as e:  # noqa: BLE001
                    res.append(("load", type(e).__name__))
            ctx.evaluation(("same-source-twins", endian, align))
            ctx.cell("special:same-reader-text-other-member-types")
            if res[0] != res[1] or res[0][0] == "load":
                ctx.violation("special", "readers-differ-for-structures-with-the-same-reader-text",
                              {"text": twins, "endian": endian, "align": align, "compiled": repr(res[0])[:500],
                               "interpreted": repr(res[1])[:500], "workload": "special-definitions"})
            else:
                ctx.event("special_definitions_checked")
    # the configuration flag #[nocompile] in front of a structure: that structure (and its inline members) is read by the
    # interpreted reader, the ones around it are compiled as requested, and everybody parses what the same text without
    # the flag parses
    flagged = ("struct first { uint8 a; uint16 b[2]; };\n{F1}struct second { uint8 n; char s[n & 3]; struct { uint16 x; uint8 y : 3; uint8 z : 5; } in; uint32 t; };\n"
               "struct third { second s; uint8 k; first f; };\n{F2}typedef struct { uint8 q; third th[1]; } fourth;\nstruct fifth { uint8 e; };")
    for endian in "<>":
        for align in (False, True):
            for f1, f2 in (("#[nocompile]\n", ""), ("", "#[nocompile]\n"), ("#[nocompile]\n", " #[nocompile] "), ("#[ nocompile ]\n", "")):
                text = flagged.replace("{F1}", f1).replace("{F2}", f2)
                plain = flagged.replace("{F1}", "").replace("{F2}", "")
                data = bytes(rng.randrange(1, 250) for _ in range(64))
                names = ("first", "second", "third", "fourth", "fifth")
                ctx.evaluation(("nocompile-flag", endian, align, f1, f2))
                ctx.cell("special:nocompile-flag")
                try:
                    res = []
                    for t_, compiled in ((text, True), (plain, True), (plain, False)):
                        cs = lib.load(t_, endian, align, compiled)
                        res.append(([bool(getattr(cs, n).__compiled__) for n in names],
                                    [(getattr(cs, n).size, outcome(getattr(cs, n), data), outcome(getattr(cs, n), data[:3])) for n in names]))
                    stripped = "[ " not in f1   # (blanks inside the brackets are part of the flag's text: only the values are judged then)
                    want_flags = [True, not (f1 and stripped), True, not f2, True]
                    problems = []
                    if res[0][1] != res[1][1] or res[0][1] != res[2][1]:
                        problems.append("values")
                    if res[1][0] != [True] * 5 or res[2][0] != [False] * 5:
                        problems.append("unflagged-compiled-flags")
                    if stripped and res[0][0] != want_flags:
                        problems.append("flagged-compiled-flags")
                except Exception as e:  # noqa: BLE001
                    ctx.violation("special", f"nocompile-flag:raises:{type(e).__name__}", {"text": text, "endian": endian, "align": align,
                                                                                        "error": lib.exc_sig(e), "workload": "special-definitions"})
                    continue
                if problems:
                    ctx.violation("special", "nocompile-flag:" + "+".join(problems),
                                  {"text": text, "endian": endian, "align": align, "flags": repr([r[0] for r in res]),
                                   "flagged": repr(res[0][1])[:400], "interpreted": repr(res[2][1])[:400], "workload": "special-definitions"})
                else:
                    ctx.event("special_definitions_checked")
    # blocks made of char members only (the generated reader slices them out of one buffer): every prefix of the input
    for text, names in (("struct tag { char magic[4]; char version; };\nstruct rec { uint16 id; tag t; };\nstruct one { char c; };\n"
                         "struct nine { char a[3]; char b; char c[5]; };\nstruct ten { char a[10]; };\nstruct dyn { uint8 n; char s[n]; char k[2]; char e; };",
                         ("tag", "rec", "one", "nine", "ten", "dyn")),):
        for endian in "<>":
            for align in (False, True):
                data = bytes([3]) + bytes(rng.randrange(0x41, 0x5B) for _ in range(15))
                res = []
                for compiled in (True, False):
                    try:
                        cs = lib.load(text, endian, align, compiled)
                        res.append([[outcome(getattr(cs, n), data[:k]) for k in range(len(data))] for n in names])
                    except Exception as e:  # noqa: BLE001
                        res.append(("load", type(e).__name__))
                ctx.evaluation(("char-only-blocks", endian, align))
                ctx.cell("special:char-only-blocks-at-every-cut")
                bad = None
                if res[0] != res[1] or res[0][0] == "load":
                    bad = "readers-differ-on-a-cut-char-only-block"
                else:
                    # and whatever a cut input returns is what the full input returns
                    for per_name in res[0]:
                        full = per_name[-1]
                        for k, r in enumerate(per_name):
                            if r[0] == "ok" and full[0] == "ok" and r[1] != full[1]:   # (the position may lie in skipped tail padding)
                                bad = "cut-input-returns-another-value-than-the-full-input"
                if bad:
                    ctx.violation("special", bad, {"text": text, "endian": endian, "align": align, "data": data.hex(),
                                                  "compiled": repr(res[0])[:500], "interpreted": repr(res[1])[:500], "workload": "special-definitions"})
                else:
                    ctx.event("special_definitions_checked")
    # pointer members whose pointer type is not struct-packed (uint24 / uint48 / uint128 ...), alone and in fixed arrays: the
    # pointers of both readers read their targets from the parsed stream
    dtexts = ("struct T { uint16 *q[2]; uint16 *p; uint8 k; uint16 *r[1][2]; };",
              "struct T { uint16 *q[3]; uint8 k; uint16 *r[2]; };",      # arrays of pointers only (no member makes the structure fall back)
              "struct T { uint16 *q[1]; uint16 *q2[2]; uint8 k; uint16 *r[1][2]; };")
    for dtext in dtexts:
        for ptr in ("uint24", "uint48", "uint128", "int24", "uint16", "uint64"):
            for endian in "<>":
                w = gen.ALL_INTS[ptr][0]
                bo = "little" if endian == "<" else "big"
                base = 5 * w + 1
                addrs = [base + 2 * i for i in range(5)]
                data = b"".join(a.to_bytes(w, bo) for a in addrs[:3]) + b"\x07" + b"".join(a.to_bytes(w, bo) for a in addrs[3:]) + bytes(rng.randrange(1, 256) for _ in range(12))
                res = []
                for compiled in (True, False):
                    try:
                        cs = lib.load(dtext, endian, False, compiled, ptr)
                        o = cs.T(io.BytesIO(data))
                        ptrs = []
                        for f in cs.T.__fields__:
                            v = getattr(o, f._name)
                            if f._name != "k":
                                flat = v if isinstance(v, list) else [v]
                                ptrs += [y for x in flat for y in (x if isinstance(x, list) else [x])]
                        res.append(([int(x) for x in ptrs], [int(x.dereference()) for x in ptrs], int(o.k)))
                    except Exception as e:  # noqa: BLE001
                        res.append(("err", type(e).__name__, str(e)[:80]))
                want = (addrs, [int.from_bytes(data[a:a + 2], bo) for a in addrs], 7)
                ctx.evaluation(("odd-pointer-dereference", dtext, ptr, endian))
                ctx.cell("special:dereference-with-odd-pointer-types")
                if res[0] != res[1] or res[0] != want:
                    ctx.violation("special", "readers-differ-in-what-a-pointer-dereferences-to",
                                  {"text": dtext, "ptr": ptr, "endian": endian, "data": data.hex(), "compiled": repr(res[0])[:300],
                                   "interpreted": repr(res[1])[:300], "want": repr(want), "workload": "special-definitions"})
                else:
                    ctx.event("special_definitions_checked")
    # pointer types that are signed or not struct-packed: whatever a pointer's value is then, it is the same one in
    # both readers (scalars, fixed and null-terminated arrays, behind a dynamic field)
    ptext = "struct T { uint8 lead; uint16 *p; uint8 x; uint16 *q[2]; uint8 n; char s[n & 3]; uint16 *r; uint16 *z[]; uint8 t; };"
    for ptr in ("int8", "int16", "int32", "int64", "int24", "int128", "uint128"):
        for endian in "<>":
            w = gen.ALL_INTS[ptr][0]
            data = bytes([1]) + b"\xff\xfe" * (w * 4) + bytes(rng.randrange(128, 256) for _ in range(8 * w)) + bytes(3 * w + 4)
            res = []
            for compiled in (True, False):
                try:
                    cs = lib.load(ptext, endian, False, compiled, ptr)
                    s_ = io.BytesIO(data)
                    o = cs.T(s_)
                    res.append((len(cs.T.fields["p"].type), int(o.p), [int(v) for v in o.q], int(o.r), [int(v) for v in o.z][:4],
                                int(o.x), int(o.t), s_.tell(), dict(o._sizes), o.dumps()))
                except Exception as e:  # noqa: BLE001
                    res.append(("err", type(e).__name__))
            ctx.evaluation(("odd-pointer-types", ptr, endian))
            ctx.cell("special:signed-or-wide-pointer-type")
            if res[0] != res[1]:
                ctx.violation("special", "readers-differ-for-a-signed-or-wide-pointer-type",
                              {"text": ptext, "pointer_type": ptr, "endian": endian, "data": data.hex(),
                               "compiled": repr(res[0])[:400], "interpreted": repr(res[1])[:400], "workload": "special-definitions"})
            else:
                ctx.event("special_definitions_checked")
    widths = ["uint8", "uint16", "uint32", "uint64", "uint24"]
    for w1 in widths:
        for w2 in widths:
            if w1 == w2:
                continue
            endian = rng.choice("<>")
            first = "typedef uint16 *EARLY;\nstruct A { uint8 lead; uint16 *p; uint8 x; EARLY q[2]; uint8 y; };"
            second = "struct L { uint8 lead; EARLY p; uint8 x; uint16 *n; uint8 y; A a; };"
            data = bytes(rng.randrange(1, 256) for _ in range(80))
            res = []
            for compiled in (True, False):
                try:
                    cs = lib.cstruct(endian=endian, pointer=w1)
                    cs.load(first, compiled=compiled)
                    before = outcome(cs.A, data)
                    cs.pointer = cs.resolve(w2)
                    cs.load(second, compiled=compiled)
                    res.append((len(cs.A), len(cs.L), before, outcome(cs.A, data), outcome(cs.L, data)))
                except Exception as e:  # noqa: BLE001
                    res.append(("load", type(e).__name__, str(e)[:80]))
            ctx.evaluation(("pointer-reconfigured", w1, w2, endian))
            ctx.cell("special:pointer-type-changed-between-loads")
            if res[0] != res[1] or res[0][0] == "load":
                ctx.violation("special", "readers-differ-after-the-pointer-type-was-changed",
                              {"first": first, "second": second, "pointer_types": [w1, w2], "endian": endian,
                               "compiled": repr(res[0])[:500], "interpreted": repr(res[1])[:500],
                               "workload": "special-definitions"})
            elif res[0][2] != res[0][3]:
                ctx.violation("special", "structure-changes-when-the-pointer-type-is-changed-after-its-definition",
                              {"first": first, "pointer_types": [w1, w2], "before": repr(res[0][2])[:300],
                               "after": repr(res[0][3])[:300], "workload": "special-definitions"})
            else:
                ctx.event("special_definitions_checked")


def explicit_offsets(ctx, n):
    """Structures built through the Python API with explicit field offsets (forward gaps, overlays, fields going
    back into earlier bytes): both readers must still agree."""
    from dissect.cstruct import Field, compiler

    for it in range(n):
        rng = ctx.rng("explicit-offsets", it)
        endian = rng.choice("<>")
        align = rng.random() < 0.3
        spec = []
        pos = 0
        for i in range(rng.randint(2, 7)):
            kind = rng.choice(["uint8", "uint16", "uint32", "uint64", "uint24", "char4", "u16x3", "inner", "cstr",
                               "bits", "float"])
            mode = rng.random()
            if mode < 0.35:
                off = None
            elif mode < 0.7:
                off = pos + rng.randint(0, 6)            # forward, possibly with a gap
            elif mode < 0.85:
                off = rng.randint(0, max(0, pos))        # back into what was read already (overlay)
            else:
                off = 0
            if kind in ("cstr",) and i != rng.randint(0, 6):
                kind = "uint16"
            spec.append((f"f{i}", kind, off))
            size = {"uint8": 1, "uint16": 2, "uint32": 4, "uint64": 8, "uint24": 3, "char4": 4, "u16x3": 6, "inner": 3,
                    "cstr": 4, "bits": 2, "float": 4}[kind]
            pos = (off if off is not None else pos) + size
        built = []
        for compiled in (True, False):
            cs = lib.cstruct(endian=endian)
            cs.load("struct inner { uint8 a; uint16 b; };")
            types = {"uint8": cs.uint8, "uint16": cs.uint16, "uint32": cs.uint32, "uint64": cs.uint64, "uint24": cs.uint24,
                     "char4": cs.char[4], "u16x3": cs.uint16[3], "inner": cs.inner, "cstr": cs.char[None],
                     "float": cs.float}
            fields = []
            for name, kind, off in spec:
                if kind == "bits":
                    fields.append(Field(name, cs.uint16, bits=5, offset=off))
                    fields.append(Field(name + "b", cs.uint16, bits=11))
                else:
                    fields.append(Field(name, types[kind], offset=off))
            try:
                st = cs._make_struct("T", fields, align=align)
                if compiled:
                    st = compiler.compile(st)
                built.append(st)
            except Exception as e:  # noqa: BLE001
                built.append(e)
        ctx.evaluation(("explicit-offsets", repr(spec), endian, align))
        ctx.cell("explicit-offsets")
        if isinstance(built[0], Exception) or isinstance(built[1], Exception):
            if isinstance(built[0], Exception) != isinstance(built[1], Exception):
                ctx.violation("load", "explicit-offset-structure-builds-in-one-mode-only",
                              {"spec": spec, "compiled": repr(built[0]), "interpreted": repr(built[1])})
            continue
        Tc, Ti = built
        if not Tc.__compiled__:
            ctx.event("explicit_offsets_fallback")
        if (Tc.size, Tc.alignment, [f.offset for f in Tc.__fields__]) != (Ti.size, Ti.alignment,
                                                                        [f.offset for f in Ti.__fields__]):
            ctx.violation("layout", "explicit-offset-layout-differs", {"spec": spec, "align": align})
            continue
        for trial in range(4):
            data = gen.arbitrary_bytes(rng, 96, rng.choice((0, 2, 3)))
            for p in (0, 16):
                ra, rb = outcome(Tc, data, p), outcome(Ti, data, p)
                ctx.evaluation(("explicit-offsets", repr(spec), endian, align, data.hex(), p))
                if ra[0] != rb[0]:
                    ctx.violation("outcome", "explicit-offsets:only-one-reader-raises",
                                  {"spec": spec, "endian": endian, "align": align, "data": data.hex(), "offset": p,
                                   "compiled": repr(ra[1])[:200], "interpreted": repr(rb[1])[:200]})
                elif ra[0] == "ok":
                    va = {f._name: repr(lib.unwrap(getattr(ra[1], f._name))) for f in Tc.__fields__}
                    vb = {f._name: repr(lib.unwrap(getattr(rb[1], f._name))) for f in Ti.__fields__}
                    if va != vb or ra[2] != rb[2]:
                        ctx.violation("value", "explicit-offsets:compiled-vs-interpreted",
                                      {"spec": spec, "endian": endian, "align": align, "data": data.hex(), "offset": p,
                                       "compiled": va, "interpreted": vb, "tell": [ra[2], rb[2]]})
                    elif dict(ra[1]._sizes) != dict(rb[1]._sizes):
                        common = set(ra[1]._sizes) & set(rb[1]._sizes)
                        if any(ra[1]._sizes[k] != rb[1]._sizes[k] for k in common):
                            ctx.violation("sizes", "explicit-offsets:_sizes-differ", {"spec": spec})


def run(ctx):
    shapes = {"fmt": set(), "flags": {}}
    if ctx.shard % 4 == 3:
        explicit_offsets(ctx, 60 if not ctx.thorough else 1500)
    n = N_CASES[ctx.tier]
    if ctx.shard == 0:
        custom_type_fallback(ctx, ctx.rng("custom"))
    if ctx.shard == 1:
        special_definitions(ctx, ctx.rng("special"))
    if ctx.shard % 4 == 2:
        # lengths over fields folded in through several anonymous levels (constant outer / computed inner dimensions)
        r2 = ctx.rng("deep-folded")
        for _ in range(6 if not ctx.thorough else 60):
            case = gen.deep_folded_case(r2)
            ctx.cell("deep-folded-length-source")
            check_case(ctx, case, r2, shapes)
        for _ in range(6 if not ctx.thorough else 60):
            ctx.cell("bit-field-units-placed-at-run-time")
            check_case(ctx, gen.runtime_placed_units_case(r2), r2, shapes)
    for i in range(n):
        if ctx.out_of_time():
            break
        rng = ctx.rng("case", i)
        case = engine.make_case(rng, **gen_opts(rng, ctx.thorough))
        for t in case["feats"]:
            ctx.cell("feat:" + t)
        check_case(ctx, case, rng, shapes)
        mixed_modes(ctx, case, rng)
        if i < 2:
            ctx.sample({"text": case["text"], "feats": case["feats"]})
    ctx.extra["distinct_struct_formats"] = sorted(shapes["fmt"])[:200]
    ctx.extra["source_shapes"] = shapes["flags"]


def replay(ctx, detail):
    if detail.get("workload") == "special-definitions":
        import random

        print(detail)
        special_definitions(ctx, random.Random(0))
        return
    case = engine.case_from_detail(detail)
    cfgd = detail["cfg"]
    print("definition:\n" + case["text"])
    print("config:", cfgd)
    if cfgd.get("modes"):
        cc, ci = load_modes(case, cfgd, True), load_modes(case, cfgd, False)
    else:
        cc = lib.load(case["text"], cfgd["endian"], cfgd["align"], True, cfgd["ptr"])
        ci = lib.load(case["text"], cfgd["endian"], cfgd["align"], False, cfgd["ptr"])
    if cfgd.get("switched_to"):
        cc.endian = ci.endian = cfgd["switched_to"]
    if "data" in detail:
        data = engine.unhex(detail["data"])
        a, b = compare_pair(ctx, case, cfgd, cc.T, ci.T, data, detail.get("offset", 0), label=detail.get("label", "full"))
        print("input:", data.hex(), "offset", detail.get("offset", 0))
        for name, r in (("compiled", a), ("interpreted", b)):
            print(f"{name}: {r[0]} {r[1]!r} tell={r[2]}")
    else:
        sa, sb = type_sig(cc.T), type_sig(ci.T)
        print("layout equal:", sa == sb)
        if sa != sb:
            ctx.violation("layout", "compiled-vs-interpreted-layout", detail)
