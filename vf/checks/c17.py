"""C17  Structure values: field-wise equality, consistent hash/bool, local assignment."""
from __future__ import annotations

import copy

from .. import engine, gen, lib, model, monitors
from ..engine import case_detail
from ..gen import ALL_INTS

N_CASES = {"quick": 45, "thorough": 900}


def attrs_loaded(code):
    """The attribute names a generated method reads, in order (`__class__` aside): what the method looks at.  (The
    other names of the code object -- builtins such as any, hash, NotImplemented -- are none of the monitor's business.)"""
    import dis

    return tuple(i.argval for i in dis.get_instructions(code) if i.opname == "LOAD_ATTR" and i.argval != "__class__")


class MethodMonitor:
    """After every class (re)build the generated __init__/__eq__/__hash__/__bool__ must name exactly the class's
    fields, in order."""

    def __init__(self, ctx):
        self.ctx = ctx
        self.patch = monitors.Patch()

    def install(self):
        from dissect.cstruct.types.structure import StructureMetaType, UnionMetaType

        mon = self

        def after(cls, args, kwargs, res, exc, token):
            if exc is not None or not isinstance(res, dict):
                return
            mon.ctx.event("StructureMetaType._update_fields")
            # (a member folded in from an anonymous structure may be called `fields` / `lookup` itself: the class then keeps
            # its table behind a descriptor that hands instances the member)
            folded = tuple(getattr(res["fields"], "class_value", res["fields"]).keys())
            raw = tuple(getattr(res["lookup"], "class_value", res["lookup"]).keys())
            problems = []
            init = res["__init__"].__code__
            if init.co_varnames[: len(raw) + 1] != ("self", *raw):
                problems.append(("__init__ parameters", init.co_varnames, raw))
            is_union = cls is UnionMetaType or isinstance(cls, UnionMetaType) or (
                isinstance(cls, type) and issubclass(cls, UnionMetaType))
            if not is_union:
                if tuple(init.co_names) != raw:
                    problems.append(("__init__ attribute names", init.co_names, raw))
                eq = res["__eq__"].__code__
                if attrs_loaded(eq) != folded + folded:
                    problems.append(("__eq__ names", attrs_loaded(eq), folded))
            for meth in ("__bool__", "__hash__"):
                co = res[meth].__code__
                if attrs_loaded(co) != folded:
                    problems.append((meth + " names", attrs_loaded(co), folded))
            mon.ctx.extra.setdefault("field_counts", {})
            mon.ctx.extra["field_counts"][str(len(folded))] = mon.ctx.extra["field_counts"].get(str(len(folded)), 0) + 1
            for what, got, want in problems:
                mon.ctx.violation("method-monitor", f"generated-{what.split()[0]}-does-not-name-the-class-fields",
                                  {"what": what, "got": list(got), "want": list(want)})

        monitors.wrap_method(self.patch, StructureMetaType, "_update_fields", None, after)

    def uninstall(self):
        self.patch.restore()


def gen_opts(rng, thorough):
    o = dict(fixed_only=True, dyn=False, leb=False, eof=False, dyn_unions=False, floats=rng.random() < 0.5)
    o["max_fields"] = rng.choice([1, 2, 3, 6, 10]) if not thorough else rng.choice([1, 2, 3, 6, 12, 20, 30, 40])
    o["max_depth"] = 2
    o["unions"] = rng.random() < 0.3
    return o


def top_fields(top):
    return [(i, f) for i, f in enumerate(top["fields"]) if f["name"] is not None]


def perturb(top, v, rng, cfg):
    """A copy of v that differs in exactly one top-level non-union field (or is identical)."""
    v2 = copy.deepcopy(v)
    cands = [(i, f) for i, f in top_fields(top) if not gen.has_union(f["t"])]
    if not cands or rng.random() < 0.35:
        return v2, None
    i, f = rng.choice(cands)
    for _ in range(8):
        nv = model.random_value(f["t"], rng, cfg, f=f)
        if model.clean(nv) != model.clean(v[f["name"]]):
            v2[f["name"]] = nv
            return v2, f["name"]
    return v2, None


def build(T, top, v):
    return lib.build(T, top, v)


def check_case(ctx, case, rng):
    top = case["top"]
    for cfgd in engine.std_configs(rng, ctx.thorough, top)[: (8 if ctx.thorough else 4)]:
        cfg = engine.mcfg(case, cfgd["endian"], cfgd["align"], cfgd["ptr"])
        # a second structure with the very same fields under another name, loaded first or second (template cache)
        twin = case["text"] + "\n" + gen.render_struct_decl(dict(top, name="Twin", decl="top")) + "\n"
        try:
            cs = lib.load(twin, cfgd["endian"], cfgd["align"], cfgd["compiled"], cfgd["ptr"])
        except Exception as e:  # noqa: BLE001
            ctx.event("load_rejected")
            continue
        T, Twin = cs.T, cs.Twin

        def viol(kind, sig, **kw):
            ctx.violation(kind, sig, case_detail(case, cfg=cfgd, **kw))

        ctx.cell(f"fields:{min(len(T.fields), 40) // 5 * 5}+", f"align:{cfgd['align']}")
        has_union = gen.has_union(top)
        try:
            v1 = model.random_value(top, rng, cfg)
            if model.has_nan(v1):
                continue
            v2, changed = perturb(top, v1, rng, cfg)
            raw1, mask1 = model.dump(top, v1, cfg)
            raw2, _ = model.dump(top, v2, cfg)
        except model.ModelUnsupported:
            continue
        # instances: parsed and constructed
        try:
            a = T(raw1)
            b = T(raw2) if rng.random() < 0.5 or has_union else build(T, top, v2)
            a2 = T(raw1)
            t = Twin(raw1)
        except Exception as e:  # noqa: BLE001
            viol("build", f"instance-creation-raises:{type(e).__name__}", error=lib.exc_sig(e), data=raw1)
            continue
        key = (case["text"], tuple(sorted(cfgd.items())), raw1.hex(), raw2.hex())
        ctx.evaluation(key)
        want_eq = model.clean(v1) == model.clean(v2) if not has_union else raw1 == raw2
        if has_union and changed is None and raw1 != raw2:
            want_eq = None
        try:
            got_eq = a == b
            if want_eq is not None and bool(got_eq) != want_eq:
                viol("eq", "equality-is-not-field-wise", data=raw1, other=raw2, changed=changed, got=bool(got_eq),
                     want=want_eq)
            if want_eq is not None and bool(a != b) == want_eq:
                viol("eq", "inequality-inconsistent-with-equality", data=raw1, other=raw2)
            if not (a == a2) or not (a2 == a):
                viol("eq", "two-parses-of-the-same-bytes-are-unequal", data=raw1)
            if a == t or t == a:
                viol("eq", "instances-of-different-structure-types-compare-equal", data=raw1)
            ctx.event("eq_pairs")
        except Exception as e:  # noqa: BLE001
            viol("eq", f"comparison-raises:{type(e).__name__}", data=raw1, error=lib.exc_sig(e))
        # hash
        try:
            ha, ha2 = hash(a), hash(a2)
            if ha != ha2:
                viol("hash", "equal-instances-hash-differently", data=raw1)
            if want_eq:
                if hash(b) != ha:
                    viol("hash", "equal-instances-hash-differently", data=raw1, other=raw2)
            ctx.event("hash_pairs")
        except TypeError:
            ctx.event("unhashable")
        except Exception as e:  # noqa: BLE001
            viol("hash", f"hash-raises:{type(e).__name__}", data=raw1, error=lib.exc_sig(e))
        # bool: falsy exactly when all fields are
        try:
            wb = model.truthy(top, v1)
            if bool(a) != wb:
                viol("bool", "truth-value-is-not-any-field-truthy", data=raw1, got=bool(a), want=wb)
            zero = T(bytes(len(raw1)))
            if bool(zero) and not gen.has_kind(top, lambda n: n["k"] in ("char", "wchar") or (
                    n["k"] == "array" and n["len"].get("n", 0) > 0)):
                viol("bool", "all-zero-instance-is-truthy", data=bytes(len(raw1)))
            ctx.event("bool_checks")
        except Exception as e:  # noqa: BLE001
            viol("bool", f"bool-raises:{type(e).__name__}", data=raw1, error=lib.exc_sig(e))
        if has_union:
            continue
        # construction = assignment on a default instance; unspecified fields take the zero value
        names = [f["name"] for _, f in top_fields(top)]
        anon_present = any(f["name"] is None for f in top["fields"])
        subset = [n for n in names if rng.random() < 0.5]
        fmap = {f["name"]: (i, f) for i, f in top_fields(top)}
        try:
            kw = {n: lib.build(T.__fields__[fmap[n][0]].type, fmap[n][1]["t"], v1[n], fmap[n][1]) for n in subset}
            x = T(**kw)
            y = T()
            for n in subset:
                setattr(y, n, lib.build(T.__fields__[fmap[n][0]].type, fmap[n][1]["t"], v1[n], fmap[n][1]))
            nx, ny = lib.nan_clean(lib.norm(x, top, strict=False)), lib.nan_clean(lib.norm(y, top, strict=False))
            ctx.evaluation(key + ("construct", tuple(subset)))
            if nx != ny or x.dumps() != y.dumps() or not (x == y):
                viol("construct", "keyword-construction-differs-from-assignment-on-default", subset=subset,
                     constructed=nx, assigned=ny)
            else:
                dv = model.default_value(top, cfg)
                for i, f in enumerate(top["fields"]):
                    k = model.fkey(i, f)
                    if k not in subset and nx[k] != lib.nan_clean(model.clean(dv[k])):
                        viol("construct", "unspecified-field-is-not-the-zero-value", field=k, got=nx[k],
                             want=model.clean(dv[k]))
                        break
                ctx.event("constructions")
            if not anon_present and names:
                npos = rng.randint(1, len(names))
                if all(not f.get("bits") or True for _, f in top_fields(top)):
                    pos = [kw.get(n) if n in kw else lib.build(T.__fields__[fmap[n][0]].type, fmap[n][1]["t"], v1[n],
                                                               fmap[n][1]) for n in names[:npos]]
                    if npos == 1 and (isinstance(pos[0], (bytes, bytearray, memoryview)) or hasattr(pos[0], "read")):
                        # a single positional buffer/stream argument means "parse this" by design
                        pos = pos + [lib.build(T.__fields__[fmap[names[1]][0]].type, fmap[names[1]][1]["t"],
                                               v1[names[1]], fmap[names[1]][1])] if len(names) > 1 else None
                        npos = 2
                    if pos is None:
                        raise_skip = True
                    z = T(*pos) if pos is not None else T()
                    w = T(**{n: p for n, p in zip(names[:npos], pos)}) if pos is not None else T()
                    if not (z == w) or z.dumps() != w.dumps():
                        viol("construct", "positional-construction-differs-from-keyword-construction", npos=npos)
        except Exception as e:  # noqa: BLE001
            viol("construct", f"construction-raises:{type(e).__name__}", subset=subset, error=lib.exc_sig(e))
        # the fields folded in from anonymous structure members are fields of the structure too: by keyword = assigned
        folded = [n for n in T.fields if n not in T.lookup and n != "_"]
        if folded and not has_union:
            pick = [n for n in folded if rng.random() < 0.6] or folded[:1]
            try:
                vals = {n: getattr(a, n) for n in pick}
                if not any(isinstance(v, lib.Pointer) for v in vals.values()):
                    x = T(**vals)
                    y = T()
                    for n, v in vals.items():
                        setattr(y, n, v)
                    ctx.evaluation(key + ("construct-folded", tuple(pick)))
                    ctx.cell("folded-fields-by-keyword")
                    if not (x == y) or x.dumps() != y.dumps() or any(not (getattr(x, n) == v) and v == v for n, v in vals.items()):
                        viol("construct", "keyword-construction-with-folded-fields-differs-from-assignment", subset=pick)
                    else:
                        ctx.event("folded_keyword_constructions")
            except Exception as e:  # noqa: BLE001
                viol("construct", f"construction-with-folded-fields-raises:{type(e).__name__}", subset=pick, error=lib.exc_sig(e))
        # a default instance that was modified (also through the forwarded fields of an anonymous member) does
        # not change what a later construction returns
        try:
            d1 = T()
            zero = lib.nan_clean(lib.norm(T(), top, strict=False))
            for f in type(d1).fields.values():
                pass
            touched = 0
            for fname, fld in list(T.fields.items())[:6]:
                from dissect.cstruct.types.base import BaseArray as _BA

                if issubclass(fld.type, int) and not issubclass(fld.type, (lib.Pointer,)) and not fld.bits:
                    try:
                        setattr(d1, fname, 1)
                        touched += 1
                    except Exception:  # noqa: BLE001
                        pass
            again = lib.nan_clean(lib.norm(T(), top, strict=False))
            part = lib.nan_clean(lib.norm(T(**{}), top, strict=False))
            ctx.evaluation(key + ("fresh-default-after-mutation", touched))
            if again != zero or part != zero:
                viol("construct", "later-default-construction-changed-by-mutating-an-earlier-instance",
                     got=again, want=zero)
            elif touched:
                ctx.event("fresh_defaults_checked")
        except Exception as e:  # noqa: BLE001
            viol("construct", f"default-construction-raises:{type(e).__name__}", error=lib.exc_sig(e))
        # assignment locality
        lay = model.layout(top, cfg)
        obj = T(raw1)
        d0 = obj.dumps()
        for _ in range(3):
            if not names:
                break
            n = rng.choice(names)
            i, f = fmap[n]
            nv = model.random_value(f["t"], rng, cfg, f=f)
            if isinstance(nv, float) and nv != nv:
                continue
            vnew = dict(v1)
            vnew[n] = nv
            try:
                libv = lib.alt_form(lib.build(T.__fields__[i].type, f["t"], nv, f), f["t"], rng)
                if type(libv) in (str, int) and f["t"]["k"] != "wchar" and (f["t"]["k"] == "char" or f["t"].get("elem", {}).get("k") == "char"):
                    ctx.event("char_assigned_as_str_or_int")
                if type(libv) is int and f["t"]["k"] == "enum":
                    ctx.event("enum_assigned_as_int")
                setattr(obj, n, libv)
                d1 = obj.dumps()
            except Exception as e:  # noqa: BLE001
                viol("locality", f"assignment-or-dump-raises:{type(e).__name__}", field=n, error=lib.exc_sig(e))
                break
            want, _ = model.dump(top, vnew, cfg)
            ctx.evaluation(key + ("assign", n, repr(model.clean(nv))[:60]))
            ctx.event("assignments")
            if d1 != want:
                off = lay["offsets"][i]
                u = lay["units"][i]
                size = ALL_INTS[u["st"]][0] if u else model.size_of(f["t"], cfg)
                outside = [j for j in range(len(d1)) if not (off <= j < off + size) and j < len(d0) and d1[j] != d0[j]]
                sig = "assignment-changes-bytes-outside-the-field" if outside else "assigned-field-bytes-differ-from-its-encoding"
                viol("locality", sig, field=n, value=model.clean(nv), before=d0, after=d1, want=want, outside=outside[:8])
                break
            v1 = vnew
            d0 = d1
        # a value one beyond a bit-field's range is refused when written: it must not reach the neighbouring field's bits
        bitnames = [n for n in names if fmap[n][1].get("bits")]
        for n in bitnames[:2]:
            i, f = fmap[n]
            try:
                obj2 = T(d0)
                setattr(obj2, n, 1 << f["bits"])
                d2 = obj2.dumps()
            except Exception:  # noqa: BLE001
                ctx.event("out_of_range_bit_field_assignment_refused")
                continue
            ctx.evaluation(key + ("assign-out-of-range", n))
            viol("locality", "assignment-changes-bytes-outside-the-field", field=n, value=1 << f["bits"], before=d0, after=d2,
                 note="a value of exactly 2^bits was written instead of refused")
        # ... and a change made in place -- an element of an array member, a field of a nested structure or of a
        # structure inside an array -- of a *parsed* instance (its members are still the objects the reader made):
        # the dumped bytes are those of the values it holds now
        import copy

        cands = []
        for n in names:
            i, f = fmap[n]
            t = f["t"]
            if f.get("bits"):
                continue
            if t["k"] == "struct" and not t.get("union") and not gen.has_union(t):
                cands.append((n, "struct"))
            elif t["k"] == "array" and t["elem"]["k"] in ("int", "struct") and not gen.node_dynamic(t):
                if t["elem"]["k"] == "int" or (not t["elem"].get("union") and not gen.has_union(t["elem"])):
                    cands.append((n, "array"))
        rng.shuffle(cands)
        for n, how in cands[:2]:
            if T.size is None or model.has_nan(v1):
                break
            i, f = fmap[n]
            try:
                obj = T(d0)
                vnew = copy.deepcopy(v1)
                holder_l, holder_m, node = getattr(obj, n), vnew[n], f["t"]
                path = n
                if how == "array":
                    if not holder_m:
                        continue
                    j = rng.randrange(len(holder_m))
                    path += f"[{j}]"
                    if node["elem"]["k"] == "int":
                        nv = model.random_value(node["elem"], rng, cfg)
                        holder_l[j] = nv
                        holder_m[j] = nv
                        node = None
                    else:
                        holder_l, holder_m, node = holder_l[j], holder_m[j], node["elem"]
                if node is not None:
                    inner = [(k2, f2) for k2, f2 in enumerate(node["fields"])
                             if f2["name"] not in (None, "_") and f2["name"] in holder_m and f2["t"]["k"] in ("int", "enum", "char", "float")]
                    if not inner:
                        continue
                    k2, f2 = rng.choice(inner)
                    nv = model.random_value(f2["t"], rng, cfg, f=f2)
                    if isinstance(nv, float) and nv != nv:
                        continue
                    setattr(holder_l, f2["name"], lib.build(type(holder_l).__fields__[k2].type, f2["t"], nv, f2))
                    holder_m[f2["name"]] = nv
                    path += "." + f2["name"]
                d1 = obj.dumps()
                want, _ = model.dump(top, vnew, cfg)
            except model.ModelUnsupported:
                continue
            except Exception as e:  # noqa: BLE001
                viol("locality", f"in-place-change-or-dump-raises:{type(e).__name__}", field=n, error=lib.exc_sig(e))
                break
            ctx.evaluation(key + ("in-place", path, repr(nv)[:40]))
            ctx.event("in_place_changes_of_parsed_instances")
            ctx.cell("in-place-change-of-parsed-instance:" + how)
            if d1 != want:
                viol("locality", "in-place-change-of-a-nested-value-not-reflected-in-the-dumped-bytes", field=path,
                     value=repr(nv), before=d0, after=d1, want=want)
                break
            v1, d0 = vnew, d1


def run(ctx):
    mon = MethodMonitor(ctx)
    mon.install()
    try:
        for i in range(N_CASES[ctx.tier]):
            if ctx.out_of_time():
                break
            rng = ctx.rng("case", i)
            case = engine.make_case(rng, **gen_opts(rng, ctx.thorough))
            check_case(ctx, case, rng)
            if i < 2:
                ctx.sample({"text": case["text"]})
        f17_witness(ctx)
        if ctx.shard == 0:
            discard_field(ctx)
        if ctx.shard == 1:
            special_forms(ctx)
        if ctx.shard == 2:
            members_named_like_class_attributes(ctx)
    finally:
        mon.uninstall()


def members_named_like_class_attributes(ctx):
    """Members called `size`, `alignment`, `dynamic`, `fields`, `lookup` -- names the structure *class* uses itself --
    as direct members and folded in from anonymous members (one and two levels, and inside a union): instances hold the
    field (parsed, constructed, assigned: all reach the dumped bytes and nothing else), the class keeps its own
    attribute (`len(T)`, `T.size`)."""
    shapes = {
        "direct": "struct T {{ uint8 a; uint16 {n}; uint8 z; }};",
        "folded": "struct T {{ uint8 a; struct {{ uint16 {n}; }}; uint8 z; }};",
        "folded-twice": "struct T {{ uint8 a; struct {{ struct {{ uint16 {n}; }}; }}; uint8 z; }};",
        "folded-from-union": "struct T {{ uint8 a; union {{ struct {{ uint16 {n}; }}; uint16 raw; }}; uint8 z; }};",
    }
    for name in ("size", "alignment", "dynamic", "fields", "lookup", "plain"):
        for shape, tmpl in shapes.items():
            for compiled in (True, False):
                for endian in "<>":
                    text = tmpl.format(n=name)
                    ctx.evaluation(("class-attribute-names", name, shape, compiled, endian))
                    ctx.cell(f"member-named-like-a-class-attribute:{shape}")
                    det = {"text": text, "compiled": compiled, "endian": endian, "workload": "class-attribute-names"}
                    bo = "little" if endian == "<" else "big"
                    try:
                        cs = lib.load(text, endian, False, compiled)
                        T = cs.T
                        facts, want = {}, {}
                        o = T(bytes([1]) + (0x1234).to_bytes(2, bo) + bytes([2]))
                        facts["parsed"], want["parsed"] = int(getattr(o, name)), 0x1234
                        facts["class"], want["class"] = (len(T), T.size), (4, 4)
                        c = T(a=7, z=9, **{name: 0xBEEF})
                        facts["constructed"], want["constructed"] = (int(getattr(c, name)), c.dumps().hex()), (0xBEEF, (bytes([7]) + (0xBEEF).to_bytes(2, bo) + bytes([9])).hex())
                        d = T()
                        d.a, d.z = 7, 9
                        setattr(d, name, 0xBEEF)
                        facts["assigned"], want["assigned"] = d.dumps().hex(), want["constructed"][1]
                        facts["equal"], want["equal"] = (c == d, hash(c) == hash(d), c == T(c.dumps()), c != T(a=7, z=9, **{name: 1}), bool(T(**{name: 1})), bool(T())), (True, True, True, True, True, False)
                        setattr(o, name, 0x0102)
                        facts["locality"], want["locality"] = o.dumps().hex(), (bytes([1]) + (0x0102).to_bytes(2, bo) + bytes([2])).hex()
                    except Exception as e:  # noqa: BLE001
                        ctx.violation("names", f"member-named-like-a-class-attribute-raises:{type(e).__name__}", dict(det, error=lib.exc_sig(e)))
                        continue
                    bad = {k: (facts[k], want[k]) for k in want if facts[k] != want[k]}
                    if bad:
                        ctx.violation("names", "member-named-like-a-class-attribute-is-lost-or-replaces-it", dict(det, differing=repr(bad)[:600]))
                    else:
                        ctx.event("class_attribute_names_checked")


def discard_field(ctx):
    """A field named `_` is a field like any other for ==, bool and hash (the name only allows repetition)."""
    for compiled in (True, False):
        text = "struct R { uint8 a; uint8 _; uint16 b; };\nstruct Q { struct { uint8 _; uint8 k; }; uint8 z; };"
        ctx.evaluation(("discard-field", compiled))
        ctx.cell("discard-field")
        try:
            cs = lib.load(text, "<", False, compiled)
            x, y, z = cs.R(b"\x01\xff\x02\x00"), cs.R(b"\x01\x00\x02\x00"), cs.R(b"\x00\x05\x00\x00")
            facts = {"differ-only-in-_:unequal": x != y and not (x == y), "only-_-nonzero:truthy": bool(z),
                     "all-zero:falsy": not bool(cs.R(bytes(4))), "equal-values:equal": x == cs.R(b"\x01\xff\x02\x00"),
                     "equal-values:same-hash": hash(x) == hash(cs.R(b"\x01\xff\x02\x00")),
                     "keyword:_": cs.R(_=0x5A) != cs.R() and cs.R(_=0x5A).dumps() == b"\x00\x5a\x00\x00",
                     "folded-_:unequal": cs.Q(b"\x07\x01\x02") != cs.Q(b"\x08\x01\x02")}
        except Exception as e:  # noqa: BLE001
            ctx.violation("discard-field", f"structure-with-a-field-named-_-raises:{type(e).__name__}",
                          {"text": text, "compiled": compiled, "error": lib.exc_sig(e), "workload": "discard-field"})
            continue
        bad = sorted(k for k, v in facts.items() if not v)
        if bad:
            ctx.violation("discard-field", "field-named-_-ignored-by-eq-bool-or-hash",
                          {"text": text, "compiled": compiled, "failed": bad, "workload": "discard-field"})
        else:
            ctx.event("discard_field_checked")


def special_forms(ctx):
    """Shapes the generator does not produce.
    (a) a structure handed out by a union (through its proxy) against a plain instance of the same type: equality is
        symmetric, also as a field of two containers;
    (b) one positional value plus keywords is a construction, not a parse that drops the keywords;
    (c) a name that is both a field and folded in from an anonymous member (or folded in twice) makes two different
        byte strings compare equal: such a definition must be refused;
    (d) K14: an enum field holding a plain integer."""
    for compiled in (True, False):
        text = ("struct In { uint8 a; uint16 b; };\nunion U { In s; uint32 x; };\nstruct S { In n; uint8 z; };\n"
                "struct A { char tag[3]; uint8 n; uint16 m; };\nenum E : uint8 { P = 0, Q = 1, R = 1 };\n"
                "flag F : uint8 { X = 1, Y = 2 };\nstruct K { E e; F f; uint8 x; };")
        ctx.evaluation(("special-forms", compiled))
        ctx.cell("special-forms")
        det = {"text": text, "compiled": compiled, "workload": "special-forms"}
        try:
            cs = lib.load(text, "<", False, compiled)
            u = cs.U(b"\x01\x02\x03\x04")
            plain, other = cs.In(a=1, b=0x0302), cs.In(a=9, b=0x0302)
            facts = {
                "proxy==plain": u.s == plain, "plain==proxy": plain == u.s, "not(plain!=proxy)": not (plain != u.s),
                "proxy!=other": u.s != other and other != u.s, "other==proxy is False": (other == u.s) is False,
                "container(proxy)==container(plain)": cs.S(n=u.s, z=1) == cs.S(n=plain, z=1),
                "container(plain)==container(proxy)": cs.S(n=plain, z=1) == cs.S(n=u.s, z=1),
                "hash(proxy)==hash(plain)": hash(u.s) == hash(plain),
                "foreign-class-unequal": (plain == cs.S()) is False and (plain != cs.S()) is True and (plain == 3) is False,
                "positional+keyword": cs.A(b"abc", n=9).dumps() == b"abc\x09\x00\x00",
                "positional+keyword=assignment": cs.A(b"xyz", m=0x0102) == cs.A(tag=b"xyz", m=0x0102),
                "positional-only-parses": cs.A(b"abcdef").n == 0x64 and cs.A(b"abcdef").m == 0x6665,
                "two-positionals": cs.A(b"abc", 9).n == 9,
            }
        except Exception as e:  # noqa: BLE001
            ctx.violation("special", f"special-form-raises:{type(e).__name__}", dict(det, error=lib.exc_sig(e)))
            continue
        bad = sorted(k for k, v in facts.items() if not v)
        if bad:
            ctx.violation("special", "structure-equality-or-construction-form-differs", dict(det, failed=bad))
        else:
            ctx.event("special_forms_checked")
        # (d) plain integers in enum / flag fields
        try:
            a, b = cs.K(e=1, f=1, x=5), cs.K(e=cs.E.Q, f=cs.F.X, x=5)
            c = cs.K(a.dumps())
            ctx.cell("enum-field-holding-a-plain-integer")
            if not (a == b and b == a and a == c and a.dumps() == b.dumps()):
                ctx.violation("special", "structure-with-plain-integer-in-enum-field-unequal-to-its-member-twin", det)
            elif not (hash(a) == hash(b) == hash(c)):
                ctx.violation("special", "K14:equal-structures-hash-differently-when-an-enum-field-holds-a-plain-integer",
                              dict(det, hashes=[hash(a), hash(b), hash(c)]))
            else:
                ctx.event("enum_int_twin_hashes_equal")
        except Exception as e:  # noqa: BLE001
            ctx.violation("special", f"special-form-raises:{type(e).__name__}", dict(det, error=lib.exc_sig(e)))
        # (d') two names of one enum value: members with the same value are equal, so structures holding them are equal
        # and hash alike, whichever name each holds (given by name, looked up by value, parsed)
        try:
            ctx.cell("enum-field-holding-alias-members")
            ctx.evaluation(("special-forms-enum-aliases", compiled))
            ks = [cs.K(e=cs.E.Q, f=cs.F.X, x=5), cs.K(e=cs.E.R, f=cs.F.X, x=5), cs.K(e=cs.E(1), f=cs.F(1), x=5), cs.K(b"\x01\x01\x05")]
            eq = all(p == q and q == p and not (p != q) for p in ks for q in ks)
            if not eq or cs.E.Q != cs.E.R:
                ctx.violation("special", "structures-holding-two-names-of-one-enum-value-are-unequal", det)
            elif len({hash(k) for k in ks}) != 1 or hash(cs.E.Q) != hash(cs.E.R):
                ctx.violation("special", "equal-structures-hash-differently-when-enum-fields-hold-two-names-of-one-value",
                              dict(det, hashes=[hash(k) for k in ks]))
            else:
                ctx.event("enum_alias_twin_hashes_equal")
        except Exception as e:  # noqa: BLE001
            ctx.violation("special", f"special-form-raises:{type(e).__name__}", dict(det, error=lib.exc_sig(e)))
        # (d+) the hash follows the fields: hashed, then a field assigned, the instance hashes like an equal one that was
        # never hashed before (and is found in a set of such)
        try:
            ctx.cell("hash-after-assignment")
            ctx.evaluation(("special-forms-hash-after-assignment", compiled))
            x = cs.A(tag=b"abc", n=1, m=2)
            hash(x)
            x.n = 7
            x.tag = b"xyz"
            y = cs.A(tag=b"xyz", n=7, m=2)
            z = cs.A(b"xyz\x07\x02\x00")
            k = cs.K(e=cs.E.P, f=cs.F.X, x=1)
            hash(k)
            k.e = cs.E.Q
            if not (x == y == z and hash(x) == hash(y) == hash(z) and x in {y} and hash(k) == hash(cs.K(e=cs.E.Q, f=cs.F.X, x=1))):
                ctx.violation("special", "hash-does-not-follow-a-field-assignment", dict(det, hashes=[hash(x), hash(y), hash(z)]))
            else:
                ctx.event("hash_after_assignment_checked")
        except Exception as e:  # noqa: BLE001
            ctx.violation("special", f"special-form-raises:{type(e).__name__}", dict(det, error=lib.exc_sig(e)))
        # (d'') the same definition loaded into another cstruct object is another structure type: never equal, in either
        # direction, whatever the fields hold (same values, same bytes)
        try:
            ctx.cell("same-definition-in-another-cstruct-object")
            ctx.evaluation(("special-forms-foreign-twin", compiled))
            for e2, c2 in (("<", compiled), (">", compiled), ("<", not compiled)):
                other_cs = lib.load(text, e2, False, c2)
                for mk in (lambda c: c.In(a=1, b=2), lambda c: c.A(tag=b"abc", n=1, m=2), lambda c: c.K(e=1, f=1, x=5),
                           lambda c: c.S(n=c.In(a=1, b=2), z=3), lambda c: c.In()):
                    p, q = mk(cs), mk(other_cs)
                    if (p == q) is not False or (q == p) is not False or (p != q) is not True or (q != p) is not True:
                        ctx.violation("special", "instances-of-the-same-definition-in-two-cstruct-objects-compare-equal",
                                      dict(det, other_endian=e2, other_compiled=c2, instance=repr(p)))
                        raise StopIteration
            ctx.event("foreign_twins_unequal")
        except StopIteration:
            pass
        except Exception as e:  # noqa: BLE001
            ctx.violation("special", f"special-form-raises:{type(e).__name__}", dict(det, error=lib.exc_sig(e)))
        # (e) values that are falsy without being the type's zero value: -0.0 in every float type (assigned, constructed
        # and parsed) is written as it is; an empty list is not a value of a fixed-size array
        # (f) an element of a default array of structures / of arrays is its own object: writing into one element of a
        # default-constructed instance changes the bytes of that element only
        import struct as _st
        ftext = ("struct P { uint8 x; uint16 y; };\nstruct Fz { uint8 a; float f; double d; float16 h; uint8 z; };\n"
                 "struct Sh { uint8 k; P pts[3]; uint8 g[2][2]; P one; uint8 t; };")
        try:
            cf = lib.load(ftext, "<", False, compiled)
            ctx.cell("falsy-values-and-default-elements")
            zero = cf.Fz().dumps()
            want = bytearray(zero)
            want[4], want[12], want[14] = 0x80, 0x80, 0x80
            o = cf.Fz()
            o.f, o.d, o.h = -0.0, -0.0, -0.0
            sh = cf.Sh()
            sh.pts[1].y = 0xBEEF
            sh.g[0][1] = 9
            sh.one.x = 7
            want_sh = bytearray(len(cf.Sh))
            want_sh[1 + 3 + 1:1 + 3 + 3] = b"\xef\xbe"
            want_sh[10 + 1] = 9
            want_sh[14] = 7
            facts2 = {
                "assigned -0.0": o.dumps() == bytes(want), "constructed -0.0": cf.Fz(f=-0.0, d=-0.0, h=-0.0).dumps() == bytes(want),
                "parsed -0.0": cf.Fz(bytes(want)).dumps() == bytes(want),
                "-0.0 is a value of its own": _st.pack("<d", float(cf.Fz(bytes(want)).d)) == _st.pack("<d", -0.0),
                "default elements are separate objects": sh.dumps() == bytes(want_sh),
                "later default untouched": cf.Sh().dumps() == bytes(len(cf.Sh)),
            }
            try:
                bad_len = cf.Sh()
                bad_len.pts = []
                bad_len.dumps()
                facts2["empty list refused for a fixed array"] = False
            except Exception:  # noqa: BLE001
                facts2["empty list refused for a fixed array"] = True
            bad2 = sorted(k for k, v in facts2.items() if not v)
            if bad2:
                ctx.violation("special", "falsy-value-replaced-by-the-default-or-default-elements-shared",
                              {"text": ftext, "compiled": compiled, "failed": bad2, "workload": "special-forms"})
            else:
                ctx.event("falsy_values_checked")
        except Exception as e:  # noqa: BLE001
            ctx.violation("special", f"special-form-raises:{type(e).__name__}", {"text": ftext, "compiled": compiled,
                                                                                 "error": lib.exc_sig(e), "workload": "special-forms"})
        # (c) duplicates through anonymous members
        for dup in ("struct D { struct { uint8 x; }; struct { uint8 x; }; uint8 z; };",
                    "struct D { uint8 x; struct { uint8 x; uint8 y; }; uint8 z; };",
                    "struct D { struct { uint8 x; uint8 y; }; uint8 x; };",
                    "struct D { union { uint8 x; uint16 w; }; struct { uint8 x; }; };"):
            ctx.evaluation(("duplicate-folded", dup, compiled))
            ctx.cell("duplicate-folded-names")
            try:
                cs2 = lib.load(dup, "<", False, compiled)
            except Exception:  # noqa: BLE001
                ctx.event("duplicate_folded_names_refused")
                continue
            # accepted: then it has to behave -- instances exist and differing bytes are differing values
            try:
                n = len(cs2.D)
                r1, r2 = bytes(range(1, n + 1)), bytes(range(1, n + 1))[::-1]
                v1, v2 = cs2.D(r1), cs2.D(r2)
                cs2.D()
                ok = (v1 == v2) == (v1.dumps() == v2.dumps())
            except Exception as e:  # noqa: BLE001
                ok = False
            if not ok:
                ctx.violation("special", "duplicate-field-name-through-an-anonymous-member-accepted-and-misbehaves",
                              {"text": dup, "compiled": compiled, "workload": "special-forms"})


def f17_witness(ctx):
    """Structures nested in (anonymous) unions take part in ==, hash and bool by value."""
    text = "struct T { union { int48 a; struct { uint8 x; uint8 y; } s; }; uint8 t; };"
    for compiled in (True, False):
        cs = lib.load(text, compiled=compiled)
        for raw in (bytes(7), bytes([1, 2, 3, 4, 5, 6, 7])):
            ctx.evaluation(("f17", compiled, raw))
            ctx.cell("nested-struct-in-union")
            a, b = cs.T(raw), cs.T(raw)
            problems = []
            if not (a == b):
                problems.append("two-parses-unequal")
            try:
                if hash(a) != hash(b):
                    problems.append("hash-differs")
            except TypeError:
                pass
            if bool(a) != any(raw):
                problems.append("bool")
            if bool(a.s) != any(raw[:2]):
                problems.append("nested-bool")
            for p in problems:
                ctx.violation("union-nested", f"structure-nested-in-union:{p}", {"text": text, "data": raw.hex()})


def replay(ctx, detail):
    import random

    if "ast" not in detail:
        print("record:", detail)
        f17_witness(ctx)
        discard_field(ctx)
        special_forms(ctx)
        members_named_like_class_attributes(ctx)
        return
    case = engine.case_from_detail(detail)
    print("definition:\n" + case["text"])
    print({k: v for k, v in detail.items() if k not in ("ast", "text")})
    mon = MethodMonitor(ctx)
    mon.install()
    try:
        for seed in range(12):
            check_case(ctx, case, random.Random(seed))
    finally:
        mon.uninstall()
