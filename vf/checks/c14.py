"""C14  No hidden shared state: instances, defaults and cstruct objects are independent."""
from __future__ import annotations

import copy

from .. import engine, gen, lib, model
from ..engine import case_detail, norm_or_err, outcome

N_HIST = {"quick": 40, "thorough": 800}


def walk_mutables(obj, node, out, path="$"):
    """ids of every mutable object (list, Structure instance) reachable from a structure value; guided by the
    AST, never touching classes, streams or pointers' targets."""
    obj = lib.unwrap(obj)
    k = node["k"]
    if k == "struct":
        if isinstance(obj, lib.Structure):
            out[id(obj)] = path
            for i, (nf, lf) in enumerate(zip(node["fields"], type(obj).__fields__)):
                if nf.get("bits"):
                    continue
                try:
                    val = obj.__dict__.get(lf._name, None) if not isinstance(obj, lib.Union) else getattr(obj, lf._name)
                except Exception:  # noqa: BLE001
                    continue
                walk_mutables(val, nf["t"], out, f"{path}.{nf['name'] or '#%d' % i}")
    elif k == "array" and node["elem"]["k"] not in ("char", "wchar"):
        if isinstance(obj, list):
            out[id(obj)] = path
            for j, e in enumerate(obj):
                walk_mutables(e, node["elem"], out, f"{path}[{j}]")


def const_mutables(T, node, out):
    """mutable objects reachable from the defaults stored in the class's generated __init__"""
    from dissect.cstruct.types.structure import Structure

    consts = T.__init__.__code__.co_consts
    for c in consts:
        if isinstance(c, (list, Structure)):
            stack = [c]
            while stack:
                x = lib.unwrap(stack.pop())
                if isinstance(x, list):
                    out[id(x)] = "co_consts"
                    stack.extend(x)
                elif isinstance(x, Structure):
                    out[id(x)] = "co_consts"
                    stack.extend(v for v in x.__dict__.values() if isinstance(v, (list, Structure)))


def mutate_in_place(obj, node, expect, rng, cfg):
    """Mutate some mutable part of a library value and mirror the change in the expected model value.
    Returns a description or None when nothing mutable was found."""
    obj = lib.unwrap(obj)
    cands = []
    for i, (nf, lf) in enumerate(zip(node["fields"], type(obj).__fields__)):
        if nf.get("bits") or nf["name"] is None:
            continue
        t = nf["t"]
        if t["k"] == "array" and t["elem"]["k"] not in ("char", "wchar", "struct", "array"):
            cands.append(("list", nf, lf))
        elif t["k"] == "struct" and not t["union"]:
            cands.append(("nested", nf, lf))
        elif t["k"] == "array" and t["elem"]["k"] == "struct" and not t["elem"]["union"]:
            cands.append(("elem", nf, lf))
        elif t["k"] in ("int",):
            cands.append(("attr", nf, lf))
    if not cands:
        return None
    kind, nf, lf = rng.choice(cands)
    name = nf["name"]
    if kind == "list":
        lst = getattr(obj, lf._name)
        ev = model.random_value(nf["t"]["elem"], rng, cfg)
        if lst and rng.random() < 0.6:
            j = rng.randrange(len(lst))
            lst[j] = ev if nf["t"]["elem"]["k"] != "enum" else lf.type.type(ev)
            expect[name][j] = ev
            return f"{name}[{j}] = {ev}"
        lst.append(ev if nf["t"]["elem"]["k"] != "enum" else lf.type.type(ev))
        expect[name].append(ev)
        return f"{name}.append({ev})"
    if kind == "attr":
        nv = model.random_value(nf["t"], rng, cfg)
        setattr(obj, lf._name, nv)
        expect[name] = nv
        return f"{name} = {nv}"
    if kind == "nested":
        inner = getattr(obj, lf._name)
        d = mutate_in_place(inner, nf["t"], expect[name], rng, cfg)
        return None if d is None else f"{name}.{d}"
    arr = getattr(obj, lf._name)
    if not arr:
        return None
    j = rng.randrange(len(arr))
    d = mutate_in_place(arr[j], nf["t"]["elem"], expect[name][j], rng, cfg)
    return None if d is None else f"{name}[{j}].{d}"


class World:
    def __init__(self, ctx, rng, idx):
        self.ctx = ctx
        self.rng = rng
        self.case_a = engine.make_case(rng, dyn_unions=False, unions=rng.random() < 0.25, ptrs=False, eof=False,
                                       fixed_only=rng.random() < 0.5)
        self.case_b = engine.make_case(rng, dyn_unions=False, unions=False, ptrs=False, eof=False)
        self.slots = []
        for case, endian in ((self.case_a, "<"), (self.case_b, rng.choice("<>")), (self.case_a, ">")):
            cfgd = {"endian": endian, "align": rng.random() < 0.5, "compiled": rng.random() < 0.5, "ptr": "uint64"}
            cs, err = engine.load_cfg(ctx, case, cfgd)
            if cs is None:
                raise RuntimeError("load")
            self.slots.append({"cs": cs, "case": case, "cfgd": cfgd})
        self.live = []   # {"obj", "slot", "expect"}
        self.history = []

    def cfg(self, slot):
        return engine.mcfg(slot["case"], slot["cfgd"]["endian"], slot["cfgd"]["align"])

    def detail(self, slot, **kw):
        return case_detail(slot["case"], cfg=slot["cfgd"], history=self.history[-25:], **kw)

    def fresh(self, slot):
        cs, err = engine.load_cfg(self.ctx, slot["case"], slot["cfgd"])
        return cs

    def step(self):
        ctx, rng = self.ctx, self.rng
        slot_i = rng.randrange(len(self.slots))
        slot = self.slots[slot_i]
        cs, case = slot["cs"], slot["case"]
        top = case["top"]
        cfg = self.cfg(slot)
        op = rng.choice(["default", "default", "keyword", "mutate", "mutate", "parse", "parse", "dump", "failparse",
                         "endian", "load", "add_type"])
        self.history.append((slot_i, op))
        ctx.cell("op:" + op)
        if op in ("default", "keyword"):
            try:
                if op == "default" or gen.has_union(top):
                    obj = cs.T()
                    expect = model.clean(model.default_value(top, cfg))
                else:
                    v = model.random_value(top, rng, cfg)
                    names = [f["name"] for f in top["fields"] if f["name"] is not None and rng.random() < 0.5]
                    fm = {f["name"]: (i, f) for i, f in enumerate(top["fields"]) if f["name"] is not None}
                    kw = {n: lib.build(cs.T.__fields__[fm[n][0]].type, fm[n][1]["t"], copy.deepcopy(v[n]), fm[n][1])
                          for n in names}
                    obj = cs.T(**kw)
                    expect = model.clean(model.default_value(top, cfg))
                    for n in names:
                        expect[n] = model.clean(v[n])
            except model.ModelUnsupported:
                return
            except Exception as e:  # noqa: BLE001
                ctx.violation("history", f"construction-raises:{type(e).__name__}", self.detail(slot, error=lib.exc_sig(e)))
                return
            got, e = norm_or_err(obj, top) if False else (lib.nan_clean(lib.norm(obj, top, strict=False)), None)
            if got != lib.nan_clean(expect):
                ctx.violation("history", "construction-result-depends-on-history",
                              self.detail(slot, op=op, got=got, want=lib.nan_clean(expect)))
                return
            self.graph_check(obj, slot)
            self.live.append({"obj": obj, "slot": slot, "expect": copy.deepcopy(expect)})
            if len(self.live) > 12:
                self.live.pop(0)
        elif op == "mutate" and self.live:
            ent = rng.choice(self.live)
            if gen.has_union(ent["slot"]["case"]["top"]):
                return
            try:
                d = mutate_in_place(ent["obj"], ent["slot"]["case"]["top"], ent["expect"], rng, self.cfg(ent["slot"]))
            except Exception as e:  # noqa: BLE001
                ctx.event("mutation_not_applicable")
                return
            if d:
                self.history[-1] = (slot_i, "mutate", d)
                ctx.event("mutations")
        elif op == "parse":
            try:
                inp = engine.model_input(case, cfg, rng)[0]
            except model.ModelUnsupported:
                return
            r = outcome(cs.T, inp)
            fr = outcome(self.fresh(slot).T, inp)
            a = (r[0], norm_or_err(r[1], top)[0] if r[0] == "ok" else type(r[1]).__name__, r[2])
            b = (fr[0], norm_or_err(fr[1], top)[0] if fr[0] == "ok" else type(fr[1]).__name__, fr[2])
            ctx.event("parses_replayed_in_isolation")
            if a != b:
                ctx.violation("history", "parse-result-depends-on-history",
                              self.detail(slot, data=inp, got=a, isolated=b))
                return
            if r[0] == "ok":
                self.graph_check(r[1], slot)
                self.live.append({"obj": r[1], "slot": slot, "expect": a[1]})
        elif op == "dump" and self.live:
            ent = rng.choice(self.live)
            etop = ent["slot"]["case"]["top"]
            try:
                d = ent["obj"].dumps()
            except Exception:  # noqa: BLE001
                return
            # what an instance dumps is its value under the *current* configuration of its cstruct object, whatever
            # was dumped before (by this or another instance, under this or another byte order)
            if not gen.has_union(etop) and not model.has_nan(ent["expect"]):
                try:
                    want, mask = model.dump(etop, ent["expect"], self.cfg(ent["slot"]))
                except Exception:  # noqa: BLE001
                    return
                ctx.event("dumps_compared_with_model")
                if len(d) != len(want) or engine.bits_differ(d, want, mask):
                    ctx.violation("history", "dump-depends-on-history",
                                  self.detail(ent["slot"], got=d, want=want, value=ent["expect"]))
        elif op == "failparse":
            try:
                inp = engine.model_input(case, cfg, rng, tail=0)[0]
            except model.ModelUnsupported:
                return
            outcome(cs.T, inp[: max(0, len(inp) // 2)])
        elif op == "endian":
            new = rng.choice("<>")
            cs.endian = new
            slot["cfgd"] = dict(slot["cfgd"], endian=new)
            # instances created earlier from this cstruct keep their values
        elif op == "load":
            n = len(self.history)
            try:
                cs.load(f"struct Extra{n} {{ uint8 a; T t; uint16 b[2]; }};\n#define XC{n} {n}\n",
                        compiled=slot["cfgd"]["compiled"], align=slot["cfgd"]["align"])
            except Exception as e:  # noqa: BLE001
                ctx.event("extra_load_rejected")
        elif op == "add_type":
            try:
                cs.add_type(f"alias{len(self.history)}", cs.T)
            except Exception:  # noqa: BLE001
                pass
        self.verify_live()

    def graph_check(self, obj, slot):
        top = slot["case"]["top"]
        mine = {}
        walk_mutables(obj, top, mine)
        self.ctx.event("objects_walked", len(mine))
        consts = {}
        const_mutables(type(lib.unwrap(obj)), top, consts)
        shared = set(mine) & set(consts)
        if shared:
            self.ctx.violation("aliasing", "instance-shares-a-mutable-object-with-the-class-defaults",
                               self.detail(slot, where=[mine[i] for i in shared][:5]))
            return
        for ent in self.live:
            other = {}
            walk_mutables(ent["obj"], ent["slot"]["case"]["top"], other)
            shared = set(mine) & set(other)
            if shared:
                self.ctx.violation("aliasing", "two-instances-share-a-mutable-object",
                                   self.detail(slot, where=[(mine[i], other[i]) for i in shared][:5]))
                return
        self.ctx.event("instance_pairs_compared", len(self.live))

    def verify_live(self):
        for ent in self.live:
            top = ent["slot"]["case"]["top"]
            try:
                got = lib.nan_clean(lib.norm(ent["obj"], top, strict=False))
            except lib.NormError as e:
                self.ctx.violation("history", "instance-changed-kind", self.detail(ent["slot"], error=str(e)))
                continue
            if got != lib.nan_clean(ent["expect"]):
                self.ctx.violation("history", "instance-changed-by-an-operation-on-something-else",
                                   self.detail(ent["slot"], got=got, want=lib.nan_clean(ent["expect"])))
                ent["expect"] = got
        self.ctx.event("live_instances_verified", len(self.live))


def struct_cache(ctx):
    """The global struct-format cache is keyed by value only: two cstruct objects with different byte order must not
    see each other's formats."""
    a = lib.load("struct T { uint16 x; uint32 y[2]; };", "<")
    b = lib.load("struct T { uint16 x; uint32 y[2]; };", ">")
    raw = bytes(range(1, 11))
    for _ in range(3):
        ra, rb = a.T(raw), b.T(raw)
        ctx.evaluation(("struct-cache",))
        if int(ra.x) != 0x0201 or int(rb.x) != 0x0102 or list(ra.y) == list(rb.y):
            ctx.violation("history", "byte-order-leaks-between-cstruct-objects", {"a": repr(ra), "b": repr(rb)})
        if ra.dumps() != raw or rb.dumps() != raw:
            ctx.violation("history", "dump-byte-order-leaks-between-cstruct-objects", {})
    ctx.cell("two-cstructs-same-names")


def same_text_other_constants(ctx):
    """Several cstruct objects load the very same structure text after different constants and types of the same names:
    every object binds the names it knows (array counts folded at load time, counts evaluated while reading, sizeof)."""
    body = ("struct T { uint8 head; char name[NAME_LEN]; uint8 count; uint16 samples[count * CHANNELS]; "
            "uint8 rest[sizeof(header) - 2]; uint8 tail; };")
    worlds = [("#define NAME_LEN 3\n#define CHANNELS 2\nstruct header { uint32 a; };", 3, 2, 4),
              ("#define NAME_LEN 5\n#define CHANNELS 1\nstruct header { uint8 a; uint16 b; };", 5, 1, 3),
              ("#define NAME_LEN 1\n#define CHANNELS 3\nstruct header { uint64 a; uint8 b; };", 1, 3, 9)]
    for compiled in (True, False):
        for order in ([0, 1, 2], [2, 0, 1], [1, 2, 0]):
            objs = []
            for w in order:
                pre, name_len, channels, hsize = worlds[w]
                cs = lib.cstruct()
                cs.load(pre, compiled=compiled)
                cs.load(body, compiled=compiled)
                objs.append((cs, name_len, channels, hsize))
            for cs, name_len, channels, hsize in objs:
                ctx.evaluation(("same-text", compiled, tuple(order), name_len))
                ctx.cell("same-text-other-constants")
                count = 2
                data = bytes([7]) + bytes(range(0x41, 0x41 + name_len)) + bytes([count]) + bytes(range(1, 1 + 2 * count * channels)) + \
                    bytes(range(0x80, 0x80 + hsize - 2)) + bytes([0xEE]) + b"junk"
                want = (name_len, hsize - 2, bytes(range(0x41, 0x41 + name_len)), count * channels, 0xEE,
                        1 + name_len + 1 + 2 * count * channels + hsize - 2 + 1)
                try:
                    T = cs.T
                    import io

                    st = io.BytesIO(data)
                    o = T(st)
                    got = (T.fields["name"].type.num_entries, T.fields["rest"].type.num_entries, bytes(o.name), len(o.samples),
                           int(o.tail), st.tell())
                except Exception as e:  # noqa: BLE001
                    got = lib.exc_sig(e)
                if got != want:
                    ctx.violation("history", "constants-or-types-of-another-cstruct-object-used",
                                  {"workload": "same-text", "order": order, "compiled": compiled, "got": repr(got), "want": repr(want)})
                else:
                    ctx.event("same_text_objects_checked")


def custom_types(ctx):
    """One user-defined type class registered on several cstruct objects (different byte order and size): every
    object keeps its own binding, whatever is registered elsewhere afterwards."""
    from dissect.cstruct.types import BaseType

    class Fixed(BaseType):
        """size-byte unsigned integer in the byte order of the owning cstruct object, as a plain int"""

        @classmethod
        def __default__(cls):
            return 0

        @classmethod
        def _read(cls, stream, context=None):
            data = stream.read(cls.size)
            if len(data) != cls.size:
                raise EOFError
            return int.from_bytes(data, "little" if cls.cs.endian == "<" else "big")

        @classmethod
        def _write(cls, stream, data):
            return stream.write(int(data).to_bytes(cls.size, "little" if cls.cs.endian == "<" else "big"))

    raw = bytes(range(1, 33))
    objs = []
    for order in ([("<", 3), (">", 5), ("<", 2)], [(">", 4), ("<", 4), (">", 1)]):
        objs.clear()
        for endian, size in order:
            cs = lib.cstruct(endian=endian)
            cs.add_custom_type("fixed", Fixed, size)
            cs.load("struct rec { uint8 tag; fixed v; fixed w[2]; uint8 end; };")
            objs.append((cs, endian, size))
            # after every registration every object registered so far is looked at again
            for cs_i, e_i, n_i in objs:
                ctx.evaluation(("custom-types", tuple(order), len(objs), e_i, n_i))
                ctx.cell("custom-type-on-several-cstructs")
                bo = "little" if e_i == "<" else "big"
                want = (n_i, [int.from_bytes(raw[1 + k * n_i:1 + (k + 1) * n_i], bo) for k in range(3)], raw[1 + 3 * n_i],
                        2 + 3 * n_i)
                try:
                    o = cs_i.rec(raw)
                    got = (len(cs_i.fixed), [int(o.v), int(o.w[0]), int(o.w[1])], int(o.end), len(o.dumps()))
                    if o.dumps() != raw[:2 + 3 * n_i] or cs_i.fixed.cs is not cs_i or cs_i.fixed is Fixed:
                        got = ("binding", cs_i.fixed.cs is cs_i, cs_i.fixed is Fixed, o.dumps().hex())
                except Exception as e:  # noqa: BLE001
                    got = lib.exc_sig(e)
                if got != want:
                    ctx.violation("history", "custom-type-binding-leaks-between-cstruct-objects",
                                  {"workload": "custom-types", "order": order, "registered": len(objs), "object": [e_i, n_i],
                                   "got": repr(got), "want": repr(want)})
                else:
                    ctx.event("custom_type_bindings_checked")


def copies(ctx, n):
    """copy.deepcopy of an instance is an equal, independent instance: mutating either leaves the other alone (also
    for unions, whose nested structures write back into the union they belong to)."""
    for i in range(n):
        rng = ctx.rng("copies", i)
        case = engine.make_case(rng, dyn_unions=False, unions=i % 2 == 0, ptrs=False, eof=False, fixed_only=True,
                                bias="unions" if i % 2 == 0 else None)
        top = case["top"]
        cfgd = {"endian": rng.choice("<>"), "align": rng.random() < 0.5, "compiled": rng.random() < 0.5, "ptr": "uint64"}
        cfg = engine.mcfg(case, cfgd["endian"], cfgd["align"])
        cs, err = engine.load_cfg(ctx, case, cfgd)
        if cs is None:
            continue
        try:
            inp = engine.model_input(case, cfg, rng)[0]
        except model.ModelUnsupported:
            continue
        r = outcome(cs.T, inp)
        if r[0] != "ok":
            continue
        obj = r[1]
        ctx.evaluation(("copies", case["text"], tuple(sorted(cfgd.items())), inp.hex()))
        ctx.cell("deepcopy", "deepcopy:union" if gen.has_union(top) else "deepcopy:plain")
        det = case_detail(case, cfg=cfgd, data=inp, workload="copies")
        try:
            dup = copy.deepcopy(obj)
            before = lib.nan_clean(lib.norm(obj, top, strict=False))
            if lib.nan_clean(lib.norm(dup, top, strict=False)) != before or dup.dumps() != obj.dumps():
                ctx.violation("history", "deep-copy-differs-from-the-original", det)
                continue
            shared = set()
            a, b = {}, {}
            walk_mutables(obj, top, a)
            walk_mutables(dup, top, b)
            shared = set(a) & set(b)
            if shared:
                ctx.violation("aliasing", "deep-copy-shares-a-mutable-object-with-the-original",
                              dict(det, where=[a[k] for k in shared][:5]))
                continue
            # overwrite the copy with another value, field by field; the original must not notice
            other = outcome(cs.T, engine.model_input(case, cfg, rng)[0])
            if other[0] == "ok":
                for f in type(lib.unwrap(dup)).__fields__:
                    try:
                        setattr(dup, f._name, getattr(other[1], f._name))
                    except Exception:  # noqa: BLE001
                        pass
                walk_and_poke(dup, rng)
            if lib.nan_clean(lib.norm(obj, top, strict=False)) != before:
                ctx.violation("history", "original-changed-through-its-deep-copy", det)
                continue
            ctx.event("deep_copies_checked")
        except Exception as e:  # noqa: BLE001
            ctx.violation("history", f"deep-copy-raises:{type(e).__name__}", dict(det, error=lib.exc_sig(e)))


def walk_and_poke(obj, rng, depth=0):
    """Write through every nested structure reachable from obj (first integer field found gets its own value back
    xor 1): in a union this goes through the proxies, which rebuild the union they belong to."""
    from dissect.cstruct import Pointer, Structure

    o = lib.unwrap(obj)
    if not isinstance(o, Structure) or depth > 4:
        return
    for f in type(o).__fields__:
        try:
            v = getattr(obj, f._name)
        except Exception:  # noqa: BLE001
            continue
        if isinstance(v, Pointer):
            continue
        if isinstance(lib.unwrap(v), Structure):
            walk_and_poke(v, rng, depth + 1)
        elif type(v) is int or (isinstance(v, int) and not isinstance(v, bool) and f.bits is None and not hasattr(v, "name")):
            try:
                setattr(obj, f._name, int(v) ^ 1)
            except Exception:  # noqa: BLE001
                pass
        elif isinstance(v, list) and v and isinstance(lib.unwrap(v[0]), Structure):
            walk_and_poke(v[0], rng, depth + 1)


def failed_loads(ctx, n):
    """A load() that fails (a member of an unknown type in one of its structures) leaves nothing half-defined behind:
    the corrected text loads afterwards and defines what it defines on a fresh object; what the failed text defined
    before the failure point stays usable."""
    from ..engine import type_sig

    for i in range(n):
        rng = ctx.rng("failed-loads", i)
        case = engine.make_case(rng, dyn_unions=False)
        top = case["top"]
        text = case["text"]
        # break the top-level structure (the last declaration) by a member of an unknown type, at a random position
        lines = text.rstrip("\n").split("\n")
        last = lines[-1]
        if "{" not in last or not last.startswith(("struct T", "typedef struct")):
            continue
        k = last.index("{") + 1
        semis = [m for m in range(k, len(last)) if last[m] == ";" and last[:m].count("{") - last[:m].count("}") == 1]
        cut = rng.choice([k] + [m + 1 for m in semis[:-1]]) if semis else k
        broken = "\n".join(lines[:-1] + [last[:cut] + " vf_no_such_type_t vf_bad; " + last[cut:]]) + "\n"
        cfgd = {"endian": rng.choice("<>"), "align": rng.random() < 0.5, "compiled": rng.random() < 0.5, "ptr": "uint64"}
        det = {"broken": broken, "text": text, "cfg": cfgd, "workload": "failed-loads"}
        ctx.evaluation(("failed-load", broken, tuple(sorted(cfgd.items()))))
        ctx.cell("failed-load-then-corrected-load")
        try:
            ref = lib.load(text, cfgd["endian"], cfgd["align"], cfgd["compiled"])
        except Exception:  # noqa: BLE001
            continue
        cs = lib.cstruct(endian=cfgd["endian"])
        try:
            cs.load(broken, compiled=cfgd["compiled"], align=cfgd["align"])
            ctx.event("broken_text_accepted")       # (the unknown type was inside something optional)
            continue
        except Exception:  # noqa: BLE001
            pass
        try:
            # only what the failed load did not get to is loaded again (earlier declarations are defined already)
            cs.load(lines[-1] + "\n", compiled=cfgd["compiled"], align=cfgd["align"])
        except Exception as e:  # noqa: BLE001
            ctx.violation("history", f"corrected-definition-refused-after-a-failed-load:{type(e).__name__}",
                          dict(det, error=lib.exc_sig(e)))
            continue
        data = gen.arbitrary_bytes(rng, 128, 2)
        a, b = engine.outcome(cs.T, data), engine.outcome(ref.T, data)
        va = (a[0], norm_or_err(a[1], top)[0] if a[0] == "ok" else type(a[1]).__name__, a[2])
        vb = (b[0], norm_or_err(b[1], top)[0] if b[0] == "ok" else type(b[1]).__name__, b[2])
        if type_sig(cs.T) != type_sig(ref.T) or va != vb:
            ctx.violation("history", "definitions-after-a-failed-load-differ-from-a-fresh-object", dict(det, got=repr(va)[:300],
                                                                                                      want=repr(vb)[:300]))
        else:
            ctx.event("failed_loads_checked")


def load_histories(ctx, n):
    """Several load() calls on one cstruct object: what a load defines depends on its own text and options only, not
    on the options of an earlier load (align / compiled given there and omitted here) nor on equally named inline
    types an earlier load defined."""
    from ..engine import type_sig

    for i in range(n):
        rng = ctx.rng("loads", i)
        a = engine.make_case(rng, name_prefix="A_", dyn_unions=False)
        b = engine.make_case(rng, name_prefix="B_", dyn_unions=False)
        for case, nm in ((a, "TA"), (b, "TB")):
            case["top"]["name"] = nm
            case["text"] = gen.render_case(case)
        k = rng.randint(1, 3)
        text_a = a["text"] + f"struct XA {{ struct item {{ uint8 a; }} v[{k}]; uint8 t; }};\n"
        text_b = b["text"] + f"struct XB {{ struct item {{ uint16 a; uint16 b; }} v[{k}]; uint8 t; }};\n"
        opts_a = rng.choice([{}, {"align": True}, {"compiled": False}, {"align": True, "compiled": False}])
        endian = rng.choice("<>")
        det = {"first_load": text_a, "first_options": opts_a, "second_load": text_b, "endian": endian,
               "workload": "load-histories"}
        ctx.evaluation(("loads", text_a, text_b, repr(opts_a), endian))
        ctx.cell("load-histories", "load-histories:" + ("+".join(sorted(opts_a)) or "plain"))
        try:
            ref = lib.cstruct(endian=endian)
            ref.load(text_b)
        except Exception:  # noqa: BLE001
            ctx.event("load_rejected")
            continue
        try:
            cs = lib.cstruct(endian=endian)
            cs.load(text_a, **opts_a)
            cs.load(text_b)          # no options: the defaults, not what the first load was given
        except Exception as e:  # noqa: BLE001
            ctx.violation("history", f"second-load-fails-after-first:{type(e).__name__}", dict(det, error=lib.exc_sig(e)))
            continue
        data = gen.arbitrary_bytes(rng, 160, 2)
        for name in ("TB", "XB"):
            Tc, Tr = getattr(cs, name), getattr(ref, name)
            if type_sig(Tc) != type_sig(Tr) or bool(Tc.__compiled__) != bool(Tr.__compiled__):
                ctx.violation("history", "type-depends-on-an-earlier-load", dict(det, type=name,
                              got=repr(type_sig(Tc))[:300], want=repr(type_sig(Tr))[:300],
                              compiled=[bool(Tc.__compiled__), bool(Tr.__compiled__)]))
                break
            ra, rb = engine.outcome(Tc, data), engine.outcome(Tr, data)

            def val(r):
                # (the names of anonymous types carry a per-object counter: compare values, not reprs)
                if r[0] != "ok":
                    return r[0]
                if name == "TB":
                    return (norm_or_err(r[1], b["top"]), r[2])
                return ([(int(x.a), int(x.b)) for x in r[1].v], int(r[1].t), r[2])

            if val(ra) != val(rb):
                ctx.violation("history", "parse-depends-on-an-earlier-load", dict(det, type=name, got=repr(val(ra))[:300],
                                                                                  want=repr(val(rb))[:300]))
                break
        else:
            ctx.event("load_histories_checked")


def failed_evaluations(ctx):
    """A parse that fails *inside* the evaluation of a length (a division by zero, a negative shift, a name that is not
    bound yet) after operands were already taken leaves nothing behind: the same bytes parse afterwards as they did
    before and as on a fresh cstruct object; a length over a constant defined later in the text works like the other order."""
    texts = [
        ("struct s { uint8 base; uint8 div; uint8 data[base + 8 / div]; uint8 t; };", [bytes([1, 4, 9, 8, 7, 6]), bytes([1, 0, 9, 8, 7]), bytes([2, 8, 5, 5, 5, 6])]),
        ("struct s { uint8 n; int8 sh; uint8 data[2 + (n << sh) - n]; uint8 t; };", [bytes([1, 1, 9, 8, 7, 6]), bytes([1, 0xFF, 9, 8, 7]), bytes([1, 0, 5, 5, 6])]),
        ("struct s { uint8 a; uint8 b; uint16 data[1 + a % b][1 + a / b]; uint8 t; };", [bytes([4, 2]) + bytes(range(1, 20)), bytes([4, 0]) + bytes(20), bytes([5, 3]) + bytes(range(30, 60))]),
    ]
    for text, inputs in texts:
        for compiled in (True, False):
            ctx.evaluation(("failed-evaluations", text, compiled))
            ctx.cell("failed-length-evaluations")
            det = {"text": text, "compiled": compiled, "workload": "failed-evaluations"}

            def facts(cs, data):
                try:
                    o = cs.s(data)
                    return ("ok", lib.stable_repr(o), o.dumps())
                except Exception as e:  # noqa: BLE001
                    return ("err", type(e).__name__)
            try:
                fresh = [facts(lib.load(text, "<", False, compiled), d) for d in inputs]
                cs = lib.load(text, "<", False, compiled)
                hist = []
                for rnd in range(3):
                    for k in (0, 1, 2, 1, 0):
                        r = facts(cs, inputs[k])
                        hist.append((k, r[0]))
                        if r != fresh[k]:
                            ctx.violation("history", "parse-result-depends-on-history",
                                          dict(det, history=hist, got=repr(r)[:300], want=repr(fresh[k])[:300]))
                            raise StopIteration
                if fresh[0][0] != "ok" or fresh[1][0] != "err":
                    ctx.violation("history", "failed-evaluation-workload-does-not-fail-where-it-should", dict(det, fresh=repr(fresh)[:300]))
                else:
                    ctx.event("failed_evaluation_histories")
            except StopIteration:
                pass
    # a constant that is defined after the structure whose length names it (next to an operand that is taken first)
    for compiled in (True, False):
        early = "#define COUNT 2\nstruct s { uint8 h; uint8 data[1 + COUNT]; uint8 t; };"
        late = "struct s { uint8 h; uint8 data[1 + COUNT]; uint8 t; };\n#define COUNT 2\n"
        ctx.evaluation(("late-constant", compiled))
        data = bytes([7, 1, 2, 3, 9, 9])
        try:
            a, b = lib.load(early, "<", False, compiled), lib.load(late, "<", False, compiled)
            ra = [(lib.stable_repr(a.s(data)), a.s(data).dumps()) for _ in range(2)]
            rb = [(lib.stable_repr(b.s(data)), b.s(data).dumps()) for _ in range(2)]
            if ra != rb:
                ctx.violation("history", "parse-result-depends-on-history",
                              {"text": late, "compiled": compiled, "workload": "failed-evaluations", "got": repr(rb)[:300], "want": repr(ra)[:300]})
            else:
                ctx.event("late_constant_checked")
        except Exception as e:  # noqa: BLE001
            ctx.violation("history", f"late-constant-raises:{type(e).__name__}", {"text": late, "compiled": compiled,
                                                                                 "workload": "failed-evaluations", "error": lib.exc_sig(e)})


def alias_used_before_rebinding(ctx):
    """Resolving a name through an alias leaves nothing behind: when the target of the alias is re-bound afterwards
    (add_type(..., replace=True)), a cstruct object that had used the alias before and one that had not give the same
    types, sizes and values."""
    for compiled in (True, False):
        for used_by in ("definition", "attribute", "sizeof", "read", "nothing"):
            ctx.evaluation(("alias-used-before-rebinding", compiled, used_by))
            ctx.cell("alias-used-before-its-target-is-re-bound")
            det = {"compiled": compiled, "used_by": used_by, "workload": "alias-used-before-rebinding"}
            try:
                def prepare(use):
                    cs = lib.cstruct()
                    cs.add_type("len_t", "uint8")
                    cs.add_type("len2_t", "len_t")
                    if use == "definition":
                        cs.load("struct earlier { DWORD x; len2_t y; };", compiled=compiled)
                        cs.earlier(bytes(8))
                    elif use == "attribute":
                        _ = (cs.DWORD, cs.len2_t, cs.resolve("DWORD"))
                    elif use == "sizeof":
                        from dissect.cstruct.expression import Expression as _E

                        _E(cs, "sizeof(DWORD) + sizeof(len2_t)").evaluate()
                    elif use == "read":
                        cs.read("DWORD", bytes(8))
                        cs.read("len2_t", bytes(8))
                    cs.add_type("uint32", cs.uint64, replace=True)
                    cs.add_type("len_t", cs.uint16, replace=True)
                    cs.load("struct rec { DWORD value; uint8 tail[sizeof(DWORD)]; len2_t n; };", compiled=compiled)
                    o = cs.rec(bytes(range(1, 40)))
                    return (len(cs.rec), lib.stable_repr(o), o.dumps(), int(cs.read("len2_t", b"\x07\x05")), len(cs.resolve("DWORD")),
                            cs.resolve("DWORD") is cs.uint64, cs.resolve("len2_t") is cs.uint16)
                got, want = prepare(used_by), prepare("nothing")
            except Exception as e:  # noqa: BLE001
                ctx.violation("history", f"alias-rebinding-raises:{type(e).__name__}", dict(det, error=lib.exc_sig(e)))
                continue
            if got != want or want[0] != 18 or not want[5] or not want[6]:
                ctx.violation("history", "types-depend-on-whether-an-alias-was-used-before-its-target-was-re-bound",
                              dict(det, got=repr(got)[:400], want=repr(want)[:400]))
            else:
                ctx.event("alias_rebinding_checked")


def failed_dumps(ctx, n):
    """A dump that *fails* (an entry that cannot be encoded, in arrays of every length form and element kind and below
    nested structures) changes nothing: the instance holds afterwards what it held before the attempt (no terminator
    left behind, no entry lost), once the entry is put right it dumps what it dumped before, and a fresh parse and
    another live instance are not affected."""
    text = ("struct E { uint8 a; uint16 b; };\n"
            "struct s { uint8 n; uint16 nt16[]; uint24 nt24[]; uleb128 ntleb[]; ileb128 ntsleb[]; E nts[]; uint32 fx[3]; uint8 cnt[n];\n"
            "  int8 sg[2]; uint64 *ptrs[]; E one; E arr[2]; double fl[]; };")
    BIG = 1 << 70
    bad_for = {"nt16": BIG, "nt24": BIG, "ntleb": -5, "ntsleb": "x", "fx": -1, "cnt": 256, "sg": 128, "ptrs": -1, "fl": "x"}
    for it in range(n):
        rng = ctx.rng("failed-dumps", it)
        endian, compiled = rng.choice("<>"), rng.random() < 0.5
        det = {"text": text, "endian": endian, "compiled": compiled, "workload": "failed-dumps"}
        ctx.cell("failed-dumps")
        try:
            cs = lib.load(text, endian, False, compiled)
            E = cs.E

            def ints(lo, hi, k):
                return [rng.randrange(lo, hi) for _ in range(k)]

            kw = dict(n=2, nt16=ints(1, 1 << 16, rng.randint(1, 4)), nt24=ints(1, 1 << 24, rng.randint(1, 3)),
                      ntleb=ints(1, 1 << 40, rng.randint(1, 3)), ntsleb=[x or 1 for x in ints(-(1 << 20), 1 << 20, rng.randint(1, 3))],
                      nts=[E(a=rng.randrange(1, 256), b=rng.randrange(1 << 16)) for _ in range(rng.randint(1, 3))],
                      fx=ints(0, 1 << 32, 3), cnt=ints(0, 256, 2), sg=ints(-128, 128, 2), ptrs=ints(1, 1 << 64, rng.randint(1, 2)),
                      one=E(a=1, b=2), arr=[E(a=3, b=4), E(a=5, b=6)], fl=[1.5, -2.25])
            first = cs.s(**kw)
            good = first.dumps()
            other = cs.s(good)
            for origin, o in (("constructed", first), ("parsed", cs.s(good))):
                for step in range(6):
                    m = rng.choice(list(bad_for) + ["nts.b", "one.b", "arr.a"])
                    ctx.evaluation(("failed-dump", it, origin, step, m))
                    if "." in m:
                        name, fld = m.split(".")
                        tgt = getattr(o, name)
                        tgt = tgt[rng.randrange(len(tgt))] if isinstance(tgt, list) else tgt
                        old = getattr(tgt, fld)
                        setattr(tgt, fld, BIG)
                        undo = lambda tgt=tgt, fld=fld, old=old: setattr(tgt, fld, old)  # noqa: E731
                    else:
                        lst = getattr(o, m)
                        i = rng.randrange(len(lst))
                        old = lst[i]
                        lst[i] = bad_for[m]
                        undo = lambda lst=lst, i=i, old=old: lst.__setitem__(i, old)  # noqa: E731
                    before = lib.stable_repr(o)
                    try:
                        o.dumps()
                        ctx.event("bad_entry_was_dumped")     # not this property's matter (C01 judges refusals)
                        undo()
                        continue
                    except Exception:  # noqa: BLE001
                        pass
                    after = lib.stable_repr(o)
                    undo()
                    if after != before:
                        ctx.violation("history", "failed-dump-changes-the-instance", dict(det, origin=origin, member=m, before=before[:400], after=after[:400]))
                        raise StopIteration
                    again = o.dumps()
                    if again != good or other.dumps() != good or cs.s(good).dumps() != good or lib.stable_repr(cs.s(good)) != lib.stable_repr(other):
                        ctx.violation("history", "dump-depends-on-a-failed-dump-before", dict(det, origin=origin, member=m, got=again.hex(), want=good.hex()))
                        raise StopIteration
                    ctx.event("failed_dumps_checked")
        except StopIteration:
            pass
        except Exception as e:  # noqa: BLE001
            ctx.violation("history", f"failed-dumps-workload-raises:{type(e).__name__}", dict(det, error=lib.exc_sig(e)))


def union_bits_across_objects_and_extended_elements(ctx):
    """(a) Unions with bit-field members on cstruct objects of different byte orders, created in either order: each
    slices and writes by its own byte order, and switching one object's order changes nothing on the other.
    (b) A type used as the element of a null-terminated array, parsed, then extended through the API, then parsed again:
    the result is the one of a fresh object on which the type was extended before anything was parsed."""
    text = "union flags { uint8 hi : 4; int8 top : 2; uint8 raw; };\nunion wide { uint16 a : 4; uint16 raw; };"

    def facts(cs):
        f, w = cs.flags(b"\xa5"), cs.wide(b"\x12\x34")
        return (int(f.hi), int(f.top), int(f.raw), int(w.a), int(w.raw), cs.flags(hi=3).dumps().hex(), cs.wide(a=5).dumps().hex())

    want = {"<": (5, 1, 0xA5, 2, 0x3412, "03", "0500"), ">": (10, 2, 0xA5, 1, 0x1234, "30", "5000")}
    for compiled in (True, False):
        for first, second in (("<", ">"), (">", "<")):
            ctx.evaluation(("union-bits-across-objects", compiled, first))
            ctx.cell("union-bit-fields-on-objects-of-different-byte-orders")
            det = {"text": text, "compiled": compiled, "first": first, "workload": "union-bits-across-objects"}
            try:
                a = lib.load(text, first, False, compiled)
                b = lib.load(text, second, False, compiled)
                got = [facts(a), facts(b)]
                a.endian = second
                got.append(facts(b))
                got.append(facts(a))
                a.endian = first
                got.append(facts(b))
                exp = [want[first], want[second], want[second], want[second], want[second]]
            except Exception as e:  # noqa: BLE001
                ctx.violation("isolation", f"union-bits-across-objects-raise:{type(e).__name__}", dict(det, error=lib.exc_sig(e)))
                continue
            if got != exp:
                ctx.violation("isolation", "union-bit-field-follows-the-byte-order-of-another-cstruct-object", dict(det, got=repr(got), want=repr(exp)))
            else:
                ctx.event("union_bits_across_objects_checked")
    for compiled in (True, False):
        for kind in ("struct", "union"):
            ctx.evaluation(("extended-element", compiled, kind))
            ctx.cell("element-type-extended-after-a-null-terminated-parse")
            base = f"{kind} E {{ uint8 a; }};\nstruct L {{ E items[]; uint8 t; }};"
            det = {"text": base, "compiled": compiled, "workload": "extended-element"}
            data1 = bytes([3, 4, 0, 9])
            data2 = bytes([3, 1, 0, 7, 0, 0, 9, 9]) if kind == "struct" else bytes([3, 3, 7, 7, 0, 0, 9, 9])
            try:
                outs = []
                for parse_first in (True, False):
                    cs = lib.load(base, "<", False, compiled)
                    if parse_first:
                        lib.stable_repr(cs.L(data1)), lib.stable_repr(cs.E[None](data1))
                    cs.E.add_field("b", cs.uint8)
                    arr = cs.E[None](data2)
                    outs.append((lib.stable_repr(arr), len(arr), lib.stable_repr(cs.E(data2))))
            except Exception as e:  # noqa: BLE001
                ctx.violation("history", f"extended-element-raises:{type(e).__name__}", dict(det, error=lib.exc_sig(e)))
                continue
            if outs[0] != outs[1]:
                ctx.violation("history", "parse-result-depends-on-history", dict(det, got=repr(outs[0])[:300], want=repr(outs[1])[:300]))
            else:
                ctx.event("extended_elements_checked")


def run(ctx):
    if ctx.shard == 2:
        union_bits_across_objects_and_extended_elements(ctx)
    if ctx.shard == 1:
        failed_evaluations(ctx)
        alias_used_before_rebinding(ctx)
    if ctx.shard == 0:
        struct_cache(ctx)
        custom_types(ctx)
        same_text_other_constants(ctx)
    load_histories(ctx, 6 if not ctx.thorough else 120)
    copies(ctx, 10 if not ctx.thorough else 250)
    failed_loads(ctx, 8 if not ctx.thorough else 150)
    failed_dumps(ctx, 3 if not ctx.thorough else 40)
    for i in range(N_HIST[ctx.tier]):
        if ctx.out_of_time():
            break
        rng = ctx.rng("world", i)
        try:
            w = World(ctx, rng, i)
        except (RuntimeError, model.ModelReject):
            continue
        n = rng.randint(10, 24)
        for _ in range(n):
            w.step()
        ctx.evaluation(("history", i, repr(w.history)))
        ctx.event("history_steps", n)
        if i < 2:
            ctx.sample({"definitions": [w.case_a["text"], w.case_b["text"]], "history": w.history[:12]})


def replay(ctx, detail):
    print("definition:\n" + detail.get("text", ""))
    print({k: v for k, v in detail.items() if k not in ("ast", "text")})
    struct_cache(ctx)
    if detail.get("workload") == "same-text":
        same_text_other_constants(ctx)
        return
    if detail.get("workload") == "custom-types":
        custom_types(ctx)
        return
    if detail.get("workload") == "failed-loads":
        failed_loads(ctx, 150)
        return
    if detail.get("workload") == "failed-evaluations":
        failed_evaluations(ctx)
        return
    if detail.get("workload") in ("union-bits-across-objects", "extended-element"):
        union_bits_across_objects_and_extended_elements(ctx)
        return
    if detail.get("workload") == "failed-dumps":
        failed_dumps(ctx, 40)
        return
    if detail.get("workload") == "alias-used-before-rebinding":
        alias_used_before_rebinding(ctx)
        return
    if detail.get("workload") == "copies":
        copies(ctx, 250)
        return
    if detail.get("workload") == "load-histories":
        load_histories(ctx, 120)
        return
    # histories are regenerated from the seed: rerun the whole shard-0 workload
    for i in range(N_HIST["quick"]):
        rng = ctx.rng("world", i)
        try:
            w = World(ctx, rng, i)
        except (RuntimeError, model.ModelReject):
            continue
        for _ in range(rng.randint(10, 24)):
            w.step()
