"""C10  Expressions evaluate with C precedence and associativity, repeatably."""
from __future__ import annotations

import itertools

from .. import engine, lib, monitors, refexpr

OPERANDS = ["1", "2", "7", "0x1F", "010", "0b101", "3u", "4UL", "a", "b", "u", "K", "sizeof(uint32)",
            "sizeof(unsigned short)"]
BINOPS = ["*", "/", "%", "+", "-", "<<", ">>", "&", "^", "|"]
UNOPS = ["-", "~"]
BINDINGS = [
    ({"a": 3, "b": 1, "u": 4}, {"K": 6}),
    ({"a": 0, "b": 2, "u": 9}, {"K": 5}),
    ({"a": 5, "b": 1, "u": 2, "K": 1}, {"K": 6}),   # the context shadows the constant
    ({"a": 2, "b": 0, "u": 1, "K": 0}, {"K": 6, "b": 7, "a": 9}),   # ... also with the value 0
]
SIZEOF = {"unsigned short": 2, "unsigned int": 4, "unsigned long long": 8, "signed char": 1, "long long": 8, "uint32": 4, "uint8": 1, "uint16": 2, "uint64": 8, "int24": 3, "char": 1, "wchar": 2, "int128": 16}


def sizeof(name):
    if name in SIZEOF:
        return SIZEOF[name]
    raise refexpr.RefNameError(name)


def enumerate_exprs(maxtok):
    """All well-formed token sequences of the grammar with at most maxtok tokens (tuples of token strings)."""
    by_n = {1: {(o,) for o in OPERANDS}}
    for n in range(2, maxtok + 1):
        cur = set()
        for u in UNOPS:
            for e in by_n[n - 1]:
                cur.add((u,) + e)
        if n >= 3:
            for e in by_n[n - 2]:
                cur.add(("(",) + e + (")",))
            for i in range(1, n - 1):
                j = n - 1 - i
                if j < 1:
                    continue
                for a in by_n[i]:
                    for op in BINOPS:
                        for b in by_n[j]:
                            cur.add(a + (op,) + b)
        by_n[n] = cur
    return by_n


class ExprMonitor:
    """Every Expression.evaluate anywhere (array lengths, enum values, #defines, direct calls) is re-evaluated by
    the independent evaluator on the same text, context and constants."""

    def __init__(self, ctx):
        self.ctx = ctx
        self.patch = monitors.Patch()

    def install(self):
        from dissect.cstruct.expression import Expression

        mon = self

        def after(expr, args, kwargs, res, exc, token):
            context = args[0] if args else kwargs.get("context")
            mon.ctx.event("Expression.evaluate")
            try:
                ictx = {k: int(v) for k, v in (context or {}).items() if isinstance(v, int)}
                consts = {k: v for k, v in expr.cstruct.consts.items() if isinstance(v, int)}

                def so(name, cs=expr.cstruct):
                    return len(cs.resolve(name))

                want, flags = refexpr.evaluate(expr.expression, ictx, consts, so)
            except Exception:  # noqa: BLE001  not a well-formed / resolvable expression for the reference
                mon.ctx.event("Expression.evaluate:reference-rejects")
                return
            if flags or want is None:
                return
            if exc is not None:
                mon.ctx.violation("expr-monitor", f"evaluate-raises-on-well-formed:{type(exc).__name__}",
                                  {"text": expr.expression, "context": ictx, "consts": consts, "want": want})
            elif res != want:
                mon.ctx.violation("expr-monitor", "in-situ-evaluation-differs-from-reference",
                                  {"text": expr.expression, "context": ictx, "consts": consts, "got": res, "want": want})
            else:
                mon.ctx.event("Expression.evaluate:agree")

        monitors.wrap_method(self.patch, Expression, "evaluate", None, after)

    def uninstall(self):
        self.patch.restore()


def lib_eval(cs, text, context):
    from dissect.cstruct.expression import Expression

    try:
        e = Expression(cs, text)
    except Exception as ex:  # noqa: BLE001
        return None, ("ctor", ex)
    try:
        return e, ("ok", e.evaluate(context))
    except Exception as ex:  # noqa: BLE001
        return e, ("err", ex)


def typed_context(cs, context):
    """The same bindings as instances of the types field values have: flag, enum, bool, sized integer."""
    try:
        F, E = cs.VF_ctx, cs.VE_ctx
    except AttributeError:
        try:
            cs.load("flag VF_ctx : uint16 { VFP = 1, VFQ = 2 };\nenum VE_ctx : uint16 { VEA = 1, VEB = 2 };")
            F, E = cs.VF_ctx, cs.VE_ctx
        except Exception:  # noqa: BLE001
            return None
    out = {}
    for i, (k, v) in enumerate(sorted(context.items())):
        if not isinstance(v, int) or v < 0 or v > 0xFFFF:
            return None
        out[k] = (F(v), E(v), bool(v) if v in (0, 1) else cs.uint16(v), cs.uint8(v) if v < 256 else cs.uint16(v))[i % 4]
    return out


def judge(ctx, cs, text, context, consts, cellinfo=None):
    """Compare one expression under one binding with the reference; also repeatability."""
    try:
        want, flags = refexpr.evaluate(text, context, consts, sizeof)
    except (refexpr.RefSyntaxError, refexpr.RefNameError):
        return
    if "hugeshift" in flags:
        # a shift count beyond 4096: the exact result needs gigabytes (1 << (255 << 31)); not evaluated at all
        ctx.event("skipped_huge_shift")
        return
    cs.consts.clear()
    cs.consts.update(consts)
    e, r = lib_eval(cs, text, context)
    ctx.evaluation((text, tuple(sorted(context.items())), tuple(sorted(consts.items()))))
    defined = not flags and want is not None
    if defined:
        if r[0] != "ok":
            ctx.violation("value", f"well-formed-expression-rejected:{type(r[1]).__name__}",
                          {"text": text, "context": context, "consts": consts, "want": want, "error": lib.exc_sig(r[1])})
            return
        if r[1] != want:
            ctx.violation("value", "value-differs-from-C-precedence-evaluation",
                          {"text": text, "context": context, "consts": consts, "got": r[1], "want": want})
            return
    # the values a parse context really holds are enum / flag members, bools and sized integers, not plain ints: they
    # take part by their integer value (an operator a flag overloads -- ~, &, | with a mask of known bits -- must not
    # leak into the arithmetic)
    if defined and context and hash(text) % 3 == 0:
        typed = typed_context(cs, context)
        if typed is not None:
            _e2, rt = lib_eval(cs, text, typed)
            ctx.event("typed_context_evaluations")
            import enum as _enum

            if rt[0] != "ok" or rt[1] != want or isinstance(rt[1], _enum.Enum):
                ctx.violation("value", "value-differs-when-the-context-holds-enum-flag-or-bool-values",
                              {"text": text, "context": {k: repr(v) for k, v in typed.items()}, "consts": consts,
                               "got": repr(rt[1]), "want": want})
                return
    # identifiers as headers spell them: underscores inside and in front, digits, upper case, names that begin like a
    # literal prefix or a suffix letter -- the value does not depend on how a name is spelled
    if defined and hash(text) % 4 == 2 and (context or consts):
        import re as _re

        for ren in ({"a": "total_len", "b": "_pad", "u": "x0", "K": "HDR_SIZE"}, {"a": "u1", "b": "l_2", "u": "b0_", "K": "_"},
                    {"a": "A_", "b": "__b", "u": "ull_", "K": "K_9_z"}):
            t2 = _re.sub(r"\b(a|b|u|K)\b", lambda m: ren[m.group(1)], text)
            if t2 == text:
                break
            c2 = {ren.get(k, k): v for k, v in context.items()}
            k2 = {ren.get(k, k): v for k, v in consts.items()}
            cs.consts.clear()
            cs.consts.update(k2)
            _e4, rr = lib_eval(cs, t2, c2)
            cs.consts.clear()
            cs.consts.update(consts)
            ctx.event("renamed_identifier_evaluations")
            ctx.cell("identifier-spellings")
            if rr[0] != "ok" or rr[1] != want:
                ctx.violation("value", "value-depends-on-how-an-identifier-is-spelled",
                              {"text": t2, "original": text, "context": c2, "consts": k2,
                               "got": repr(rr[1]) if rr[0] == "ok" else lib.exc_sig(rr[1]), "want": want})
                return
    # a character -- the value of a char field, or of a constant defined as a character literal -- takes part by its
    # code, whichever of the two tables it comes from
    if defined and hash(text) % 4 == 1:
        cctx = {k: (bytes([v]) if i % 2 else chr(v)) if isinstance(v, int) and 0 <= v < 256 else v
                for i, (k, v) in enumerate(sorted(context.items()))}
        cconsts = {k: (chr(v) if i % 2 else bytes([v])) if isinstance(v, int) and 0 <= v < 256 else v
                   for i, (k, v) in enumerate(sorted(consts.items()))}
        if cctx != context or cconsts != consts:
            cs.consts.clear()
            cs.consts.update(cconsts)
            _e3, rc_ = lib_eval(cs, text, cctx)
            cs.consts.clear()
            cs.consts.update(consts)
            ctx.event("character_valued_evaluations")
            ctx.cell("character-valued-names")
            if rc_[0] != "ok" or rc_[1] != want:
                ctx.violation("value", "value-differs-when-a-name-holds-a-character",
                              {"text": text, "context": {k: repr(v) for k, v in cctx.items()},
                               "consts": {k: repr(v) for k, v in cconsts.items()},
                               "got": repr(rc_[1]) if rc_[0] == "ok" else lib.exc_sig(rc_[1]), "want": want})
                return
    if e is None:
        return
    # repeatability: same object again; after a failing evaluation; with another context; vs a fresh object
    again = None
    try:
        again = ("ok", e.evaluate(context))
    except Exception as ex:  # noqa: BLE001
        again = ("err", ex)
    if (r[0], r[1] if r[0] == "ok" else type(r[1])) != (again[0], again[1] if again[0] == "ok" else type(again[1])):
        ctx.violation("repeat", "second-evaluation-of-same-object-differs",
                      {"text": text, "context": context, "consts": consts, "first": repr(r[1]), "second": repr(again[1])})
        return
    other = {k: v + 1 for k, v in context.items()}
    try:
        if "hugeshift" in refexpr.evaluate(text, other, consts, sizeof)[1]:
            return
    except (refexpr.RefSyntaxError, refexpr.RefNameError):
        pass
    try:
        e.evaluate({})  # usually fails: identifiers unbound
    except Exception:  # noqa: BLE001
        pass
    try:
        got2 = ("ok", e.evaluate(other))
    except Exception as ex:  # noqa: BLE001
        got2 = ("err", ex)
    _, fresh = lib_eval(cs, text, other)
    if (got2[0], got2[1] if got2[0] == "ok" else type(got2[1])) != (fresh[0], fresh[1] if fresh[0] == "ok" else type(fresh[1])):
        ctx.violation("repeat", "reused-object-differs-from-fresh-object",
                      {"text": text, "context": other, "consts": consts, "reused": repr(got2[1]), "fresh": repr(fresh[1])})
    ctx.event("repeat_checks")


def op_pairs(tokens):
    ops = [t for t in tokens if t in BINOPS or t in UNOPS]
    return {f"{a} {b}" for a, b in zip(ops, ops[1:])}


def exhaustive(ctx, maxtok):
    by_n = enumerate_exprs(maxtok)
    allx = sorted(itertools.chain.from_iterable(by_n.values()))
    mine = allx[ctx.shard::ctx.nshards]
    cs = lib.cstruct()
    pairs = set()
    for idx, toks in enumerate(mine):
        if ctx.out_of_time():
            ctx.note_inconclusive("exhaustive expression enumeration stopped by the shard budget")
            break
        text = " ".join(toks) if idx % 3 else "".join(toks)
        context, consts = BINDINGS[idx % len(BINDINGS)]
        judge(ctx, cs, text, context, consts)
        pairs |= op_pairs(toks)
    ctx.evaluation(("exhaustive", maxtok, len(mine)))
    ctx.extra["operator_pairs"] = sorted(pairs)
    if ctx.shard == 0:
        ctx.extra["enumerated_by_length"] = {str(k): len(v) for k, v in by_n.items()}
    ctx.cell("exhaustive")


def random_expr(rng, depth):
    if depth == 0 or rng.random() < 0.25:
        return rng.choice(OPERANDS + ["0", "0x0", "255", "0b1", "017", "100", "0XfF", "0B11", "9L", "8ull", "6lu",
                                      "sizeof( unsigned  long long )", "sizeof (signed char)", "sizeof(int24)",
                                      "sizeof(long long)",
                                      # operands beyond what a double holds exactly (the integers are unbounded)
                                      "0x40000000000000", "0xBFFFFFFFFFFFFF", "4611686018427387906", "0x20000000000001",
                                      "18446744073709551615", "0x10000000000000000"])
    x = rng.random()
    if x < 0.2:
        return f"{rng.choice(UNOPS)}{rng.choice(['', ' '])}{random_expr(rng, depth - 1)}"
    if x < 0.35:
        return f"({random_expr(rng, depth - 1)})"
    sp = rng.choice(["", " ", "  ", "\t"])
    return f"{random_expr(rng, depth - 1)}{sp}{rng.choice(BINOPS)}{sp}{random_expr(rng, depth - 1)}"


def literals(ctx):
    cs = lib.cstruct()
    vals = [0, 1, 7, 8, 9, 10, 63, 64, 255, 256, 4095, 65535, 2 ** 31, 2 ** 32 - 1, 2 ** 63, 2 ** 64 + 1]
    sufs = ["", "u", "U", "l", "L", "ul", "UL", "lu", "LU", "ll", "LL", "ull", "ULL", "llu", "uL", "Ul"]
    n = 0
    for v in vals:
        forms = [str(v), hex(v), hex(v).upper().replace("0X", "0x"), "0X" + hex(v)[2:], bin(v), "0B" + bin(v)[2:]]
        if v:
            forms.append("0" + oct(v)[2:])
        for f in forms:
            for s in sufs:
                if f.startswith(("0b", "0B")) and s and s[0] in "lL" and False:
                    continue
                text = f + s
                for wrap in ("{}", "{} + 1", "-{}", "2 * {}", "({})", "~{} & 0xFF"):
                    t = wrap.format(text)
                    judge(ctx, cs, t, {}, {})
                    n += 1
    ctx.cell("literal-forms")
    ctx.extra["literal_forms_tried"] = n


def to_c(tokens, context, consts):
    """C source for a token list of the reference tokenizer: every literal and bound identifier as a long long."""
    out = []
    i = 0
    while i < len(tokens):
        kind, v = tokens[i]
        if kind == "num":
            out.append(f"{v}LL")
        elif kind == "id" and v == "sizeof":
            j = i + 2
            words = []
            while tokens[j][0] == "id":
                words.append(tokens[j][1])
                j += 1
            out.append(f"{sizeof(' '.join(words))}LL")
            i = j
        elif kind == "id":
            out.append(f"({int(context[v] if v in context else consts[v])}LL)")
        else:
            out.append(v)
        i += 1
    return " ".join(out)


def cc_crosscheck(ctx, n):
    """A real C compiler as a third evaluator: a batch of random expressions (those whose every intermediate fits a
    long long and is defined in C) is compiled and run; the library must agree with the compiler, and so must the
    reference evaluator (otherwise the oracle itself is wrong and the shard is inconclusive)."""
    import os
    import shutil
    import subprocess
    import tempfile

    cc = shutil.which("cc") or shutil.which("gcc") or shutil.which("clang")
    if cc is None:
        ctx.event("c_compiler_unavailable")
        return
    rng = ctx.rng("cc")
    cs = lib.cstruct()
    batch = []
    tries = 0
    while len(batch) < n and tries < n * 20:
        tries += 1
        text = random_expr(rng, rng.randint(2, 6))
        k = rng.randrange(len(BINDINGS))
        context, consts = BINDINGS[k]
        try:
            want, flags, info = refexpr.evaluate_ex(text, context, consts, sizeof)
        except (refexpr.RefSyntaxError, refexpr.RefNameError):
            continue
        if flags or want is None or info["notes"] or info["maxabs"] >= 2 ** 62:
            ctx.event("cc_skipped_undefined_in_C")
            continue
        batch.append((text, k, want, to_c(info["tokens"], context, consts)))
    src = ["#include <stdio.h>", "int main(void) {"]
    for i, (_t, _k, _w, ctext) in enumerate(batch):
        src.append(f'  printf("%d %lld\\n", {i}, (long long)({ctext}));')
    src.append("  return 0; }")
    tmp = tempfile.mkdtemp(prefix="vf-c10-")
    try:
        path = os.path.join(tmp, "expr.c")
        with open(path, "w") as fh:
            fh.write("\n".join(src) + "\n")
        r = subprocess.run([cc, "-std=gnu11", "-O0", "-w", path, "-o", os.path.join(tmp, "expr")],
                           capture_output=True, text=True, timeout=300)
        if r.returncode != 0:
            ctx.event("c_compiler_rejected_batch")
            ctx.extra["c_compiler_error"] = r.stderr[-400:]
            return
        out = subprocess.run([os.path.join(tmp, "expr")], capture_output=True, text=True, timeout=60).stdout
    finally:
        shutil.rmtree(tmp, ignore_errors=True)
    for line in out.splitlines():
        i, val = (int(x) for x in line.split())
        text, k, want, ctext = batch[i]
        context, consts = BINDINGS[k]
        ctx.evaluation(("cc", text, k))
        ctx.event("checked_against_c_compiler")
        if val != want:
            ctx.note_inconclusive(f"reference evaluator ({want}) and C compiler ({val}) disagree on {text!r} [{ctext}]")
            continue
        cs.consts.clear()
        cs.consts.update(consts)
        e, res = lib_eval(cs, text, context)
        if res[0] != "ok" or res[1] != val:
            ctx.violation("c-compiler", "value-differs-from-what-the-C-compiler-computes",
                          {"text": text, "context": context, "consts": consts, "c_source": ctext, "want": val,
                           "got": res[1] if res[0] == "ok" else lib.exc_sig(res[1])})
        if i < 2:
            ctx.sample({"expression": text, "c_source": ctext, "c_compiler": val, "library": repr(res[1])})
    ctx.cell("c-compiler")


def length_expressions(ctx, rng, n):
    """Expressions where the library actually evaluates them with a field context: as the length of an array member, in
    one and two dimensions (`d[expr]`, `rows[EOF][expr]`, `rows[2][expr]`, `rows[m][expr]`), over preceding fields,
    `sizeof(...)` operands anywhere in the text and constants -- half of the cases with constants named like the fields
    (the field wins).  The number of entries must be max(0, value) as the reference evaluator computes it."""
    import io

    def term(names):
        x = rng.random()
        if x < 0.4:
            return rng.choice(names)
        if x < 0.65:
            return rng.choice(["sizeof(uint16)", "sizeof(uint8)", "sizeof(unsigned int)", "sizeof( uint32 )", "sizeof(unsigned long long)"])
        return rng.choice(["1", "2", "3", "0x2", "KC"])

    def expr(names, depth):
        if depth == 0:
            return term(names)
        x = rng.random()
        if x < 0.3:
            return f"({expr(names, depth - 1)})"
        sp = rng.choice(["", " "])
        return f"{expr(names, depth - 1)}{sp}{rng.choice(['+', '*', '-', '&', '|', '+', '*', '>>', '^'])}{sp}{expr(names, depth - 1)}"

    for it in range(n):
        names = ["n", "m"]
        text_e = expr(names, rng.randint(1, 3))
        shadow = rng.random() < 0.5
        consts = {"KC": rng.randint(0, 3)}
        if shadow:
            consts.update({"n": rng.randint(0, 4), "m": rng.randint(0, 4)})
        pre = "".join(f"#define {k} {v}\n" for k, v in consts.items())
        form = rng.choice(["flat", "flat", "eof-rows", "fixed-rows", "counted-rows"])
        endian, compiled = rng.choice("<>"), rng.random() < 0.5
        body = {"flat": f"uint8 d[{text_e}]; uint8 t;", "eof-rows": f"uint8 rows[EOF][{text_e}];",
                "fixed-rows": f"uint8 rows[2][{text_e}]; uint8 t;", "counted-rows": f"uint8 rows[m][{text_e}]; uint8 t;"}[form]
        # the fields the length names are direct members, or folded in through one or two levels of anonymous members
        nest = rng.choice([0, 0, 1, 2])
        head = ["uint8 n; uint8 m;", "struct { uint8 n; uint8 m; };", "struct { struct { uint8 n; }; union { uint8 m; uint8 m_too; }; };"][nest]
        text = pre + f"struct S {{ {head} {body} }};"
        ctx.cell(f"length-expression:fields-folded-{nest}-levels")
        det = {"workload": "length-expressions", "text": text, "expr": text_e, "form": form, "endian": endian, "compiled": compiled}
        try:
            cs = lib.load(text, endian, False, compiled)
        except Exception as e:  # noqa: BLE001
            ctx.violation("in-situ", f"length-expression:definition-refused:{type(e).__name__}", dict(det, error=lib.exc_sig(e)))
            continue
        for _ in range(4):
            context = {"n": rng.randint(0, 5), "m": rng.randint(0, 5)}
            try:
                want, flags = refexpr.evaluate(text_e, context, consts, sizeof)
            except Exception:  # noqa: BLE001
                ctx.event("length_expression_outside_reference")
                continue
            if flags or want is None:
                # outside the domain in which C and the statement agree (negative shift counts, ...)
                ctx.event("length_expression_outside_reference")
                continue
            k = max(0, want)
            if k > 64 or (form == "eof-rows" and k == 0):
                ctx.event("length_expression_value_not_used")
                continue
            rows = {"flat": 1, "eof-rows": 3, "fixed-rows": 2, "counted-rows": context["m"]}[form]
            payload = bytes(rng.randrange(1, 256) for _ in range(rows * k))
            data = bytes([context["n"], context["m"]]) + payload + (b"" if form == "eof-rows" else b"\xEE\x77")
            ctx.evaluation(("length-expression", text, repr(context)))
            ctx.cell(f"length-expression:{form}")
            if "sizeof" in text_e and ")" in text_e.split("sizeof", 1)[1].split(")", 1)[1] and any(nm in text_e.split("sizeof", 1)[1] for nm in names):
                ctx.cell("length-expression:name-between-sizeof-and-a-later-parenthesis")
            try:
                st = io.BytesIO(data)
                o = cs.S(st)
                if form == "flat":
                    got = (list(o.d), o.t, st.tell())
                    exp = (list(payload), 0xEE, 3 + k)
                elif form == "eof-rows":
                    got = ([list(r) for r in o.rows], st.tell())
                    exp = ([list(payload[i * k:(i + 1) * k]) for i in range(rows)], len(data))
                else:
                    got = ([list(r) for r in o.rows], o.t, st.tell())
                    exp = ([list(payload[i * k:(i + 1) * k]) for i in range(rows)], 0xEE, 3 + rows * k)
            except Exception as e:  # noqa: BLE001
                ctx.violation("in-situ", f"length-expression:parse-raises:{type(e).__name__}",
                              dict(det, context=context, consts=consts, want=want, data=data.hex(), error=lib.exc_sig(e)))
                continue
            if got != exp:
                ctx.violation("in-situ", "length-expression:entries-differ-from-the-reference-value",
                              dict(det, context=context, consts=consts, want=want, data=data.hex(), got=repr(got)[:300]))
            else:
                ctx.event("length_expressions_checked")


def run(ctx):
    mon = ExprMonitor(ctx)
    mon.install()
    try:
        exhaustive(ctx, 5 if not ctx.thorough else 5)
        if ctx.shard == 0:
            literals(ctx)
        cs = lib.cstruct()
        rng = ctx.rng("random")
        for i in range(1500 if not ctx.thorough else 60000):
            if ctx.out_of_time():
                break
            text = random_expr(rng, rng.randint(2, 5 if not ctx.thorough else 6))
            context, consts = BINDINGS[i % len(BINDINGS)]
            ctx.evaluation(("random", text, i % len(BINDINGS)))
            judge(ctx, cs, text, context, consts)
            if i < 3:
                ctx.sample({"expression": text, "context": context, "consts": consts})
        ctx.cell("random")
        cc_crosscheck(ctx, 400 if not ctx.thorough else 6000)
        # in situ: array lengths / enum values / #define constants evaluated while loading and parsing
        for i in range(6 if not ctx.thorough else 120):
            r2 = ctx.rng("insitu", i)
            case = engine.make_case(r2, dyn_unions=False, bias="arrays")
            for cfgd in engine.std_configs(r2, False, case["top"])[:4]:
                cs2, err = engine.load_cfg(ctx, case, cfgd)
                if cs2 is None:
                    continue
                cfg = engine.mcfg(case, cfgd["endian"], cfgd["align"], cfgd["ptr"])
                try:
                    inp = engine.model_input(case, cfg, r2)[0]
                except Exception:  # noqa: BLE001
                    continue
                engine.judge_parse(ctx, case, cfgd, cfg, cs2.T, inp, sig_prefix="in-situ:")
        ctx.cell("in-situ")
        length_expressions(ctx, ctx.rng("length-expressions"), 60 if not ctx.thorough else 1500)
    finally:
        mon.uninstall()


def replay(ctx, detail):
    print("record:", {k: v for k, v in detail.items() if k != "ast"})
    if detail.get("workload") == "length-expressions":
        length_expressions(ctx, ctx.rng("length-expressions"), 400)
        return
    if "ast" in detail:
        case = engine.case_from_detail(detail)
        cfgd = detail["cfg"]
        mon = ExprMonitor(ctx)
        mon.install()
        try:
            cs, err = engine.load_cfg(ctx, case, cfgd)
            if cs is not None:
                cfg = engine.mcfg(case, cfgd["endian"], cfgd["align"], cfgd["ptr"])
                engine.judge_parse(ctx, case, cfgd, cfg, cs.T, engine.unhex(detail["data"]), sig_prefix="in-situ:")
        finally:
            mon.uninstall()
        return
    cs = lib.cstruct()
    context = {k: int(v) for k, v in (detail.get("context") or {}).items()}
    consts = {k: int(v) for k, v in (detail.get("consts") or {}).items()}
    want = refexpr.evaluate(detail["text"], context, consts, sizeof)
    cs.consts.update(consts)
    e, r = lib_eval(cs, detail["text"], context)
    print("reference:", want, " library:", r)
    judge(ctx, cs, detail["text"], context, consts)
