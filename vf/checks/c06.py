"""C06  Bit-fields partition their storage unit exactly, in endian-defined order."""
from __future__ import annotations

import itertools

from .. import engine, gen, lib, model, monitors
from ..engine import case_detail, outcome
from ..gen import ALL_INTS, F, N_int

N_CASES = {"quick": 70, "thorough": 1200}


# ---------------------------------------------------------------------------------------------------
# BitBuffer monitor: invariant at a hook, applies to interpreted and generated readers alike


class BitMonitor:
    def __init__(self, ctx):
        self.ctx = ctx
        self.units = {}   # id(bitbuffer) -> read-side shadow [raw, total, used, big]
        self.wunits = {}  # id(bitbuffer) -> write-side shadow [value, total, used, big, type]
        self.closing = {}  # shadow of a unit that the real write() is about to flush because the type changed
        self.patch = monitors.Patch()

    def viol(self, sig, **kw):
        self.ctx.violation("bitbuffer", sig, kw)

    def install(self):
        from dissect.cstruct.bitbuffer import BitBuffer

        mon = self

        def before_read(bb, args, kwargs):
            ft, bits = args[0], args[1]
            return (bb._type, bb._remaining, bb._remaining == 0 or bb._type != ft)

        def after_read(bb, args, kwargs, res, exc, token):
            if exc is not None:
                mon.ctx.event("bitbuffer.read_raised")
                mon.units.pop(id(bb), None)  # the buffer may have refilled before raising: no unit to reason about
                return
            ft, bits = args[0], args[1]
            total = ft.size * 8
            big = bb.endian != "<"
            mon.ctx.event("bitbuffer.read")
            if not 0 <= bb._remaining <= total:
                mon.viol("remaining-out-of-range", remaining=bb._remaining, total=total)
            if not 0 <= res < (1 << bits):
                mon.viol("value-out-of-range", value=res, bits=bits)
            _, _, refill = token
            if refill:
                mon.ctx.event("bitbuffer.unit")
                if big:
                    raw = bb._buffer & ((1 << total) - 1)
                else:
                    raw = (((bb._buffer & ((1 << (total - bits)) - 1)) << bits) | res) if total > bits else res
                mon.units[id(bb)] = [raw, total, 0, big]
            u = mon.units.get(id(bb))
            if u is None:
                return
            raw, total, used, big = u
            if big:
                want = (raw >> (total - used - bits)) & ((1 << bits) - 1) if total - used - bits >= 0 else None
            else:
                want = (raw >> used) & ((1 << bits) - 1)
            if want is not None and want != res:
                mon.viol("slice-not-contiguous-in-endian-order", raw=raw, used=used, bits=bits, got=res, want=want,
                         endian=bb.endian)
            u[2] += bits
            if total - u[2] != bb._remaining:
                mon.viol("remaining-does-not-match-bits-handed-out", remaining=bb._remaining, expect=total - u[2])

        def before_write(bb, args, kwargs):
            ft, data, bits = args[0], args[1], args[2]
            total = ft.size * 8
            big = bb.endian != "<"
            if bb._remaining == 0 or bb._type != ft:
                old = mon.wunits.pop(id(bb), None)
                if old is not None and bb._type is not None:
                    mon.closing[id(bb)] = old  # the real write() flushes the open unit first
                mon.wunits[id(bb)] = [0, total, 0, big, ft]
            w = mon.wunits.get(id(bb))
            if w is None:
                return None
            if isinstance(data, int) and 0 <= data < (1 << bits) and w[2] + bits <= w[1]:
                sh = (w[1] - w[2] - bits) if big else w[2]
                w[0] |= data << sh
                w[2] += bits
            else:
                mon.wunits.pop(id(bb), None)  # out-of-range values are outside the property
            return None

        def after_write(bb, args, kwargs, res, exc, token):
            if exc is None:
                mon.ctx.event("bitbuffer.write")

        def before_flush(bb, args, kwargs):
            return bb._type

        def after_flush(bb, args, kwargs, res, exc, token):
            if exc is not None:
                return
            mon.ctx.event("bitbuffer.flush")
            w = mon.closing.pop(id(bb), None)
            if w is None:
                w = mon.wunits.pop(id(bb), None)
            if w is not None and token is not None:
                mon.check_flushed(bb, w)
            if bb._type is not None or bb._remaining != 0 or bb._buffer != 0:
                mon.viol("flush-leaves-state", type=repr(bb._type), remaining=bb._remaining)

        def after_reset(bb, args, kwargs, res, exc, token):
            mon.ctx.event("bitbuffer.reset")
            mon.units.pop(id(bb), None)
            mon.wunits.pop(id(bb), None)
            mon.closing.pop(id(bb), None)
            if bb._type is not None or bb._remaining != 0:
                mon.viol("reset-leaves-state", remaining=bb._remaining)

        monitors.wrap_method(self.patch, BitBuffer, "read", before_read, after_read)
        monitors.wrap_method(self.patch, BitBuffer, "write", before_write, after_write)
        monitors.wrap_method(self.patch, BitBuffer, "flush", before_flush, after_flush)
        monitors.wrap_method(self.patch, BitBuffer, "reset", None, after_reset)

    def check_flushed(self, bb, w):
        value, total, used, big, ft = w
        stream = bb.stream
        if not hasattr(stream, "getvalue"):
            return
        size = total // 8
        pos = stream.tell()
        raw = stream.getvalue()[pos - size:pos]
        want = value.to_bytes(size, "big" if big else "little")
        self.ctx.event("bitbuffer.unit_written")
        if raw != want:
            self.viol("written-unit-differs-from-independent-accumulation", got=raw.hex(), want=want.hex(),
                      endian=bb.endian)

    def uninstall(self):
        self.patch.restore()


# ---------------------------------------------------------------------------------------------------
# exhaustive sub-space: every composition of <= 8 bits into <= 3 fields on 8-bit units x all 256 contents


def compositions():
    out = []
    for parts in (1, 2, 3):
        for ws in itertools.product(range(1, 9), repeat=parts):
            if sum(ws) <= 8:
                out.append(ws)
    return out


def exhaustive(ctx):
    comps = compositions()
    jobs = [(ws, st) for ws in comps for st in ("uint8", "int8")]
    mine = jobs[ctx.shard::ctx.nshards]
    for ws, st in mine:
        fields = [F(f"b{i}", N_int(st), bits=w) for i, w in enumerate(ws)]
        fields.append(F("tail", N_int("uint8")))
        case = gen.simple_case(fields)
        for endian in "<>":
            cfg = model.Cfg(endian, False)
            for compiled in (True, False):
                cfgd = {"endian": endian, "align": False, "compiled": compiled, "ptr": "uint64"}
                cs, err = engine.load_cfg(ctx, case, cfgd)
                if cs is None:
                    ctx.violation("load", f"load-fails:{type(err).__name__}", case_detail(case, cfg=cfgd, error=repr(err)))
                    continue
                T = cs.T
                ctx.cell(f"exh:{st}:{endian}:{'compiled' if T.__compiled__ else 'interpreted'}")
                for content in range(256):
                    inp = bytes([content, 0xA5])
                    r = outcome(T, inp)
                    want, end = model.parse(case["top"], inp, 0, cfg)
                    ctx.evaluation(None)
                    if r[0] != "ok":
                        ctx.violation("exhaustive", f"parse-raises:{type(r[1]).__name__}",
                                      case_detail(case, cfg=cfgd, data=inp))
                        continue
                    got = lib.norm(r[1], case["top"])
                    if got != want or r[2] != 2:
                        ctx.violation("exhaustive", "parsed-bits-differ-from-model",
                                      case_detail(case, cfg=cfgd, data=inp, got=got, want=want))
                        continue
                    d = r[1].dumps()
                    dm, mask = model.dump(case["top"], want, cfg)
                    if d != dm:
                        ctx.violation("exhaustive", "dump-differs-from-model",
                                      case_detail(case, cfg=cfgd, data=inp, got=d, want=dm))
                ctx.evaluation((ws, st, endian, compiled))


# ---------------------------------------------------------------------------------------------------
# straddling declarations must be rejected


def straddles(ctx, rng, n):
    pool = list(ALL_INTS)
    for i in range(n):
        st = rng.choice(pool)
        total = ALL_INTS[st][0] * 8
        kind = rng.random()
        if kind < 0.25:
            ws = [total + rng.randint(1, 8)]
        else:
            a = rng.randint(1, total - 1)
            b = rng.randint(total - a + 1, total)
            ws = [a, b]
            if kind > 0.7 and a > 1:
                a0 = rng.randint(1, a - 1)
                ws = [a0, a - a0, b]
        fields = [F(f"b{i}", N_int(st), bits=w) for i, w in enumerate(ws)]
        if rng.random() < 0.5:
            fields.insert(0, F("lead", N_int(rng.choice(["uint8", "uint32"]))))
        if rng.random() < 0.5:
            fields.append(F("tail", N_int("uint16")))
        case = gen.simple_case(fields)
        for align in (False, True):
            for compiled in (True, False):
                cfgd = {"endian": rng.choice("<>"), "align": align, "compiled": compiled, "ptr": "uint64"}
                ctx.evaluation((case["text"], align, compiled))
                ctx.cell("straddle")
                try:
                    model.layout(case["top"], model.Cfg(cfgd["endian"], align))
                    ctx.note_inconclusive("harness: straddle generator produced a fitting layout")
                    continue
                except model.ModelReject:
                    pass
                cs, err = engine.load_cfg(ctx, case, cfgd)
                if cs is not None:
                    ctx.violation("straddle", "straddling-bit-field-accepted", case_detail(case, cfg=cfgd))
                else:
                    ctx.event("straddle_rejected")


# ---------------------------------------------------------------------------------------------------
# generated bit-field-heavy definitions


def gen_opts(rng, thorough):
    o = dict(bias="bits", dyn_unions=False, char_bits=True)
    if thorough:
        o.update(max_fields=rng.choice([6, 9, 12]), max_depth=3)
    return o


PATTERNS = [lambda n, r: b"\xff" * n, lambda n, r: b"\x80" * n, lambda n, r: b"\x01" * n,
            lambda n, r: bytes((1 << r.randrange(8)) for _ in range(n)), lambda n, r: b"\x00" * n,
            lambda n, r: bytes(r.choice((0x7F, 0x80, 0xFE, 0x01)) for _ in range(n))]


def check_case(ctx, case, rng):
    top = case["top"]
    for cfgd in engine.std_configs(rng, ctx.thorough, top):
        cfg = engine.mcfg(case, cfgd["endian"], cfgd["align"], cfgd["ptr"])
        cs, err = engine.load_cfg(ctx, case, cfgd)
        if cs is None:
            try:
                model.layout(top, cfg)
                ctx.violation("load", f"load-fails:{type(err).__name__}", case_detail(case, cfg=cfgd, error=repr(err)))
            except model.ModelReject:
                ctx.event("rejected_by_both")
            continue
        T = cs.T
        for st in sorted({f["t"].get("t") or f["t"].get("base") or f["t"]["k"] for f in top["fields"] if f.get("bits")}):
            ctx.cell(f"unit:{st}:{cfgd['endian']}:{'compiled' if T.__compiled__ else 'interpreted'}")
        if cfgd["align"]:
            ctx.cell("aligned")
        inputs = []
        try:
            for _ in range(2):
                inputs.append(engine.model_input(case, cfg, rng)[0])
        except model.ModelUnsupported:
            pass
        n = len(inputs[0]) if inputs else 80
        for pat in rng.sample(PATTERNS, 3):
            inputs.append(pat(n, rng))
        inputs.append(gen.arbitrary_bytes(rng, n + 8))
        for inp in inputs:
            r, exp = engine.judge_parse(ctx, case, cfgd, cfg, T, inp)
            if r[0] == "ok" and exp[0] == "ok" and not model.has_nan(exp[1]):
                # write is the inverse of read, unassigned bits come out as zero
                try:
                    d = r[1].dumps()
                except Exception as e:  # noqa: BLE001
                    ctx.violation("dump-raises", f"dumps-raises:{type(e).__name__}",
                                  case_detail(case, cfg=cfgd, data=inp, error=lib.exc_sig(e)))
                    continue
                dm, mask, k1 = model.dump_full(top, exp[1], cfg)
                if d != dm and not (gen.has_leb(top) or gen.has_float(top)):
                    diffs = engine.bits_differ(d, dm, bytes([0xFF]) * min(len(d), len(dm)))
                    if len(d) == len(dm) and engine.k1_explains(diffs, d, k1):
                        ctx.event("k1_seen_not_judged_here")
                    else:
                        ctx.violation("write-inverse", "dump-differs-from-model-dump",
                                      case_detail(case, cfg=cfgd, data=inp, got=d, want=dm))
        # a default-constructed instance dumps as the model's zero value (no parse involved)
        if not gen.has_union(top):
            try:
                d0 = T().dumps()
                dz, _ = model.dump(top, model.default_value(top, cfg), cfg)
                ctx.evaluation((case["text"], tuple(sorted(cfgd.items())), "default-dump"))
                if d0 != dz:
                    ctx.violation("write-inverse", "default-instance-dump-differs-from-model",
                                  case_detail(case, cfg=cfgd, got=d0, want=dz))
            except Exception as e:  # noqa: BLE001
                ctx.violation("dump-raises", f"default-dump-raises:{type(e).__name__}",
                              case_detail(case, cfg=cfgd, error=lib.exc_sig(e)))
        # constructed values that fit: dump must equal the model's dump
        if not gen.has_union(top):
            for _ in range(2):
                try:
                    v = model.random_value(top, rng, cfg)
                    obj = lib.build(T, top, v)
                    d = obj.dumps()
                except model.ModelUnsupported:
                    break
                except Exception as e:  # noqa: BLE001
                    ctx.violation("dump-raises", f"constructed-dump-raises:{type(e).__name__}",
                                  case_detail(case, cfg=cfgd, value=model.clean(v), error=lib.exc_sig(e)))
                    continue
                dm, _ = model.dump(top, v, cfg)
                ctx.evaluation((case["text"], tuple(sorted(cfgd.items())), "constructed", d.hex()))
                if d != dm:
                    ctx.violation("write-inverse", "constructed-dump-differs-from-model-dump",
                                  case_detail(case, cfg=cfgd, value=model.clean(v), got=d, want=dm))
        # values that do not fit -- 2^bits, and negative ones whatever the storage type (a signed type changes nothing:
        # a bit-field value lies in [0, 2^bits)) -- are refused when written, never wrapped or masked
        if not gen.has_union(top):
            bitf = [(i, f) for i, f in enumerate(top["fields"]) if f.get("bits") and f["name"] not in (None, "_")]
            for i, f in rng.sample(bitf, min(len(bitf), 2)):
                for bad in (1 << f["bits"], -1, -(1 << (f["bits"] - 1)) if f["bits"] > 1 else -2):
                    ctx.evaluation((case["text"], tuple(sorted(cfgd.items())), "refusal", f["name"], bad))
                    try:
                        obj = T()
                        setattr(obj, T.__fields__[i]._name, bad)
                        d = obj.dumps()
                    except Exception:  # noqa: BLE001
                        ctx.event("out_of_range_bit_field_values_refused")
                        # ... and the refused write (it may have stopped in the middle of a unit) left nothing behind: a value
                        # that fits is written as ever, by the same object after the member was put right and by a new one
                        try:
                            v = model.random_value(top, rng, cfg)
                            dm, _ = model.dump(top, v, cfg)
                            d2 = lib.build(T, top, v).dumps()
                            setattr(obj, T.__fields__[i]._name, 0)
                            d3, dz = obj.dumps(), model.dump(top, model.default_value(top, cfg), cfg)[0]
                            ctx.event("writes_after_a_refused_write")
                            if d2 != dm or d3 != dz:
                                ctx.violation("write-inverse", "dump-after-a-refused-write-differs-from-model-dump",
                                              case_detail(case, cfg=cfgd, field=f["name"], bad=bad, value=model.clean(v), got=d2, want=dm, again=d3))
                        except model.ModelUnsupported:
                            pass
                        except Exception as e:  # noqa: BLE001
                            ctx.violation("dump-raises", f"dump-after-a-refused-write-raises:{type(e).__name__}",
                                          case_detail(case, cfg=cfgd, field=f["name"], bad=bad, error=lib.exc_sig(e)))
                        continue
                    ctx.violation("write-inverse", "bit-field-value-outside-its-range-written-instead-of-refused",
                                  case_detail(case, cfg=cfgd, field=f["name"], bits=f["bits"], value=bad, got=d))
        # the byte order is looked up when a value is read or written: switched after the definitions were loaded
        # (and a reader was generated), the units and the side their fields are taken from follow the new one
        other = ">" if cfgd["endian"] == "<" else "<"
        cs.endian = other
        cd = dict(cfgd, endian=other, switched_from=cfgd["endian"])
        cfg2 = engine.mcfg(case, other, cfgd["align"], cfgd["ptr"])
        ctx.cell(f"endian-switched-after-load:{'compiled' if T.__compiled__ else 'interpreted'}")
        for inp in inputs[:1] + inputs[-2:]:
            r, exp = engine.judge_parse(ctx, case, cd, cfg2, T, inp, label="after-endian-switch", sig_prefix="endian-switch:")
            if r[0] == "ok" and exp[0] == "ok" and not model.has_nan(exp[1]) and not (gen.has_leb(top) or gen.has_float(top)):
                try:
                    d = r[1].dumps()
                except Exception as e:  # noqa: BLE001
                    ctx.violation("dump-raises", f"endian-switch:dumps-raises:{type(e).__name__}",
                                  case_detail(case, cfg=cd, data=inp, error=lib.exc_sig(e)))
                    continue
                dm, mask, k1 = model.dump_full(top, exp[1], cfg2)
                if d != dm:
                    diffs = engine.bits_differ(d, dm, bytes([0xFF]) * min(len(d), len(dm)))
                    if not (len(d) == len(dm) and engine.k1_explains(diffs, d, k1)):
                        ctx.violation("write-inverse", "endian-switch:dump-differs-from-model-dump",
                                      case_detail(case, cfg=cd, data=inp, got=d, want=dm))
                ctx.event("endian_switched_parses")


def char_units(ctx, rng, n):
    """char as a bit-field storage type next to uint8 / int8 / uint16 ones: a char unit is one byte of its own, its
    fields are plain integers, both readers agree, default-constructed structures can be dumped.  Own bit-slicing
    reference (packed mode)."""
    sizes = {"uint8": 1, "char": 1, "int8": 1, "uint16": 2}
    for it in range(n):
        fields, rem, prev = [], 0, None
        for j in range(rng.randint(2, 7)):
            st = rng.choice(["uint8", "char", "char", "int8", "uint16"])
            total = sizes[st] * 8
            if st != prev or rem == 0:
                rem = total
            b = rng.randint(1, rem) if rng.random() < 0.7 else rem
            fields.append((f"f{j}", st, b))
            rem -= b
            prev = st
        text = "struct T { " + " ".join(f"{st} {nm} : {b};" for nm, st, b in fields) + " uint8 tail; };"
        for endian in "<>":
            # reference: units in order, each a fresh one when the type changes or the previous one is full
            layout, off, cur = [], 0, None
            for nm, st, b in fields:
                total = sizes[st] * 8
                if cur is None or cur[0] != st or cur[1] == 0:
                    cur = [st, total, off]
                    off += sizes[st]
                used = total - cur[1]
                layout.append((nm, cur[2], sizes[st], used, b))
                cur[1] -= b
            size = off + 1
            data = bytes(rng.randrange(256) for _ in range(size))
            want = {}
            for nm, uo, us, used, b in layout:
                unit = int.from_bytes(data[uo:uo + us], "little" if endian == "<" else "big")
                shift = used if endian == "<" else us * 8 - used - b
                want[nm] = (unit >> shift) & ((1 << b) - 1)
            got = {}
            for compiled in (True, False):
                ctx.evaluation(("char-units", text, endian, compiled, data.hex()))
                ctx.cell(f"char-units:{'compiled' if compiled else 'interpreted'}")
                det = {"text": text, "endian": endian, "compiled": compiled, "data": data.hex(), "workload": "char-units"}
                try:
                    cs = lib.load(text, endian, False, compiled)
                    if len(cs.T) != size:
                        ctx.violation("char-units", "size-differs-from-unit-rule", dict(det, got=len(cs.T), want=size))
                        continue
                    o = cs.T(data)
                    vals = {nm: int(getattr(o, nm)) for nm, *_ in layout}
                    got[compiled] = vals
                    if vals != want or int(o.tail) != data[-1]:
                        ctx.violation("char-units", "values-differ-from-bit-slicing", dict(det, got=vals, want=want))
                        continue
                    full = all(sum(b for _n, uo2, _s, _u, b in layout if uo2 == uo) == us * 8 for _n, uo, us, _u, _b in layout)
                    d = o.dumps()
                    if len(d) != size or (full and d != data):
                        ctx.violation("char-units", "dump-differs-from-input", dict(det, got=d.hex()))
                        continue
                    z = cs.T().dumps()
                    if z != bytes(size):
                        ctx.violation("char-units", "default-dump-is-not-all-zero", dict(det, got=z.hex()))
                        continue
                    ctx.event("char_units_checked")
                except Exception as e:  # noqa: BLE001
                    ctx.violation("char-units", f"char-bit-field-structure-raises:{type(e).__name__}",
                                  dict(det, error=lib.exc_sig(e)))
            if len(got) == 2 and got[True] != got[False]:
                ctx.violation("char-units", "compiled-vs-interpreted", {"text": text, "endian": endian, "data": data.hex(),
                                                                        "workload": "char-units"})


def width_twins(ctx, rng, n):
    """Several structures on ONE cstruct object that differ in nothing but the widths of their bit-fields (same member
    names, storage types and offsets): each is sliced by its own widths, in whatever order they are declared and used,
    by both readers and by the writer."""
    sizes = {"uint8": 1, "uint16": 2, "uint32": 4, "int16": 2, "uint64": 8, "int8": 1}

    def split(total, k):
        cuts = sorted(rng.sample(range(1, total), k - 1)) if k > 1 else []
        return [b - a for a, b in zip([0] + cuts, cuts + [total])]

    for it in range(n):
        st = rng.choice(list(sizes))
        total = sizes[st] * 8
        k = rng.randint(2, min(4, total - 1))
        used = rng.choice([total, total, rng.randint(k, total)])
        comps = []
        for _ in range(40):
            ws = split(used, k)
            if ws not in comps:
                comps.append(ws)
            if len(comps) == 3:
                break
        if len(comps) < 2:
            continue
        lead = rng.random() < 0.5
        texts = []
        for j, ws in enumerate(comps):
            texts.append(f"struct W{j} {{ " + ("uint8 lead; " if lead else "") + " ".join(f"{st} b{i} : {w};" for i, w in enumerate(ws)) + " uint16 tail; };")
        size = (1 if lead else 0) + sizes[st] + 2
        for endian in "<>":
            for compiled in (True, False):
                one_load = rng.random() < 0.5
                det = {"texts": texts, "endian": endian, "compiled": compiled, "one_load": one_load, "workload": "width-twins"}
                ctx.evaluation(("width-twins", tuple(texts), endian, compiled, one_load))
                ctx.cell(f"width-twins:{'compiled' if compiled else 'interpreted'}")
                try:
                    cs = lib.cstruct(endian=endian)
                    if one_load:
                        cs.load("\n".join(texts), compiled=compiled)
                    else:
                        for t in texts:
                            cs.load(t, compiled=compiled)
                    order = list(range(len(comps)))
                    rng.shuffle(order)
                    bad = None
                    for j in order + order:
                        T, ws = getattr(cs, f"W{j}"), comps[j]
                        data = bytes(rng.randrange(256) for _ in range(size))
                        uo = 1 if lead else 0
                        unit = int.from_bytes(data[uo:uo + sizes[st]], "little" if endian == "<" else "big")
                        want, pos = [], 0
                        for w in ws:
                            shift = pos if endian == "<" else total - pos - w
                            want.append((unit >> shift) & ((1 << w) - 1))   # in [0, 2^w) whatever the storage type
                            pos += w
                        o = T(data)
                        got = [int(getattr(o, f"b{i}")) for i in range(len(ws))]
                        if got != want or len(T) != size:
                            bad = ("values", j, data.hex(), got, want)
                            break
                        d = o.dumps()
                        if len(d) != size or (used == total and d != data):
                            bad = ("dump", j, data.hex(), d.hex())
                            break
                        if bool(T.__compiled__) != compiled:
                            bad = ("compiled-flag", j, T.__compiled__)
                            break
                except Exception as e:  # noqa: BLE001
                    ctx.violation("width-twins", f"width-twins-raise:{type(e).__name__}", dict(det, error=lib.exc_sig(e)))
                    continue
                if bad:
                    ctx.violation("width-twins", "structure-sliced-by-the-widths-of-another-one", dict(det, problem=repr(bad)))
                else:
                    ctx.event("width_twins_checked")


def explicit_offset_units(ctx):
    """Bit-field members placed through the API (`add_field(..., bits=, offset=)`).  A member at an explicit offset
    beyond the current unit opens a new unit there -- that is what the layout computes (`len`, member offsets).  With a
    non-bit member in between, readers and writer agree with it.  Directly after a partly used unit of the same type
    they do not (open finding K16): both readers keep slicing the previous unit and the writer merges both members
    into one unit at the new offset."""
    from dissect.cstruct import Field, compiler

    for endian in "<>":
        for compiled in (True, False):
            for st, size in (("uint8", 1), ("uint16", 2)):
                for between in (True, False):
                    off = 5
                    ctx.evaluation(("explicit-offset-units", endian, compiled, st, between))
                    ctx.cell("bit-field-at-an-explicit-offset")
                    det = {"endian": endian, "compiled": compiled, "storage": st, "member_between": between, "workload": "explicit-offset-units"}
                    try:
                        cs = lib.cstruct(endian=endian)
                        T_ = getattr(cs, st)
                        fields = [Field("a", T_, bits=4)] + ([Field("x", cs.uint8)] if between else []) + [Field("b", T_, bits=4, offset=off)]
                        T = cs._make_struct("T", fields)
                        if compiled:
                            T = compiler.compile(T)
                        data = bytes([0x21, 0x43, 0x65, 0x87, 0xA9, 0xCB, 0xED, 0x0F][:off + size])
                        bo = "little" if endian == "<" else "big"
                        u0, u1 = int.from_bytes(data[:size], bo), int.from_bytes(data[off:off + size], bo)
                        first = (lambda u: u & 0xF) if endian == "<" else (lambda u: (u >> (size * 8 - 4)) & 0xF)
                        second = (lambda u: (u >> 4) & 0xF) if endian == "<" else (lambda u: (u >> (size * 8 - 8)) & 0xF)
                        o = T(data)
                        got = (len(T), int(o.a), int(o.b))
                        want = (off + size, first(u0), first(u1))
                        d = T(a=1, b=2).dumps()
                        back = T(d) if len(d) == len(T) else None
                        inverse = back is not None and (int(back.a), int(back.b)) == (1, 2)
                    except Exception as e:  # noqa: BLE001
                        ctx.violation("explicit-offset", f"explicit-offset-bit-field-raises:{type(e).__name__}", dict(det, error=lib.exc_sig(e)))
                        continue
                    if got == want and inverse:
                        ctx.event("explicit_offset_units_checked")
                        continue
                    continued = (not between) and got == (off + size, first(u0), second(u0))
                    sig = "K16:bit-field-at-an-explicit-offset-continues-the-previous-unit" if continued else \
                        "bit-field-at-an-explicit-offset:readers-or-writer-disagree-with-the-layout"
                    ctx.violation("explicit-offset", sig, dict(det, got=got, want=want, dump=d.hex(), inverse=inverse))


def single_and_enum_forms(ctx, rng, n):
    """(a) A structure whose only member is a bit-field, for every storage type: every input kind gives the same,
    in-range value, the default-constructed structure equals the parse of zero bytes and dumps as zeros.
    (b) An enum or flag as the storage type of a bit-field behaves like its underlying type wherever the structure is
    read or written (aligned and packed, any stream position): same values, same bytes, same positions."""
    import io

    sizes = {"uint8": 1, "int8": 1, "char": 1, "uint16": 2, "int16": 2, "uint32": 4, "uint64": 8, "E8": 1, "F16": 2}
    pre = "enum E8 : uint8 { A = 1, B = 2 };\nflag F16 : uint16 { X = 1, Y = 2 };\n"
    for st, size in sizes.items():
        for endian in "<>":
            bits = rng.randint(1, size * 8)
            text = pre + f"struct T {{ {st} a : {bits}; }};"
            raw = bytes(rng.choice([0xFF, 0xA5, 0x80, 0x01, rng.randrange(256)]) for _ in range(size))
            unit = int.from_bytes(raw, "little" if endian == "<" else "big")
            want = unit & ((1 << bits) - 1) if endian == "<" else unit >> (size * 8 - bits)
            for compiled in (True, False):
                ctx.evaluation(("single-bit-field", st, bits, endian, compiled, raw.hex()))
                ctx.cell("single-bit-field-structures")
                det = {"text": text, "endian": endian, "compiled": compiled, "data": raw.hex(), "workload": "single-forms"}
                try:
                    cs = lib.load(text, endian, False, compiled)
                    got = [int(cs.T(raw).a), int(cs.T(bytearray(raw)).a), int(cs.T(memoryview(raw)).a),
                           int(cs.T(io.BytesIO(raw)).a), int(cs.T.reads(raw).a), int(cs.T.read(io.BytesIO(raw)).a)]
                    zero = cs.T(io.BytesIO(bytes(size)))
                    dflt = cs.T()
                    facts = (got, dflt == zero, dflt.dumps(), bool(dflt), len(cs.T))
                    exp = ([want] * 6, True, bytes(size), False, size)
                    if st == "char":
                        # the value of a char bit-field may be handed over as a one-byte string as well
                        asb = cs.T()
                        asb.a = b"\x01"
                        one = 1 if endian == "<" else 1 << (8 - bits)
                        facts += (asb.dumps(),)
                        exp += (bytes([one]),)
                except Exception as e:  # noqa: BLE001
                    ctx.violation("single-forms", f"single-bit-field-structure-raises:{type(e).__name__}",
                                  dict(det, error=lib.exc_sig(e)))
                    continue
                if facts != exp:
                    ctx.violation("single-forms", "single-bit-field-structure-differs-by-input-kind-or-default",
                                  dict(det, got=repr(facts), want=repr(exp)))
                else:
                    ctx.event("single_bit_field_structures_checked")
    bases = {"E8": "uint8", "F16": "uint16"}
    for it in range(n):
        en = rng.choice(list(bases))
        base = bases[en]
        total = sizes[base] * 8
        fields, rem = [], 0
        for j in range(rng.randint(2, 6)):
            if rem == 0:
                rem = total
            b = rng.randint(1, rem)
            fields.append((f"f{j}", rng.random() < 0.5, b))
            rem -= b
        lead = rng.choice(["", "uint8 n; char s[n]; ", "uint32 h; "])
        tail = rng.choice(["uint16 t;", "uint8 t;", "uint32 t;"])

        def render(use_enum):
            return pre + "struct T { " + lead + " ".join(f"{en if (e and use_enum) else base} {nm} : {b};"
                                                         for nm, e, b in fields) + " " + tail + " };"
        data = bytes([2]) + bytes(rng.randrange(256) for _ in range(40))
        for align in (True, False):
            for endian in "<>":
                p, q = rng.choice([0, 1, 3, 5, 16]), rng.choice([0, 1, 2, 7])
                res = []
                for use_enum in (True, False):
                    for compiled in (True, False):
                        ctx.evaluation(("enum-vs-base", render(True), align, endian, compiled, use_enum, p, q))
                        ctx.cell("enum-vs-base-bit-fields")
                        try:
                            cs = lib.load(render(use_enum), endian, align, compiled)
                            fh = io.BytesIO(bytes(p) + data)
                            fh.seek(p)
                            o = cs.T(fh)
                            out = io.BytesIO()
                            out.write(b"\xee" * q)
                            nw = o.write(out)
                            res.append(([int(getattr(o, nm)) for nm, _e, _b in fields] + [int(o.t)], fh.tell() - p,
                                        out.getvalue()[q:].hex(), nw == len(out.getvalue()) - q))
                        except Exception as e:  # noqa: BLE001
                            res.append(lib.exc_sig(e))
                if any(r != res[0] for r in res[1:]) or (isinstance(res[0], tuple) and not res[0][3]):
                    ctx.violation("enum-forms", "enum-bit-fields-differ-from-their-underlying-type",
                                  {"text": render(True), "align": align, "endian": endian, "read_at": p, "written_at": q,
                                   "data": data.hex(), "results(enum c/i, base c/i)": repr(res), "workload": "single-forms"})
                else:
                    ctx.event("enum_vs_base_checked")


def union_bits(ctx, rng):
    """Bit-field members of a union: every member starts a storage unit of its own at the union's start, so it is the
    first `bits` bits of that unit in the endian-defined order; a parsed value lies in [0, 2^bits); an assignment
    writes the member's bits (the rest of its unit as zero) and is seen by the other members; what does not fit is
    refused."""
    for st, size in (("uint8", 1), ("uint16", 2), ("uint32", 4)):
        for endian in "<>":
            b1, b2 = rng.randint(1, size * 8 - 1), rng.randint(1, size * 8 - 1)
            text = f"union U {{ {st} a : {b1}; {st} b : {b2}; }};"
            raw = bytes([0xA5, 0xFF, 0x5A, 0xC3][:size])
            ctx.evaluation(("union-bits", text, endian))
            ctx.cell("union-bit-fields")
            try:
                cs = lib.load(text, endian, False, False)
                u = cs.U(raw)
                a, b = int(u.a), int(u.b)
            except Exception as e:  # noqa: BLE001
                ctx.event("union_bit_fields_rejected")   # refusing them is fine
                continue
            unit = int.from_bytes(raw, "little" if endian == "<" else "big")
            wa = unit & ((1 << b1) - 1) if endian == "<" else unit >> (size * 8 - b1)
            wb = unit & ((1 << b2) - 1) if endian == "<" else unit >> (size * 8 - b2)
            if not (0 <= a < (1 << b1) and 0 <= b < (1 << b2)):
                ctx.violation("union-bits", "bit-field-member-of-a-union-ignores-its-width",
                              {"text": text, "endian": endian, "raw": raw.hex(), "a": a, "b": b, "workload": "union-bits"})
                continue
            if (a, b) != (wa, wb):
                ctx.violation("union-bits", "bit-field-member-of-a-union-is-not-the-first-bits-of-its-unit",
                              {"text": text, "endian": endian, "raw": raw.hex(), "got": [a, b], "want": [wa, wb],
                               "workload": "union-bits"})
                continue
            try:
                nv = ((1 << b1) - 1) ^ (wa & 1)          # differs from the parsed value in its lowest bit at least
                u.a = nv
                bo = "little" if endian == "<" else "big"
                mask_a = (1 << b1) - 1 if endian == "<" else ((1 << b1) - 1) << (size * 8 - b1)
                image = nv if endian == "<" else nv << (size * 8 - b1)
                # the bits of the unit that are not a's stay as they are: b is a view of the same bytes
                new_unit = (unit & ~mask_a) | image
                wb2 = new_unit & ((1 << b2) - 1) if endian == "<" else new_unit >> (size * 8 - b2)
                # (dumping writes the first member only -- K1 -- so the dump is a's bits alone or the whole unit)
                ok = int(u.a) == nv and int(u.b) == wb2 and u._buf == new_unit.to_bytes(size, bo) and \
                    u.dumps() in (image.to_bytes(size, bo), new_unit.to_bytes(size, bo))
                # writing only writes: the same bytes onto a stream that holds other bytes already, inside a structure,
                # and to an output that cannot be read (a file opened "wb")
                import io as _io

                d_ = u.dumps()
                pre = _io.BytesIO(b"\xff" * (size + 2))
                n_ = u.write(pre)

                class _Sink:
                    def __init__(self):
                        self.b = _io.BytesIO()

                    def write(self, x):
                        return self.b.write(x)

                    def tell(self):
                        return self.b.tell()

                sink = _Sink()
                u.write(sink)
                if pre.getvalue()[:size] != d_ or n_ != size or sink.b.getvalue() != d_:
                    ctx.violation("union-bits", "union-write-through-a-bit-field-member-depends-on-the-output-stream",
                                  {"text": text, "endian": endian, "dump": d_.hex(), "over_ff_bytes": pre.getvalue().hex(),
                                   "to_write_only_sink": sink.b.getvalue().hex(), "workload": "union-bits"})
                    continue
                ctx.event("union_bit_field_writes_to_sinks")
                try:
                    u.a = 1 << b1
                    ok = False
                except Exception:  # noqa: BLE001
                    ok = ok and int(u.a) == nv
            except Exception as e:  # noqa: BLE001
                ctx.violation("union-bits", f"bit-field-member-assignment-raises:{type(e).__name__}",
                              {"text": text, "endian": endian, "error": lib.exc_sig(e), "workload": "union-bits"})
                continue
            if not ok:
                ctx.violation("union-bits", "bit-field-member-assignment-not-coherent",
                              {"text": text, "endian": endian, "raw": raw.hex(), "a": int(u.a), "b": int(u.b),
                               "dump": u.dumps().hex(), "workload": "union-bits"})
            else:
                ctx.event("union_bit_fields_in_range")


def run(ctx):
    mon = BitMonitor(ctx)
    mon.install()
    try:
        exhaustive(ctx)
        straddles(ctx, ctx.rng("straddle"), 12 if not ctx.thorough else 150)
        char_units(ctx, ctx.rng("char-units"), 10 if not ctx.thorough else 200)
        if ctx.shard == 0:
            union_bits(ctx, ctx.rng("union-bits"))
            explicit_offset_units(ctx)
        if ctx.shard % 4 == 1:
            width_twins(ctx, ctx.rng("width-twins"), 10 if not ctx.thorough else 150)
        if ctx.shard % 4 == 2:
            single_and_enum_forms(ctx, ctx.rng("single-forms"), 6 if not ctx.thorough else 120)
        if ctx.shard % 4 == 3:
            # units placed at run time (behind a variable-size member), exactly filled units followed by a unit of the
            # same type, storage types whose size is not their alignment
            r2 = ctx.rng("runtime-units")
            for _ in range(8 if not ctx.thorough else 80):
                ctx.cell("bit-field-units-placed-at-run-time")
                check_case(ctx, gen.runtime_placed_units_case(r2), r2)
        for i in range(N_CASES[ctx.tier]):
            if ctx.out_of_time():
                break
            rng = ctx.rng("case", i)
            case = engine.make_case(rng, **gen_opts(rng, ctx.thorough))
            if not gen.has_bits(case["top"]):
                continue
            for t in case["feats"]:
                ctx.cell("feat:" + t)
            check_case(ctx, case, rng)
            if i < 2:
                ctx.sample({"text": case["text"], "feats": case["feats"]})
    finally:
        mon.uninstall()


def replay(ctx, detail):
    if detail.get("workload") == "union-bits":
        import random
        union_bits(ctx, random.Random(0))
        return
    if detail.get("workload") == "explicit-offset-units":
        print(detail)
        explicit_offset_units(ctx)
        return
    if detail.get("workload") == "width-twins":
        print(detail)
        width_twins(ctx, ctx.rng("width-twins"), 150)
        return
    if detail.get("workload") == "single-forms":
        print(detail)
        import random
        single_and_enum_forms(ctx, random.Random(0), 120)
        return
    if detail.get("workload") == "char-units":
        print(detail)
        import random
        char_units(ctx, random.Random(0), 200)
        return
    if "text" not in detail:
        print("BitBuffer monitor event:", detail)
        ctx.violation("bitbuffer", "replayed-from-record", detail)
        return
    case = engine.case_from_detail(detail)
    cfgd = detail["cfg"]
    print("definition:\n" + case["text"])
    print("config:", cfgd)
    mon = BitMonitor(ctx)
    mon.install()
    try:
        cs, err = engine.load_cfg(ctx, case, cfgd)
        if cs is None:
            print("load error:", repr(err))
            try:
                model.layout(case["top"], engine.mcfg(case, cfgd["endian"], cfgd["align"], cfgd["ptr"]))
                ctx.violation("load", "load-fails", detail)
            except model.ModelReject:
                print("(model rejects as well)")
            return
        if "data" not in detail:
            try:
                model.layout(case["top"], engine.mcfg(case, cfgd["endian"], cfgd["align"], cfgd["ptr"]))
            except model.ModelReject:
                ctx.violation("straddle", "straddling-bit-field-accepted", detail)
            return
        inp = engine.unhex(detail["data"])
        cfg = engine.mcfg(case, cfgd["endian"], cfgd["align"], cfgd["ptr"])
        if cfgd.get("switched_from"):
            cs, err = engine.load_cfg(ctx, case, dict(cfgd, endian=cfgd["switched_from"]))
            cs.endian = cfgd["endian"]
            print("(byte order switched after the load)")
        r, exp = engine.judge_parse(ctx, case, cfgd, cfg, cs.T, inp)
        print("input:", inp.hex())
        print("library:", r[0], r[1])
        print("model  :", exp[0], exp[1])
        if r[0] == "ok" and exp[0] == "ok":
            d = r[1].dumps()
            dm, _ = model.dump(case["top"], exp[1], cfg)
            print("dumps :", d.hex(), "\nmodel :", dm.hex())
            if d != dm:
                ctx.violation("write-inverse", "dump-differs-from-model-dump", detail)
    finally:
        mon.uninstall()
