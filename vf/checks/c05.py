"""C05  Scalar codecs implement the standard encodings under the current endianness."""
from __future__ import annotations

import io
import math
import struct

from .. import engine, gen, lib, model, monitors
from ..engine import case_detail
from ..gen import ALL_INTS, FLOATS, INT_ALIASES, OTHER_ALIASES

ENDIANS = ["<", ">", "!"]
ORDER = {"<": "little", ">": "big", "!": "big"}
FFMT = {"float16": "e", "float": "f", "double": "d"}


def int_values(rng, size, signed, n_random):
    bits = size * 8
    lo, hi = (-(1 << (bits - 1)), (1 << (bits - 1)) - 1) if signed else (0, (1 << bits) - 1)
    vals = {lo, hi, 0, 1, lo + 1, hi - 1, hi // 2, hi // 2 + 1}
    if signed:
        vals |= {-1, -2, lo // 2}
    alt = int.from_bytes(bytes([0xAA, 0x55] * 8)[:size], "big")
    dist = int.from_bytes(bytes(range(1, size + 1)), "big")
    for v in (alt, dist):
        vals.add(v - (1 << bits) if signed and v > hi else v)
    for _ in range(n_random):
        vals.add(rng.randint(lo, hi))
    return sorted(v for v in vals if lo <= v <= hi), lo, hi


def resolve(cs, name):
    return cs.resolve(name)


# ---------------------------------------------------------------------------------------------------
# in-situ codec monitor


class CodecMonitor:
    """Every call of the real scalar codec functions is compared with the standard encoding under the
    endianness that is current on the owning cstruct instance at the time of the call."""

    def __init__(self, ctx):
        self.ctx = ctx
        self.patch = monitors.Patch()

    def viol(self, sig, **kw):
        self.ctx.violation("codec-monitor", sig, kw)

    @staticmethod
    def span(stream, pos):
        if hasattr(stream, "getvalue"):
            return stream.getvalue()[pos:stream.tell()]
        return None

    def install(self):
        from dissect.cstruct.types.int import Int
        from dissect.cstruct.types.leb128 import LEB128
        from dissect.cstruct.types.packed import Packed
        from dissect.cstruct.types.wchar import Wchar

        mon = self

        def pos_before(cls, args, kwargs):
            try:
                return args[0].tell()
            except Exception:  # noqa: BLE001
                return None

        def int_read(cls, args, kwargs, res, exc, pos):
            if exc is not None or pos is None:
                return
            raw = mon.span(args[0], pos)
            if raw is None:
                return
            mon.ctx.event("Int._read")
            want = int.from_bytes(raw, ORDER.get(cls.cs.endian, "little"), signed=cls.signed)
            if len(raw) != cls.size or want != res:
                mon.viol("Int._read", type=cls.__name__, raw=raw.hex(), got=int(res), want=want, endian=cls.cs.endian)

        def int_write(cls, args, kwargs, res, exc, pos):
            if exc is not None or pos is None:
                return
            raw = mon.span(args[0], pos)
            if raw is None:
                return
            mon.ctx.event("Int._write")
            want = int(args[1]).to_bytes(cls.size, ORDER.get(cls.cs.endian, "little"), signed=cls.signed)
            if raw != want:
                mon.viol("Int._write", type=cls.__name__, value=int(args[1]), got=raw.hex(), want=want.hex(),
                         endian=cls.cs.endian)

        def packed_read_array(cls, args, kwargs, res, exc, pos):
            if exc is not None or pos is None:
                return
            raw = mon.span(args[0], pos)
            if raw is None:
                return
            mon.ctx.event("Packed._read_array")
            e = ">" if cls.cs.endian in (">", "!") else "<"
            n = len(raw) // cls.size if cls.size else 0
            want = list(struct.unpack(f"{e}{n}{cls.packchar}", raw[: n * cls.size]))
            got = list(res)
            same = len(got) == len(want) and all(
                (a == b) or (isinstance(a, float) and math.isnan(a) and math.isnan(b)) for a, b in zip(got, want))
            if not same:
                mon.viol("Packed._read_array", type=cls.__name__, raw=raw.hex(), got=repr(got)[:200],
                         want=repr(want)[:200], endian=cls.cs.endian)

        def packed_write(cls, args, kwargs, res, exc, pos):
            if exc is not None or pos is None:
                return
            raw = mon.span(args[0], pos)
            if raw is None:
                return
            mon.ctx.event("Packed._write")
            e = ">" if cls.cs.endian in (">", "!") else "<"
            try:
                want = struct.pack(f"{e}{cls.packchar}", args[1])
            except Exception:  # noqa: BLE001
                return
            if raw != want:
                mon.viol("Packed._write", type=cls.__name__, value=repr(args[1]), got=raw.hex(), want=want.hex(),
                         endian=cls.cs.endian)

        def packed_write_array(cls, args, kwargs, res, exc, pos):
            if exc is not None or pos is None:
                return
            raw = mon.span(args[0], pos)
            if raw is None:
                return
            mon.ctx.event("Packed._write_array")
            e = ">" if cls.cs.endian in (">", "!") else "<"
            try:
                want = struct.pack(f"{e}{len(args[1])}{cls.packchar}", *args[1])
            except Exception:  # noqa: BLE001
                return
            if raw != want:
                mon.viol("Packed._write_array", type=cls.__name__, got=raw.hex(), want=want.hex(), endian=cls.cs.endian)

        def leb_read(cls, args, kwargs, res, exc, pos):
            if exc is not None or pos is None:
                return
            raw = mon.span(args[0], pos)
            if raw is None:
                return
            mon.ctx.event("LEB128._read")
            try:
                want, end = model._leb(raw, 0, cls.signed)
            except model.ModelEOF:
                mon.viol("LEB128._read-consumed-an-unterminated-encoding", raw=raw.hex())
                return
            if want != res or end != len(raw):
                mon.viol("LEB128._read", raw=raw.hex(), got=int(res), want=want, signed=cls.signed)

        def leb_write(cls, args, kwargs, res, exc, pos):
            if exc is not None or pos is None:
                return
            raw = mon.span(args[0], pos)
            if raw is None:
                return
            mon.ctx.event("LEB128._write")
            want = model.enc_leb(int(args[1]), cls.signed)
            if raw != want:
                mon.viol("LEB128._write", value=int(args[1]), got=raw.hex(), want=want.hex(), signed=cls.signed)

        def wchar_read_array(cls, args, kwargs, res, exc, pos):
            if exc is not None or pos is None:
                return
            raw = mon.span(args[0], pos)
            if raw is None:
                return
            mon.ctx.event("Wchar._read_array")
            codec = "utf-16-be" if cls.cs.endian in (">", "!") else "utf-16-le"
            try:
                want = raw.decode(codec)
            except UnicodeDecodeError:
                mon.viol("Wchar._read_array-decoded-invalid-utf16", raw=raw.hex(), endian=cls.cs.endian)
                return
            if want != res:
                mon.viol("Wchar._read_array", raw=raw.hex(), got=repr(res), want=repr(want), endian=cls.cs.endian)

        def wchar_write(cls, args, kwargs, res, exc, pos):
            if exc is not None or pos is None:
                return
            raw = mon.span(args[0], pos)
            if raw is None:
                return
            mon.ctx.event("Wchar._write")
            codec = "utf-16-be" if cls.cs.endian in (">", "!") else "utf-16-le"
            want = str.__str__(args[1]).encode(codec)
            if raw != want:
                mon.viol("Wchar._write", value=repr(args[1]), got=raw.hex(), want=want.hex(), endian=cls.cs.endian)

        W = monitors.wrap_classmethod
        W(self.patch, Int, "_read", pos_before, int_read)
        W(self.patch, Int, "_write", pos_before, int_write)
        W(self.patch, Packed, "_read_array", pos_before, packed_read_array)
        W(self.patch, Packed, "_write", pos_before, packed_write)
        W(self.patch, Packed, "_write_array", pos_before, packed_write_array)
        W(self.patch, LEB128, "_read", pos_before, leb_read)
        W(self.patch, LEB128, "_write", pos_before, leb_write)
        W(self.patch, Wchar, "_read_array", pos_before, wchar_read_array)
        W(self.patch, Wchar, "_write", pos_before, wchar_write)

    def uninstall(self):
        self.patch.restore()


# ---------------------------------------------------------------------------------------------------
# direct API workloads


def ints(ctx, rng):
    names = [(n, n) for n in ALL_INTS] + sorted(INT_ALIASES.items())
    jobs = [(spelled, canon, e) for spelled, canon in names for e in ENDIANS]
    for spelled, canon, e in jobs[ctx.shard::ctx.nshards]:
        size, signed = ALL_INTS[canon]
        cs = lib.cstruct(endian=e)
        try:
            t = resolve(cs, spelled)
        except Exception as ex:  # noqa: BLE001
            ctx.violation("alias", f"alias-does-not-resolve:{type(ex).__name__}", {"name": spelled})
            continue
        ctx.cell(f"int:{canon}:{e}")
        if t.size != size:
            ctx.violation("alias", "alias-has-unexpected-width", {"name": spelled, "got": t.size, "want": size})
            continue
        vals, lo, hi = int_values(rng, size, signed, 24 if not ctx.thorough else 300)
        if size == 1:
            vals = list(range(lo, hi + 1))  # exhaustive for 8-bit types
        for v in vals:
            want = v.to_bytes(size, ORDER[e], signed=signed)
            ctx.evaluation(("int", spelled, e, v))
            try:
                got = t.dumps(v)
                back = t(want + b"\xEE")
                s = io.BytesIO(want + b"\xEE")
                back2 = t.read(s)
            except Exception as ex:  # noqa: BLE001
                ctx.violation("int", f"codec-raises:{type(ex).__name__}", {"type": spelled, "endian": e, "value": v,
                                                                          "error": lib.exc_sig(ex)})
                continue
            if v in (lo, hi):
                ctx.sample({"type": spelled, "canonical": canon, "endian": e, "value": v, "encoding": want.hex()}, limit=2)
            if got != want or int(back) != v or int(back2) != v or s.tell() != size:
                ctx.violation("int", "integer-codec-differs-from-twos-complement",
                              {"type": spelled, "canonical": canon, "endian": e, "value": v, "dumped": got.hex(),
                               "want": want.hex(), "parsed": int(back)})
        # arrays (bulk paths)
        arr = [rng.choice(vals) for _ in range(5)]
        want = b"".join(v.to_bytes(size, ORDER[e], signed=signed) for v in arr)
        ctx.evaluation(("intarr", spelled, e, tuple(arr)))
        try:
            got = t[5].dumps(arr)
            back = [int(x) for x in t[5](want)]
            if got != want or back != arr:
                ctx.violation("int", "integer-array-codec-differs", {"type": spelled, "endian": e, "values": arr,
                                                                     "dumped": got.hex(), "want": want.hex()})
        except Exception as ex:  # noqa: BLE001
            ctx.violation("int", f"array-codec-raises:{type(ex).__name__}", {"type": spelled, "endian": e,
                                                                            "error": lib.exc_sig(ex)})
        # out of range must be rejected
        for bad in (hi + 1, lo - 1):
            ctx.evaluation(("intbad", spelled, e, bad))
            try:
                d = t.dumps(bad)
            except Exception:  # noqa: BLE001
                ctx.event("out_of_range_rejected")
                continue
            ctx.violation("int", "out-of-range-integer-encoded", {"type": spelled, "endian": e, "value": bad,
                                                                  "dumped": d.hex()})


def floats_chars(ctx, rng):
    for e in ENDIANS:
        cs = lib.cstruct(endian=e)
        se = ">" if e in (">", "!") else "<"
        for name, size in FLOATS.items():
            t = resolve(cs, name)
            ctx.cell(f"float:{name}:{e}")
            pool = list(model.FLOAT_POOL) + [rng.uniform(-1e4, 1e4) for _ in range(40)] + [-0.0, float("nan")]
            for v in pool:
                try:
                    want = struct.pack(se + FFMT[name], v)
                except (OverflowError, struct.error):
                    continue
                v2 = struct.unpack(se + FFMT[name], want)[0]
                ctx.evaluation(("float", name, e, want.hex()))
                got = t.dumps(v)
                back = t(want)
                ok = got == want and (back == v2 or (math.isnan(back) and math.isnan(v2)))
                if ok and v2 == 0:
                    ok = math.copysign(1, back) == math.copysign(1, v2)
                if not ok:
                    ctx.violation("float", "float-codec-differs-from-ieee754",
                                  {"type": name, "endian": e, "value": repr(v), "dumped": got.hex(), "want": want.hex()})
            # arrays (their own write path): zeros of both signs alone and among other values, the sign bit survives
            for lst in ([-0.0], [0.0, -0.0], [-0.0, -0.0, -0.0], [0.0, 0.0], [1.5, -0.0], [-0.0, 2.0, 0.0], []):
                want = struct.pack(f"{se}{len(lst)}{FFMT[name]}", *lst)
                ctx.evaluation(("float-array", name, e, want.hex(), len(lst)))
                ctx.cell("float-arrays-with-signed-zeros")
                try:
                    got = t[len(lst)].dumps(lst)
                    back = list(t[len(lst)](want))
                    S = cs._make_struct("FA", [__import__("dissect.cstruct", fromlist=["Field"]).Field("h", cs.uint8),
                                               __import__("dissect.cstruct", fromlist=["Field"]).Field("v", t[len(lst)])])
                    gs = S(h=7, v=list(lst)).dumps()
                except Exception as ex:  # noqa: BLE001
                    ctx.violation("float", f"float-array-raises:{type(ex).__name__}", {"type": name, "endian": e, "values": repr(lst), "error": lib.exc_sig(ex)})
                    continue
                if got != want or gs != b"\x07" + want or [math.copysign(1, x) for x in back] != [math.copysign(1, x) for x in lst] or back != lst:
                    ctx.violation("float", "float-codec-differs-from-ieee754",
                                  {"type": name, "endian": e, "value": repr(lst), "dumped": got.hex(), "want": want.hex(), "in_struct": gs.hex()})
            for _ in range(60 if not ctx.thorough else 2000):
                raw = bytes(rng.randrange(256) for _ in range(size))
                want = struct.unpack(se + FFMT[name], raw)[0]
                back = t(raw)
                ctx.evaluation(("floatraw", name, e, raw.hex()))
                if not (back == want or (math.isnan(back) and math.isnan(want))):
                    ctx.violation("float", "float-decode-differs-from-ieee754",
                                  {"type": name, "endian": e, "raw": raw.hex(), "got": repr(back), "want": repr(want)})
        # char: raw bytes
        for spelled in ["char"] + [a for a, c in OTHER_ALIASES.items() if c == "char"]:
            t = resolve(cs, spelled)
            for b in range(256):
                ctx.evaluation(None)
                if bytes(t(bytes([b]) + b"z"[:0])) != bytes([b]) or t.dumps(bytes([b])) != bytes([b]):
                    ctx.violation("char", "char-not-raw-byte", {"type": spelled, "byte": b})
                # the other accepted spellings of one char (int, one-character str) are that same byte
                try:
                    alt = (t.dumps(b), t.dumps(chr(b)))
                except Exception as ex:  # noqa: BLE001
                    alt = repr(ex)
                if alt != (bytes([b]), bytes([b])):
                    ctx.violation("char", "char-given-as-int-or-str-not-that-byte", {"type": spelled, "byte": b, "got": repr(alt)})
            raw = bytes(rng.randrange(256) for _ in range(9))
            ctx.evaluation(("chararr", spelled, e, raw.hex()))
            if bytes(t[9](raw)) != raw or t[9].dumps(raw) != raw:
                ctx.violation("char", "char-array-not-raw-bytes", {"type": spelled, "raw": raw.hex()})
            raw = bytes(rng.randrange(128, 256) for _ in range(9))
            try:
                alt = t[9].dumps(raw.decode("latin-1"))
            except Exception as ex:  # noqa: BLE001
                alt = repr(ex)
            if alt != raw:
                ctx.violation("char", "char-array-given-as-str-not-one-byte-per-character",
                              {"type": spelled, "raw": raw.hex(), "got": repr(alt)})
            ctx.cell(f"char:{e}")
        # wchar: UTF-16 in the current byte order
        codec = "utf-16-be" if e in (">", "!") else "utf-16-le"
        for spelled in ["wchar"] + [a for a, c in OTHER_ALIASES.items() if c == "wchar"]:
            t = resolve(cs, spelled)
            for ch in model.WCHARS + "\x00":
                want = ch.encode(codec)
                ctx.evaluation(("wchar", spelled, e, ch))
                if str.__str__(t(want)) != ch or t.dumps(ch) != want:
                    ctx.violation("wchar", "wchar-not-utf16-in-current-order", {"type": spelled, "endian": e, "char": ch})
            for _ in range(30):
                s_ = model.rand_wstr(rng, 6, no_nul=False)
                want = s_.encode(codec)
                ctx.evaluation(("wchararr", spelled, e, s_))
                n = len(want) // 2
                if str.__str__(t[n](want)) != s_ or t[n].dumps(s_) != want:
                    ctx.violation("wchar", "wchar-array-not-utf16-in-current-order",
                                  {"type": spelled, "endian": e, "text": s_, "dumped": t[n].dumps(s_).hex(),
                                   "want": want.hex()})
            ctx.cell(f"wchar:{e}")


def leb128(ctx, rng):
    cs = lib.cstruct()
    for name, signed in (("uleb128", False), ("ileb128", True)):
        t = resolve(cs, name)
        ctx.cell(f"leb:{name}")
        # exhaustive: every 1-byte and every 2-byte encoding
        encs = [bytes([b]) for b in range(0x80)] + [bytes([a, b]) for a in range(0x80, 0x100) for b in range(0x80)]
        mine = encs[ctx.shard::ctx.nshards]
        for raw in mine:
            want, end = model._leb(raw, 0, signed)
            s = io.BytesIO(raw + b"\x7f")
            got = t(s)
            ctx.evaluation(None)
            if int(got) != want or s.tell() != len(raw):
                ctx.violation("leb", "leb128-decode-differs", {"type": name, "raw": raw.hex(), "got": int(got),
                                                               "want": want})
        ctx.evaluation(("leb-exhaustive", name, len(mine)))
        # values to +-2^70: minimal canonical encoding, inverse
        vals = set()
        for k in range(0, 71):
            for d in (-1, 0, 1):
                vals.add((1 << k) + d)
        for _ in range(200 if not ctx.thorough else 20000):
            vals.add(rng.randint(0, 1 << rng.choice([7, 14, 21, 28, 35, 56, 63, 64, 70])))
        if signed:
            vals |= {-v for v in vals} | {-v - 1 for v in vals}
        vals = sorted(v for v in vals if signed or v >= 0)
        for v in vals[ctx.shard::ctx.nshards]:
            want = model.enc_leb(v, signed)
            ctx.evaluation(("leb", name, v))
            try:
                got = t.dumps(v)
                back = t(want)
            except Exception as ex:  # noqa: BLE001
                ctx.violation("leb", f"leb128-raises:{type(ex).__name__}", {"type": name, "value": v})
                continue
            if got != want or int(back) != v:
                ctx.violation("leb", "leb128-encoding-not-canonical-or-not-inverse",
                              {"type": name, "value": v, "dumped": got.hex(), "want": want.hex(), "parsed": int(back)})
        if not signed:
            try:
                t.dumps(-1)
                ctx.violation("leb", "negative-uleb128-encoded", {"value": -1})
            except Exception:  # noqa: BLE001
                ctx.event("negative_uleb_rejected")


def endian_switch(ctx, n):
    """Changing cs.endian after definitions were loaded takes effect for all later reads and writes."""
    for i in range(n):
        if ctx.out_of_time():
            break
        rng = ctx.rng("switch", i)
        case = engine.make_case(rng, dyn_unions=False, unions=rng.random() < 0.3)
        top = case["top"]
        for compiled in (True, False):
            for align in (False, True):
                e1, e2 = rng.sample(ENDIANS, 2)
                cfgd = {"endian": e1, "align": align, "compiled": compiled, "ptr": "uint64"}
                cs, err = engine.load_cfg(ctx, case, cfgd)
                if cs is None:
                    continue
                T = cs.T
                for step, e in enumerate((e1, e2, e1)):
                    cs.endian = e
                    cd = dict(cfgd, endian=e, switched_from=e1, step=step)
                    cfg = engine.mcfg(case, e, align, "uint64")
                    try:
                        inp, used, mask, v = engine.model_input(case, cfg, rng)
                    except model.ModelUnsupported:
                        break
                    ctx.cell(f"switch:{'compiled' if T.__compiled__ else 'interpreted'}")
                    ctx.event("endian_switches")
                    r, exp = engine.judge_parse(ctx, case, cd, cfg, T, inp, label=f"after-switch-{step}",
                                                sig_prefix="endian-switch:")
                    if r[0] == "ok" and exp[0] == "ok" and not model.has_nan(exp[1]) and not gen.has_union(top):
                        d = r[1].dumps()
                        dm, _ = model.dump(top, exp[1], cfg)
                        if d != dm and not gen.has_leb(top):
                            ctx.violation("endian-switch", "endian-switch:dump-ignores-new-byte-order",
                                          case_detail(case, cfg=cd, data=inp, got=d, want=dm))


def long_arrays(ctx, rng):
    """Arrays of more entries than any internal block or format cache is likely to hold (just below, at and above 255,
    256, 1024, 4096, 65535): every element of every packed / byte-sliced / float / wchar type is the standard decoding
    of its own bytes, written back unchanged -- direct, counted by a field, and to the end of the stream."""
    import struct as _st

    codes = {"int8": "b", "uint8": "B", "int16": "h", "uint16": "H", "int32": "i", "uint32": "I", "int64": "q", "uint64": "Q",
             "float": "f", "double": "d", "float16": "e"}
    counts = [255, 256, 257, 1023, 1024, 1025, 1500, 2048, 4097, 5000] if not ctx.thorough else \
        [255, 256, 257, 1023, 1024, 1025, 1500, 2047, 2048, 2049, 3000, 4096, 4097, 5000, 9000, 65535, 65537]
    for endian in ("<", ">", "!"):
        cs = lib.cstruct(endian=endian)
        bo = "little" if endian == "<" else "big"
        for name in list(codes) + ["int24", "uint48", "int128", "wchar"]:
            for count in rng.sample(counts, 4 if not ctx.thorough else 8):
                ctx.evaluation(("long-array", endian, name, count))
                ctx.cell("long-arrays")
                T = getattr(cs, name)
                size = T.size
                if name in codes and name not in ("float", "double", "float16"):
                    vals = [rng.randrange(256 ** size) for _ in range(count)]
                    raw = b"".join(v.to_bytes(size, bo) for v in vals)
                    want = list(_st.unpack(("<" if endian == "<" else ">") + f"{count}{codes[name]}", raw))
                elif name in codes:
                    want = [float(rng.randrange(-1000, 1000)) / 4 for _ in range(count)]
                    raw = _st.pack(("<" if endian == "<" else ">") + f"{count}{codes[name]}", *want)
                elif name == "wchar":
                    want = "".join(chr(rng.randrange(0x21, 0xD7FF)) for _ in range(count))
                    raw = want.encode("utf-16-le" if endian == "<" else "utf-16-be")
                else:
                    signed = name.startswith("int")
                    raw = bytes(rng.randrange(256) for _ in range(size * count))
                    want = [int.from_bytes(raw[i * size:(i + 1) * size], bo, signed=signed) for i in range(count)]
                det = {"type": name, "endian": endian, "count": count, "workload": "long-arrays"}
                try:
                    cs2 = cs
                    got = {"direct": T[count](raw + b"\xEE"), "dumps": T[count](raw).dumps() == raw}
                    defn = f"struct L_{name}_{count} {{ uint32 n; {name} a[n]; uint8 t; }};"
                    cs2.load(defn + f"\nstruct E_{name}_{count} {{ {name} a[EOF]; }};", compiled=bool(count % 2))
                    o = getattr(cs2, f"L_{name}_{count}")(count.to_bytes(4, bo) + raw + b"\x7f")
                    got["counted"] = o.a
                    got["tail"] = int(o.t) == 0x7F
                    got["to-end"] = getattr(cs2, f"E_{name}_{count}")(raw).a
                except Exception as e:  # noqa: BLE001
                    ctx.violation("long-array", f"long-array-raises:{type(e).__name__}", dict(det, error=lib.exc_sig(e)))
                    continue
                bad = []
                for k in ("direct", "counted", "to-end"):
                    g = got[k] if name == "wchar" else [x for x in got[k]]
                    if (str.__str__(g) if name == "wchar" else g) != want:
                        first = next((i for i, (a_, b_) in enumerate(zip(g, want)) if a_ != b_), min(len(g), len(want)))
                        bad.append((k, "first differing index", first, "lengths", len(g), len(want)))
                if not got["dumps"]:
                    bad.append(("dumps differs from the input",))
                if not got["tail"]:
                    bad.append(("member behind the array shifted",))
                if bad:
                    ctx.violation("long-array", "element-of-a-long-array-is-not-the-decoding-of-its-own-bytes", dict(det, failing=repr(bad)))
                else:
                    ctx.event("long_arrays_checked")


def run(ctx):
    mon = CodecMonitor(ctx)
    mon.install()
    try:
        rng = ctx.rng("codec")
        ints(ctx, rng)
        if ctx.shard % 4 == 0:
            floats_chars(ctx, rng)
        leb128(ctx, rng)
        endian_switch(ctx, 10 if not ctx.thorough else 200)
        if ctx.shard % 4 == 1:
            long_arrays(ctx, ctx.rng("long-arrays", ctx.shard))
    finally:
        mon.uninstall()
    ctx.sample({"workloads": ["ints x aliases x endians", "floats/char/wchar", "leb128 exhaustive 1-2 byte + values",
                              "endian switch on loaded definitions"]}, limit=4)


def replay(ctx, detail):
    print("record:", {k: v for k, v in detail.items() if k != "ast"})
    mon = CodecMonitor(ctx)
    mon.install()
    try:
        if "ast" in detail:
            case = engine.case_from_detail(detail)
            cfgd = detail["cfg"]
            e0 = cfgd.get("switched_from", cfgd["endian"])
            cs, err = engine.load_cfg(ctx, case, dict(cfgd, endian=e0))
            if cs is None:
                print("load error", err)
                return
            cs.endian = cfgd["endian"]
            cfg = engine.mcfg(case, cfgd["endian"], cfgd["align"], "uint64")
            inp = engine.unhex(detail["data"])
            r, exp = engine.judge_parse(ctx, case, cfgd, cfg, cs.T, inp, sig_prefix="endian-switch:")
            print("library:", r[0], r[1])
            print("model  :", exp[0], exp[1])
            if r[0] == "ok" and exp[0] == "ok":
                d = r[1].dumps()
                dm, _ = model.dump(case["top"], exp[1], cfg)
                print("dumps:", d.hex(), "model:", dm.hex())
                if d != dm:
                    ctx.violation("endian-switch", "endian-switch:dump-ignores-new-byte-order", detail)
        else:
            rng = ctx.rng("codec")
            ints(ctx, rng)
            floats_chars(ctx, rng)
            leb128(ctx, rng)
    finally:
        mon.uninstall()
