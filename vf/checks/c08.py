"""C08  Truncated or failing input never fabricates data (cut-point and read-call fault enumeration)."""
from __future__ import annotations

import io

from .. import engine, gen, lib, model
from ..engine import case_detail, norm_or_err, outcome
from ..streams import FaultyStream, InjectedFault, RecordingStream, SpinWatchdog

N_CASES = {"quick": 28, "thorough": 500}
MAX_CUTS_QUICK = 90


def run_stream(T, stream):
    try:
        with engine.guard():
            obj = T(stream)
    except SpinWatchdog as e:
        return ("spin", e, None)
    except Exception as e:  # noqa: BLE001
        return ("err", e, None)
    return ("ok", obj, stream.position())


def judge_input(ctx, case, cfgd, cfg, T, inp, mask_len_L):
    """inp: accepted input.  mask_len_L = (extent c, last data byte L) from the model, or None when the model cannot
    describe the definition (dynamic unions): then only 'never a different value' and residue are judged."""
    top = case["top"]
    has_eof = gen.has_eof(top)
    base = run_stream(T, RecordingStream(inp))
    if base[0] != "ok":
        ctx.event("baseline_rejected")
        try:
            T(io.BytesIO(inp))
        except Exception:  # noqa: BLE001
            return
        # the input is fine, the library wants something of the stream that the recording stream does not offer: nothing
        # below would be judged -- that must not pass silently
        ctx.violation("baseline", f"input-accepted-from-BytesIO-but-not-from-a-plain-file-like-object:{type(base[1]).__name__}",
                      case_detail(case, cfg=cfgd, data=inp, error=lib.exc_sig(base[1])))
        return
    bval, e = norm_or_err(base[1], top)
    if e:
        ctx.violation("norm", "unexpected-value-kind", case_detail(case, cfg=cfgd, data=inp, error=e))
        return
    c = base[2]
    L = None
    if mask_len_L is not None:
        mc, L = mask_len_L
        if mc != c:
            ctx.event("baseline_extent_differs_from_model")  # judged by C04/C07/C09, not here
            L = None

    def viol(kind, sig, **kw):
        ctx.violation(kind, sig, case_detail(case, cfg=cfgd, data=inp, extent=c, last_data_byte=L, **kw))

    def residue(tag, **kw):
        again = run_stream(T, RecordingStream(inp))
        ctx.event("residue_checks")
        if again[0] != "ok" or norm_or_err(again[1], top)[0] != bval or again[2] != c:
            viol("residue", "later-parse-affected-by-failed-parse", after=tag, **kw)
            return False
        return True

    # 1. every cut point
    cuts = list(range(c))
    limit = MAX_CUTS_QUICK if not ctx.thorough else 600
    if len(cuts) > limit:
        MAXC = limit
        rng = ctx.rng("cuts", case["text"], inp.hex())
        keep = set(rng.sample(cuts, MAXC - 10)) | set(cuts[:5]) | set(cuts[-5:])
        if L is not None:
            keep |= {L, max(0, L - 1), min(c - 1, L + 1)}
        cuts = sorted(keep)
    def plain(data, how):
        # the cut input as the objects a caller has at hand (their length can be asked for, unlike the recording stream's)
        try:
            with engine.guard():
                return ("ok", T(data) if how == "bytes" else T(io.BytesIO(data)) if how == "BytesIO" else T.reads(memoryview(data)), None)
        except Exception as ex:  # noqa: BLE001
            return ("err", ex, None)

    for k in cuts:
        r = run_stream(T, RecordingStream(inp[:k]))
        ctx.evaluation((case["text"], tuple(sorted(cfgd.items())), inp.hex(), "cut", k))
        ctx.event("cut_points")
        if r[0] == "spin":
            viol("spin", "reader-spins-on-empty-reads", cut=k)
            continue
        for how in ("bytes", "BytesIO", "memoryview"):
            r2 = plain(bytes(inp[:k]), how)
            ctx.event("cut_points_plain_inputs")
            if r2[0] == "ok" and not has_eof:
                got2, e2 = norm_or_err(r2[1], top)
                if got2 != bval:
                    viol("fabricated", "different-value-from-cut-input", cut=k, got=got2, full=bval, input_kind=how)
                    break
                if L is not None and k <= L:
                    viol("fabricated", "value-returned-although-data-byte-missing", cut=k, got=got2, input_kind=how)
                    break
            elif r2[0] != r[0] and not has_eof:
                viol("fabricated", "cut-input-accepted-or-refused-depending-on-the-input-kind", cut=k, input_kind=how,
                     recording_stream=r[0], plain=r2[0])
                break
        if r[0] == "ok":
            got, e = norm_or_err(r[1], top)
            if has_eof:
                ctx.event("cut_value_in_eof_array_definition")
                continue
            if got != bval:
                viol("fabricated", "different-value-from-cut-input", cut=k, got=got, full=bval)
            elif L is not None and k <= L:
                viol("fabricated", "value-returned-although-data-byte-missing", cut=k, got=got)
            else:
                ctx.event("cut_same_value_padding_only")
        else:
            if isinstance(r[1], EOFError):
                ctx.event("cut_EOFError")
            else:
                ctx.event(f"cut_other_error:{type(r[1]).__name__}")
                if not has_eof and not isinstance(r[1], (UnicodeDecodeError,)):
                    viol("error-type", f"premature-end-raises-{type(r[1]).__name__}-not-EOFError", cut=k,
                         error=lib.exc_sig(r[1]))
    # 2. a fault at every read call of the fault-free run
    rec = RecordingStream(inp)
    run_stream(T, rec)
    nreads = len(rec.reads())
    failed_once = False
    read_calls = list(range(nreads))
    if nreads > 400:
        # very long inputs: a sample of the read calls (first, last and random ones) instead of all of them
        rs = ctx.rng("reads", case["text"], inp.hex()[:64])
        read_calls = sorted(set(read_calls[:20]) | set(read_calls[-20:]) | set(rs.sample(read_calls, 200)))
        ctx.event("read_calls_sampled")
    for j in read_calls:
        for kind in ("empty", "half", "raise"):
            fs = FaultyStream(inp, 0, j, kind)
            r = run_stream(T, fs)
            if fs.fired is None:
                continue
            ctx.evaluation((case["text"], tuple(sorted(cfgd.items())), inp.hex(), "fault", j, kind))
            ctx.event(f"faults:{kind}")
            if r[0] == "spin":
                viol("spin", "reader-spins-on-empty-reads", fault=(j, kind))
                continue
            if r[0] == "ok":
                got, e = norm_or_err(r[1], top)
                if kind == "raise":
                    viol("swallowed", "stream-exception-swallowed", fault=(j, kind), got=got)
                    continue
                full_n, out_n = fs.fired[2], fs.fired[3]
                if full_n == out_n:
                    ctx.event("fault_without_effect")  # e.g. half of a 1-byte... cannot happen; or read at EOF
                    continue
                if has_eof:
                    ctx.event("fault_value_in_eof_array_definition")
                    continue
                if got != bval:
                    viol("fabricated", "different-value-after-short-read", fault=(j, kind), got=got, full=bval)
                else:
                    # same value: acceptable only if no data-carrying byte was withheld
                    ev = fs.reads()[j] if j < len(fs.reads()) else None
                    if L is not None and ev is not None:
                        start = ev[2] + out_n
                        missing = range(start, ev[2] + full_n)
                        if any(p <= L for p in missing) and c > start:
                            viol("fabricated", "value-returned-although-read-was-short-on-data", fault=(j, kind),
                                 got=got)
                        else:
                            ctx.event("fault_same_value_padding_only")
                    else:
                        ctx.event("fault_same_value_unjudged")
            else:
                if kind == "raise" and not isinstance(r[1], InjectedFault):
                    ctx.event(f"fault_raise_translated:{type(r[1]).__name__}")
                ctx.event("fault_error")
                if not failed_once:
                    failed_once = True
                    residue("fault", fault=(j, kind))
    residue("all")


def check_case(ctx, case, rng):
    top = case["top"]
    dyn_union = gen.has_dynamic_union(top)
    for cfgd in engine.std_configs(rng, ctx.thorough, top):
        cfg = engine.mcfg(case, cfgd["endian"], cfgd["align"], cfgd["ptr"])
        cs, err = engine.load_cfg(ctx, case, cfgd)
        if cs is None:
            ctx.event("load_rejected")
            continue
        T = cs.T
        ctx.cell(f"align:{cfgd['align']}", f"compiled:{bool(T.__compiled__)}")
        if dyn_union:
            ctx.cell("dynamic-union")
            for mode in (2, 3):
                judge_input(ctx, case, cfgd, cfg, T, gen.arbitrary_bytes(rng, 96, mode), None)
            continue
        try:
            inp, used, mask, v = engine.model_input(case, cfg, rng, tail=16)
        except model.ModelUnsupported:
            continue
        judge_input(ctx, case, cfgd, cfg, T, inp, (used, model.last_data_byte(mask)))


def counted_tails(ctx, rng, reps):
    """Structures that *end* in an array counted by an earlier field (nothing behind it would notice missing elements):
    packed, byte-sliced, character and structure elements, one and two dimensions, counts through expressions."""
    from ..gen import F, L_expr, L_fixed, N_array, N_char, N_int, N_struct, N_wchar

    elems = [lambda: N_int("uint32"), lambda: N_int("int24"), lambda: N_char(), lambda: N_wchar(), lambda: N_int("uint8"),
             lambda: N_struct([F("a", N_int("uint8")), F("b", N_int("uint16"))]), lambda: N_array(N_int("uint16"), L_fixed(2))]
    for _ in range(reps):
        for mk in elems:
            expr = rng.choice(["n", "n & 3", "(n & 3) + 1", "n * 2"])
            fields = [F("tag", N_int(rng.choice(["uint8", "uint16"]))), F("n", N_int("uint8"), len_src=True)]
            if rng.random() < 0.4:
                fields.append(F("mid", N_array(N_char(), L_expr("n & 1"))))
            fields.append(F("val", N_array(mk(), L_expr(expr))))
            case = gen.simple_case(fields)
            case["named"] = {}
            ctx.cell("structure-ends-in-a-counted-array")
            check_case(ctx, case, rng)


def eof_elements(ctx, rng, reps):
    """To-end-of-stream arrays of every element kind that is read entry by entry (with an end-of-stream probe before
    each entry): a stream that raises at any read call -- the probes included -- must not be taken for the end."""
    from ..gen import F, L_EOF, L_fixed, N_array, N_int, N_leb, N_ptr, N_struct

    elems = {
        "int24": N_int("int24"), "uint48": N_int("uint48"), "int128": N_int("int128"), "uleb128": N_leb("uleb128"),
        "ileb128": N_leb("ileb128"), "struct": N_struct([F("a", N_int("uint8")), F("b", N_int("uint16"))]),
        "union": N_struct([F("a", N_int("uint8")), F("b", N_int("uint16"))], union=True),
        "ptr": N_ptr(N_int("uint8")), "array": N_array(N_int("uint8"), L_fixed(2)), "uint16": N_int("uint16"),
    }
    for name, elem in elems.items():
        case = gen.simple_case([F("h", N_int("uint8")), F("x", N_array(elem, L_EOF))])
        case["named"] = {}
        for compiled in (True, False):
            for endian in "<>":
                cfgd = {"endian": endian, "align": False, "compiled": compiled, "ptr": "uint16"}
                cfg = engine.mcfg(case, endian, False, "uint16")
                cs, err = engine.load_cfg(ctx, case, cfgd)
                if cs is None:
                    ctx.violation("load", f"load-fails:{type(err).__name__}", case_detail(case, cfg=cfgd, error=repr(err)))
                    continue
                ctx.cell(f"eof-elements:{name}")
                for _ in range(reps):
                    try:
                        inp, used, mask, v = engine.model_input(case, cfg, rng, tail=0)
                    except model.ModelUnsupported:
                        break
                    judge_input(ctx, case, cfgd, cfg, cs.T, inp, (used, model.last_data_byte(mask)))


def single_char_member_at_offset(ctx):
    """A structure / union whose only member is a char array at an explicit offset (API): T(bytes) of every length
    below the declared size raises, also the length that happens to equal the member's size (the constructor has a
    shortcut that takes such a byte string for the member's value)."""
    from dissect.cstruct import Field

    for kind in ("struct", "union"):
        for n, off in ((4, 2), (1, 3), (3, 3)):
            cs = lib.cstruct()
            make = cs._make_struct if kind == "struct" else cs._make_union
            T = make("T", [Field("a", cs.char[n] if n > 1 else cs.char, offset=off)])
            full = bytes(range(0x41, 0x41 + off + n))
            ctx.cell("single-char-member-at-offset")
            for k in range(0, off + n + 1):
                ctx.evaluation(("char-at-offset", kind, n, off, k))
                try:
                    v = bytes(T(full[:k]).a)
                except Exception as e:  # noqa: BLE001
                    v = type(e).__name__
                want = full[off:] if k == off + n else "EOFError"
                if v != want:
                    ctx.violation("fabricated", "value-returned-although-data-byte-missing",
                                  {"kind": kind, "member": f"char[{n}] at offset {off}", "input_length": k, "got": repr(v),
                                   "want": repr(want), "workload": "single-char-member-at-offset"})
                else:
                    ctx.event("char_at_offset_cuts")


def direct_types(ctx, rng, reps):
    """Scalars, enums, arrays and unions parsed directly (not as a structure field): every cut point and a fault at
    every read call."""
    for rep in range(reps):
        for endian in "<>":
            cs = lib.load(engine.DIRECT_TEXT, endian, False, rng.random() < 0.5)
            cfg = model.Cfg(endian, False)
            for name, node, getter in engine.direct_kinds():
                T = getter(cs)
                v = model.random_value(node, rng, cfg)
                raw, mask = model.dump(node, v, cfg)
                want = lib.nan_clean(model.clean(model.parse(node, raw, 0, cfg)[0]))
                ctx.cell("direct-types")

                def run(stream):
                    try:
                        return ("ok", lib.nan_clean(lib.norm(T(stream), node)))
                    except SpinWatchdog:
                        return ("spin", None)
                    except Exception as e:  # noqa: BLE001
                        return ("err", e)

                full = raw + b"\xA5\x5A"
                base = run(RecordingStream(full))
                if base != ("ok", want):
                    ctx.violation("direct", "direct-type-baseline-differs-from-model",
                                  {"type": name, "endian": endian, "raw": raw.hex(), "got": repr(base)[:200],
                                   "want": repr(want)[:200]})
                    continue
                for k in range(len(raw)):
                    ctx.evaluation(("direct-cut", name, endian, raw.hex(), k))
                    for mk in (lambda d: RecordingStream(d), None):
                        r = run(mk(raw[:k])) if mk else None
                        if r is None:
                            try:
                                r = ("ok", lib.nan_clean(lib.norm(T(raw[:k]), node))) if not (
                                    name.startswith("char[8]") and k == 8) else ("err", None)
                            except Exception as e:  # noqa: BLE001
                                r = ("err", e)
                        if r[0] == "ok":
                            ctx.violation("direct", "direct-type-returns-a-value-from-truncated-input",
                                          {"type": name, "endian": endian, "raw": raw.hex(), "cut": k, "got": repr(r[1])[:200]})
                        elif r[0] == "spin":
                            ctx.violation("direct", "direct-type-spins-on-empty-reads", {"type": name, "cut": k})
                        elif r[1] is not None and not isinstance(r[1], EOFError):
                            ctx.violation("direct", f"direct-type-truncation-raises-{type(r[1]).__name__}-not-EOFError",
                                          {"type": name, "endian": endian, "raw": raw.hex(), "cut": k})
                        else:
                            ctx.event("direct_cut_EOFError")
                rec = RecordingStream(full)
                run(rec)
                for j in range(len(rec.reads())):
                    for kind in ("empty", "half", "raise"):
                        fs = FaultyStream(full, 0, j, kind)
                        r = run(fs)
                        if fs.fired is None or (kind != "raise" and fs.fired[2] == fs.fired[3]):
                            continue
                        ctx.evaluation(("direct-fault", name, endian, raw.hex(), j, kind))
                        ctx.event(f"direct_faults:{kind}")
                        if r[0] == "ok" and (kind == "raise" or r[1] != want):
                            ctx.violation("direct", "direct-type-fabricates-or-swallows-under-fault",
                                          {"type": name, "endian": endian, "raw": raw.hex(), "fault": (j, kind),
                                           "got": repr(r[1])[:200], "want": repr(want)[:200]})
                        elif r[0] == "ok":
                            ev = fs.reads()[j]
                            start = ev[2] + fs.fired[3]
                            if any(mask[p] for p in range(start, min(len(mask), ev[2] + fs.fired[2]))):
                                ctx.violation("direct", "direct-type-value-although-read-was-short-on-data",
                                              {"type": name, "endian": endian, "raw": raw.hex(), "fault": (j, kind)})
                if run(RecordingStream(full)) != ("ok", want):
                    ctx.violation("direct", "direct-type-residue-after-failures", {"type": name, "endian": endian})


def long_encodings(ctx, rng, reps):
    """Values whose encoding is long: LEB128 numbers of 1 to 40 bytes (far beyond 128 bits) and arrays of 129 to 1000
    packed / byte-sliced entries, directly and in structures (fixed and data-supplied counts, last member or not):
    every prefix (LEB128) / every kind of cut (entry boundaries, inside an entry, the header) must raise EOFError, the
    full input gives the value, and a read call that delivers half (an entry-aligned half) or nothing or raises never
    yields a value.  The expected values come from an own encoder / int.from_bytes."""
    import io
    import struct as pystruct

    def uleb(v):
        out = bytearray()
        while True:
            b = v & 0x7F
            v >>= 7
            out.append(b | (0x80 if v else 0))
            if not v:
                return bytes(out)

    def sleb(v):
        out = bytearray()
        while True:
            b = v & 0x7F
            v >>= 7
            done = (v == 0 and not b & 0x40) or (v == -1 and b & 0x40)
            out.append(b | (0 if done else 0x80))
            if done:
                return bytes(out)

    def attempt(fn):
        try:
            return ("ok", fn())
        except SpinWatchdog:
            return ("spin", None)
        except Exception as e:  # noqa: BLE001
            return ("err", e)

    def judge_cut(det, r, what):
        if r[0] == "ok":
            ctx.violation("long", f"{what}:value-returned-from-truncated-input", dict(det, got=repr(r[1])[:160]))
        elif r[0] == "spin":
            ctx.violation("long", f"{what}:spins-on-empty-reads", det)
        elif not isinstance(r[1], EOFError):
            ctx.violation("long", f"{what}:truncation-raises-{type(r[1]).__name__}-not-EOFError", det)
        else:
            ctx.event("long_cut_EOFError")

    for rep in range(reps):
        endian = rng.choice("<>")
        compiled = rng.random() < 0.5
        cs = lib.load("struct SU { uleb128 v; uint8 t; };\nstruct SI { uint8 h; ileb128 v; };", endian, False, compiled)
        # (a) LEB128 of every length
        for L in list(range(1, 41)) if (ctx.thorough or rep == 0) else rng.sample(range(1, 41), 12):
            for signed in (False, True):
                mag = rng.randrange(1 << (7 * (L - 1)), 1 << (7 * L)) if L > 1 else rng.randrange(0, 128)
                if signed:
                    v = rng.choice([mag >> 1, -(mag >> 1) - 1]) if L > 1 else rng.randrange(-64, 64)
                    raw, T, S, pre = sleb(v), cs.ileb128, cs.SI, b"\x07"
                else:
                    v, T, S, pre = mag, cs.uleb128, cs.SU, b""
                    raw = uleb(v)
                ctx.cell("long-leb128" if len(raw) >= 19 else "short-leb128")
                det = {"workload": "long-encodings", "type": T.__name__, "value": str(v), "raw": raw.hex(), "endian": endian}
                ctx.evaluation(("long-leb", T.__name__, raw.hex()))
                full = attempt(lambda: int(T(raw + b"\xA5")))
                sfull = attempt(lambda: int(S(pre + raw + b"\x2A\xA5").v))
                if full != ("ok", v) or sfull != ("ok", v):
                    ctx.violation("long", "leb128:complete-input-not-decoded", dict(det, got=repr((full, sfull))[:200]))
                    continue
                for k in range(len(raw)):
                    cut = raw[:k]
                    for form, fn in (("bytes", lambda: T(cut)), ("stream", lambda: T(io.BytesIO(cut))),
                                     ("recording", lambda: T(RecordingStream(cut))), ("field", lambda: S(pre + cut))):
                        ctx.evaluation(("long-leb-cut", T.__name__, raw.hex(), k, form))
                        judge_cut(dict(det, cut=k, form=form), attempt(fn), "leb128")
                rec = RecordingStream(raw + b"\xA5")
                T(rec)
                for j in range(len(rec.reads())):
                    for kind in ("empty", "raise"):
                        fs = FaultyStream(raw + b"\xA5", 0, j, kind)
                        r = attempt(lambda: int(T(fs)))
                        ctx.evaluation(("long-leb-fault", T.__name__, raw.hex(), j, kind))
                        if r[0] == "ok":
                            ctx.violation("long", "leb128:value-although-a-read-call-failed", dict(det, fault=(j, kind), got=str(r[1])))
                        else:
                            ctx.event(f"long_faults:{kind}")
        # (b) long arrays
        elems = {"uint8": (1, "B"), "int8": (1, "b"), "uint16": (2, "H"), "uint32": (4, "I"), "uint64": (8, "Q"), "double": (8, "d"),
                 "int24": (3, None), "int16": (2, "h")}
        for et in (list(elems) if (ctx.thorough or rep == 0) else rng.sample(list(elems), 3)):
            size, ch = elems[et]
            for n in rng.sample([129, 130, 200, 255, 256, 257, 512, 1000], 2 if not ctx.thorough else 5):
                if ch == "d":
                    vals = [float(rng.randrange(-1000, 1000)) / 4 for _ in range(n)]
                    body = pystruct.pack(f"{endian}{n}d", *vals)
                else:
                    sg = et.startswith("int")
                    vals = [rng.randrange(-(1 << (size * 8 - 1)), 1 << (size * 8 - 1)) if sg else rng.randrange(1 << (size * 8)) for _ in range(n)]
                    body = b"".join(x.to_bytes(size, "little" if endian == "<" else "big", signed=sg) for x in vals)
                hdr = n.to_bytes(2, "little" if endian == "<" else "big")
                crc = bytes([0xC1, 0xC2, 0xC3, 0xC4])
                cl = lib.load(f"struct FX {{ {et} v[{n}]; }};\nstruct CT {{ uint16 n; {et} v[n]; }};\n"
                              f"struct CM {{ uint16 n; {et} v[n]; char crc[4]; }};\nstruct C2 {{ uint16 n; {et} v[n / 2][2]; }};",
                              endian, False, compiled)
                forms = [("direct", getattr(cl, et)[n], body, lambda o: list(o), 0),
                         ("fixed-member", cl.FX, body, lambda o: list(o.v), 0),
                         ("counted-tail", cl.CT, hdr + body, lambda o: list(o.v), 2),
                         ("counted-middle", cl.CM, hdr + body + crc, lambda o: list(o.v) + [o.crc], 2)]
                if n % 2 == 0:
                    forms.append(("counted-rows", cl.C2, hdr + body, lambda o: [x for row in o.v for x in row], 2))
                for form, T, data, get, h in forms:
                    want = vals + ([crc] if form == "counted-middle" else [])
                    det = {"workload": "long-encodings", "type": f"{et}[{n}]", "form": form, "endian": endian, "compiled": compiled}
                    ctx.cell(f"long-array:{form}")
                    ctx.evaluation(("long-array", et, n, form, endian, compiled))
                    base = attempt(lambda: get(T(data + b"\xA5\x5A")))
                    if base != ("ok", want):
                        ctx.violation("long", "long-array:complete-input-not-read", dict(det, got=repr(base)[:200]))
                        continue
                    end = len(data)
                    cuts = {0, 1, h, h + size, h + 64 * size, h + 127 * size, h + 128 * size, h + 129 * size, h + (n // 2) * size,
                            h + (n - 1) * size, h + (n - 1) * size + max(1, size - 1), end - 1, h + 128 * size + 1, h + size * n}
                    for k in sorted(c for c in cuts if 0 <= c < end):
                        cut = data[:k]
                        for kind, fn in (("bytes", lambda: get(T(cut))), ("stream", lambda: get(T(io.BytesIO(cut)))),
                                         ("recording", lambda: get(T(RecordingStream(cut))))):
                            ctx.evaluation(("long-array-cut", et, n, form, endian, compiled, k, kind))
                            judge_cut(dict(det, cut=k, of=end, input=kind), attempt(fn), "long-array")
                    rec = RecordingStream(data + b"\xA5\x5A")
                    T(rec)
                    for j in range(min(len(rec.reads()), 6)):
                        for kind in ("empty", "half", "raise"):
                            fs = FaultyStream(data + b"\xA5\x5A", 0, j, kind)
                            r = attempt(lambda: get(T(fs)))
                            if fs.fired is None or (kind != "raise" and fs.fired[2] == fs.fired[3]):
                                continue
                            ctx.evaluation(("long-array-fault", et, n, form, endian, compiled, j, kind))
                            ctx.event(f"long_faults:{kind}")
                            if r[0] == "ok":
                                ctx.violation("long", "long-array:value-although-a-read-call-was-short-or-failed",
                                              dict(det, fault=(j, kind), fired=repr(fs.fired), got=repr(r[1])[:120]))
                    if attempt(lambda: get(T(data))) != ("ok", want):
                        ctx.violation("long", "long-array:residue-after-failures", det)


def failed_dereferences(ctx):
    """A pointer whose target is cut off by the end of the stream: dereferencing raises, and the failure leaves the
    stream where it was -- the next record parsed from the same stream is the one a run without the failed dereference
    parses, and a later dereference of a good pointer works."""
    import io

    text = "struct rec { uint8 tag; uint32 *far; uint16 *near; uint8 t; };\nstruct big { uint8 tag; rec *r; uint8 t; };"
    for compiled in (True, False):
        for endian in "<>":
            bo = "little" if endian == "<" else "big"
            ctx.evaluation(("failed-dereference", compiled, endian))
            ctx.cell("failed-dereference-then-next-record")
            det = {"text": text, "compiled": compiled, "endian": endian, "workload": "failed-dereference"}
            try:
                cs = lib.load(text, endian, False, compiled, "uint8")
                # two records back to back, then a uint16 target; `far` of the first points at the last two bytes (cut off)
                total = 8 + 2 + 2
                recs = bytes([1, total - 2, 8, 0x11]) + bytes([2, total - 2, 8, 0x22]) + (0xBEEF).to_bytes(2, bo) + b"\x01\x02"
                outcomes = []
                for fail_first in (True, False):
                    st = io.BytesIO(recs)
                    a = cs.rec(st)
                    pos = st.tell()
                    err = None
                    if fail_first:
                        try:
                            a.far.dereference()
                        except Exception as e:  # noqa: BLE001
                            err = type(e).__name__
                    after = st.tell()
                    b = cs.rec(st)
                    outcomes.append((err, pos, after, int(b.tag), int(b.t), int(b.near.dereference()), int(a.near.dereference()), st.tell()))
                want = (4, 4, 2, 0x22, 0xBEEF, 0xBEEF, 8)
            except Exception as e:  # noqa: BLE001
                ctx.violation("residue", f"failed-dereference-workload-raises:{type(e).__name__}", dict(det, error=lib.exc_sig(e)))
                continue
            if outcomes[0][0] is None:
                ctx.violation("fabricated", "dereference-of-a-cut-off-target-returns-a-value", dict(det, outcomes=repr(outcomes)))
            elif outcomes[0][1:] != want or outcomes[1][1:] != want:
                ctx.violation("residue", "failed-dereference-changes-what-is-parsed-next", dict(det, outcomes=repr(outcomes), want=repr(want)))
            else:
                ctx.event("failed_dereferences_checked")


def gen_opts(rng, thorough):
    o = dict(dyn_unions=rng.random() < 0.3, max_len=3)
    if thorough:
        o.update(max_fields=rng.choice([6, 9]), max_depth=3)
    return o


def run(ctx):
    if ctx.shard % 8 == 5:
        direct_types(ctx, ctx.rng("direct"), 2 if not ctx.thorough else 30)
    if ctx.shard % 8 == 3:
        eof_elements(ctx, ctx.rng("eof-elements"), 2 if not ctx.thorough else 20)
    if ctx.shard == 4:
        single_char_member_at_offset(ctx)
        failed_dereferences(ctx)
    if ctx.shard % 8 == 7:
        long_encodings(ctx, ctx.rng("long-encodings"), 1 if not ctx.thorough else 6)
    if ctx.shard % 8 == 6:
        counted_tails(ctx, ctx.rng("counted-tails"), 2 if not ctx.thorough else 20)
    for i in range(N_CASES[ctx.tier]):
        if ctx.out_of_time():
            break
        rng = ctx.rng("case", i)
        case = engine.make_case(rng, **gen_opts(rng, ctx.thorough))
        for t in case["feats"]:
            ctx.cell("feat:" + t)
        check_case(ctx, case, rng)
        if i < 2:
            ctx.sample({"text": case["text"], "feats": case["feats"]})


def replay(ctx, detail):
    if detail.get("workload") == "failed-dereference":
        print(detail)
        failed_dereferences(ctx)
        return
    if detail.get("workload") == "long-encodings":
        print(detail)
        long_encodings(ctx, ctx.rng("long-encodings"), 2)
        return
    if detail.get("workload") == "single-char-member-at-offset":
        print(detail)
        single_char_member_at_offset(ctx)
        return
    case = engine.case_from_detail(detail)
    cfgd = detail["cfg"]
    print("definition:\n" + case["text"])
    print("config:", cfgd)
    cs, err = engine.load_cfg(ctx, case, cfgd)
    if cs is None:
        print("load error:", repr(err))
        return
    inp = engine.unhex(detail["data"])
    cfg = engine.mcfg(case, cfgd["endian"], cfgd["align"], cfgd["ptr"])
    print("input:", inp.hex(), "extent", detail.get("extent"), "last data byte", detail.get("last_data_byte"))
    if "cut" in detail:
        print("cut at", detail["cut"], "->", run_stream(cs.T, RecordingStream(inp[:detail["cut"]]))[:2])
    if "fault" in detail:
        j, kind = detail["fault"]
        print("fault", j, kind, "->", run_stream(cs.T, FaultyStream(inp, 0, j, kind))[:2])
    print("full  ->", run_stream(cs.T, RecordingStream(inp))[:2])
    ml = None
    if detail.get("last_data_byte") is not None:
        ml = (detail["extent"], detail["last_data_byte"])
    judge_input(ctx, case, cfgd, cfg, cs.T, inp, ml)
