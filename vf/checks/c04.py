"""C04  Structure layout follows C rules; declared size = bytes read = bytes written."""
from __future__ import annotations

import ctypes

from .. import engine, gen, lib, model
from ..engine import case_detail, outcome

N_CASES = {"quick": 160, "thorough": 2500}

CT = {
    "int8": ctypes.c_int8, "uint8": ctypes.c_uint8, "int16": ctypes.c_int16, "uint16": ctypes.c_uint16,
    "int32": ctypes.c_int32, "uint32": ctypes.c_uint32, "int64": ctypes.c_int64, "uint64": ctypes.c_uint64,
    "float": ctypes.c_float, "double": ctypes.c_double, "float16": ctypes.c_uint16,
}


class Unmappable(Exception):
    pass


def to_ctypes(node, cfg, counter):
    k = node["k"]
    if k == "int":
        if node["t"] not in CT:
            raise Unmappable(node["t"])
        return CT[node["t"]]
    if k == "float":
        return CT[node["t"]]
    if k == "char":
        return ctypes.c_uint8
    if k == "wchar":
        return ctypes.c_uint16
    if k == "enum":
        if node["base"] not in CT:
            raise Unmappable(node["base"])
        return CT[node["base"]]
    if k == "ptr":
        if cfg.ptr not in CT:
            raise Unmappable(cfg.ptr)
        return CT[cfg.ptr]
    if k == "array":
        if node["len"]["f"] != "fixed":
            raise Unmappable("dynamic array")
        return to_ctypes(node["elem"], cfg, counter) * max(0, node["len"]["n"])
    if k == "struct":
        fields = []
        for i, f in enumerate(node["fields"]):
            if f.get("bits"):
                raise Unmappable("bit-field")
            fields.append((f["name"] or f"anon{i}", to_ctypes(f["t"], cfg, counter)))
        counter[0] += 1
        ns = {"_fields_": fields}
        if not cfg.align:
            ns["_pack_"] = 1
        return type(f"S{counter[0]}", (ctypes.Union if node["union"] else ctypes.Structure,), ns)
    raise Unmappable(k)


# ---------------------------------------------------------------------------------------------------
# third oracle: a real C compiler (the same declarations are compiled and sizeof/_Alignof/offsetof printed)

C_INT = {"int8": "int8_t", "uint8": "uint8_t", "int16": "int16_t", "uint16": "uint16_t", "int32": "int32_t",
         "uint32": "uint32_t", "int64": "int64_t", "uint64": "uint64_t", "int128": "__int128",
         "uint128": "unsigned __int128", "float": "float", "double": "double", "float16": "uint16_t"}


def to_c(node, cfg, name):
    """C declarator text for a member of this type named `name`."""
    k = node["k"]
    if k == "int":
        if node["t"] not in C_INT:
            raise Unmappable(node["t"])
        return f"{C_INT[node['t']]} {name}"
    if k == "float":
        return f"{C_INT[node['t']]} {name}"
    if k == "char":
        return f"uint8_t {name}"
    if k == "wchar":
        return f"uint16_t {name}"
    if k == "enum":
        if node["base"] not in C_INT:
            raise Unmappable(node["base"])
        return f"{C_INT[node['base']]} {name}"
    if k == "ptr":
        if cfg.ptr not in C_INT:
            raise Unmappable(cfg.ptr)
        return f"{C_INT[cfg.ptr]} {name}"
    if k == "array":
        dims, t = [], node
        while t["k"] == "array":
            if t["len"]["f"] != "fixed":
                raise Unmappable("dynamic array")
            dims.append(max(0, t["len"]["n"]))
            t = t["elem"]
        return to_c(t, cfg, name) + "".join(f"[{d}]" for d in dims)
    if k == "struct":
        return f"{c_struct_body(node, cfg)} {name}"
    raise Unmappable(k)


def c_struct_body(node, cfg):
    members = []
    for i, f in enumerate(node["fields"]):
        if f.get("bits"):
            raise Unmappable("bit-field")
        members.append(to_c(f["t"], cfg, f["name"] or "") + ";")
    attr = "" if cfg.align else " __attribute__((packed))"
    return f"{'union' if node['union'] else 'struct'}{attr} {{ {' '.join(members)} }}"


class CCompilerOracle:
    def __init__(self, ctx):
        self.ctx = ctx
        self.cases = []

    def add(self, case, cfgd, cfg, T):
        top = case["top"]
        try:
            body = c_struct_body(top, cfg)
        except Unmappable:
            return
        names = [f["name"] for f in top["fields"] if f["name"] is not None]
        offs = [lf.offset for nf, lf in zip(top["fields"], T.__fields__) if nf["name"] is not None]
        self.cases.append({"body": body, "names": names, "lib": [len(T), T.alignment if cfgd["align"] else None] + offs,
                           "case": case, "cfgd": cfgd})

    def run(self):
        import os
        import shutil
        import subprocess
        import tempfile

        cc = shutil.which("cc") or shutil.which("gcc") or shutil.which("clang")
        if not self.cases:
            return
        if cc is None:
            self.ctx.event("c_compiler_unavailable")
            return
        src = ["#include <stdio.h>", "#include <stdint.h>", "#include <stddef.h>"]
        main = ["int main(void) {"]
        for i, c in enumerate(self.cases):
            decl = c["body"].replace("{", f"T{i} {{", 1) if False else c["body"]
            kw, rest = decl.split(" ", 1)
            src.append(f"typedef {decl} T{i};")
            fmt = "%d %zu %zu" + " %zu" * len(c["names"])
            args = [str(i), f"sizeof(T{i})", f"_Alignof(T{i})"] + [f"offsetof(T{i}, {n})" for n in c["names"]]
            main.append(f'  printf("{fmt}\\n", {", ".join(args)});')
        main.append("  return 0; }")
        tmp = tempfile.mkdtemp(prefix="vf-c04-")
        try:
            path = os.path.join(tmp, "layout.c")
            with open(path, "w") as fh:
                fh.write("\n".join(src + main) + "\n")
            r = subprocess.run([cc, "-std=gnu11", "-O0", "-w", path, "-o", os.path.join(tmp, "layout")],
                               capture_output=True, text=True, timeout=300)
            if r.returncode != 0:
                self.ctx.event("c_compiler_rejected_batch")
                self.ctx.extra["c_compiler_error"] = r.stderr[-400:]
                return
            out = subprocess.run([os.path.join(tmp, "layout")], capture_output=True, text=True, timeout=60).stdout
        finally:
            shutil.rmtree(tmp, ignore_errors=True)
        for line in out.splitlines():
            vals = [int(x) for x in line.split()]
            c = self.cases[vals[0]]
            want = vals[1:]
            got = c["lib"]
            self.ctx.evaluation(("cc", c["case"]["text"], tuple(sorted(c["cfgd"].items()))))
            self.ctx.event("checked_against_c_compiler")
            bad = None
            if got[0] != want[0]:
                bad = ("size", got[0], want[0])
            elif got[1] is not None and got[1] != want[1]:
                bad = ("alignment", got[1], want[1])
            else:
                for n, g, w in zip(c["names"], got[2:], want[2:]):
                    if g != w and not c["case"]["top"]["union"]:
                        bad = (f"offset of {n}", g, w)
                        break
            if bad:
                self.ctx.violation("c-compiler", f"{bad[0].split()[0]}-differs-from-what-the-C-compiler-lays-out",
                                   case_detail(c["case"], cfg=c["cfgd"], what=bad[0], got=bad[1], want=bad[2],
                                               c_declaration=c["body"]))


def gen_opts(rng, thorough):
    o = dict(fixed_only=True, dyn=False, leb=False, eof=False, dyn_unions=False)
    if thorough:
        o.update(max_fields=rng.choice([6, 9, 12]), max_depth=3, max_len=rng.choice([4, 9]))
    if rng.random() < 0.5:
        o["bits"] = False  # keep a large ctypes-mappable share
    if rng.random() < 0.4:
        o["wide"] = False
    return o


def compare_layout(ctx, case, cfgd, cfg, node, T, viol, path="T"):
    """Model (and ctypes where mappable) vs the library's size / alignment / offsets, recursively."""
    lay = model.layout(node, cfg)
    if len(T) != lay["size"]:
        viol("size", "declared-size-differs-from-model", path=path, got=len(T), want=lay["size"])
        return False
    if cfgd["align"] and T.alignment != lay["alignment"]:
        viol("alignment", "alignment-differs-from-model", path=path, got=T.alignment, want=lay["alignment"])
        return False
    ctx.cell(f"alignclass:{lay['alignment']}")
    ok = True
    for i, (nf, lf) in enumerate(zip(node["fields"], T.__fields__)):
        if nf.get("bits"):
            continue
        if lf.offset != lay["offsets"][i] and not node["union"]:
            viol("offset", "field-offset-differs-from-model", path=f"{path}.{nf['name']}", got=lf.offset,
                 want=lay["offsets"][i])
            ok = False
        t, lt = nf["t"], lf.type
        while t["k"] == "array":
            t, lt = t["elem"], lt.type
        if t["k"] == "struct":
            ok = compare_layout(ctx, case, cfgd, cfg, t, lt, viol, f"{path}.{nf['name'] or '#%d' % i}") and ok
    return ok


def compare_ctypes(ctx, case, cfgd, cfg, node, T, viol):
    try:
        ct = to_ctypes(node, cfg, [0])
    except Unmappable:
        ctx.event("model_only")
        return
    ctx.event("checked_against_ctypes")

    def rec(ct, T, path):
        if ctypes.sizeof(ct) != len(T):
            viol("c-abi", "size-differs-from-C-compiler-layout", path=path, got=len(T), want=ctypes.sizeof(ct))
            return
        if cfgd["align"] and ctypes.alignment(ct) != T.alignment:
            viol("c-abi", "alignment-differs-from-C-compiler-layout", path=path, got=T.alignment,
                 want=ctypes.alignment(ct))
        for (name, ft), lf in zip(ct._fields_, T.__fields__):
            off = getattr(ct, name).offset
            if not issubclass(T, lib.Union) and lf.offset != off:
                viol("c-abi", "offset-differs-from-C-compiler-layout", path=f"{path}.{name}", got=lf.offset, want=off)
            lt = lf.type
            while hasattr(ft, "_type_") and hasattr(ft, "_length_"):
                ft, lt = ft._type_, lt.type
            if hasattr(ft, "_fields_"):
                rec(ft, lt, f"{path}.{name}")

    rec(ct, T, "T")


def check_case(ctx, case, rng, cc=None):
    top = case["top"]
    text = case["text"] + "struct P__ { char pad[sizeof(T)]; uint8 mark; };\n"
    for cfgd in engine.std_configs(rng, ctx.thorough, top):
        cfg = engine.mcfg(case, cfgd["endian"], cfgd["align"], cfgd["ptr"])
        try:
            cs = lib.load(text, cfgd["endian"], cfgd["align"], cfgd["compiled"], cfgd["ptr"])
        except Exception as e:  # noqa: BLE001
            try:
                model.layout(top, cfg)
                ctx.violation("load", f"load-fails:{type(e).__name__}", case_detail(case, cfg=cfgd, error=repr(e)))
            except model.ModelReject:
                ctx.event("rejected_by_both")
            continue
        T = cs.T
        key = (case["text"], tuple(sorted(cfgd.items())))
        ctx.evaluation(key)
        ctx.cell(f"align:{cfgd['align']}", f"ptr:{cfgd['ptr']}", f"compiled:{bool(T.__compiled__)}")

        def viol(kind, sig, **kw):
            ctx.violation(kind, sig, case_detail(case, cfg=cfgd, **kw))

        if T.size is None:
            viol("size", "fixed-size-definition-reported-dynamic")
            continue
        if not compare_layout(ctx, case, cfgd, cfg, top, T, viol):
            continue
        compare_ctypes(ctx, case, cfgd, cfg, top, T, viol)
        if cc is not None and cfgd["compiled"]:
            cc.add(case, cfgd, cfg, T)
        # the four size observations
        n = len(T)
        sizeof_seen = cs.P__.fields["mark"].offset
        if sizeof_seen != n:
            viol("sizeof", "sizeof-in-expression-differs-from-len", got=sizeof_seen, want=n)
        try:
            d0 = T().dumps()
            if len(d0) != n:
                viol("dump-default", "default-dump-length-differs-from-len", got=len(d0), want=n, dump=d0)
        except Exception as e:  # noqa: BLE001
            viol("dump-default", f"default-dump-raises:{type(e).__name__}", error=lib.exc_sig(e))
        try:
            inp, used, mask, v = engine.model_input(case, cfg, rng, tail=0)
        except model.ModelUnsupported:
            continue
        for data, lab in ((inp, "exact"), (inp + bytes(rng.randrange(256) for _ in range(17)), "tail")):
            r = outcome(T, data)
            ctx.evaluation(key + (data.hex(),))
            if r[0] == "err" and isinstance(r[1], UnicodeDecodeError) and engine.expected_parse(case, cfg, data)[0] == "decode":
                # the merged members of a union left a wchar member undecodable (a lone surrogate): not a value (rule 21)
                ctx.event("skipped:generated-input-has-an-undecodable-wchar-in-a-union")
                continue
            if r[0] == "err":
                viol("read", f"reader-raises-on-declared-size-input:{type(r[1]).__name__}", data=data, label=lab,
                     error=lib.exc_sig(r[1]))
                continue
            if r[2] != n:
                viol("read", "bytes-consumed-differ-from-len", data=data, label=lab, got=r[2], want=n)
                continue
            try:
                d = r[1].dumps()
            except Exception as e:  # noqa: BLE001
                viol("dump", f"dump-of-parsed-raises:{type(e).__name__}", data=data, error=lib.exc_sig(e))
                continue
            if len(d) != n:
                viol("dump", "dump-length-differs-from-len", data=data, got=len(d), want=n)
                continue
            # write() reports what it wrote: the instance form, the class form and an array of the structure
            import io as _io
            try:
                out1, out2, out3 = _io.BytesIO(b"\xee" * 16), _io.BytesIO(), _io.BytesIO()
                out1.seek(16)
                counts = (r[1].write(out1), T.write(out2, r[1]), T[2].write(out3, [r[1], r[1]]))
                wrote = (len(out1.getvalue()) - 16, len(out2.getvalue()), len(out3.getvalue()))
            except Exception as e:  # noqa: BLE001
                viol("write", f"write-raises:{type(e).__name__}", data=data, error=lib.exc_sig(e))
                continue
            ctx.event("write_return_values_compared")
            if counts != wrote or wrote != (n, n, 2 * n):
                viol("write", "write-reports-another-number-of-bytes-than-it-wrote", data=data, got=list(counts),
                     wrote=list(wrote), want=[n, n, 2 * n])


def mixed_modes(ctx, n):
    """An aligned structure (its declaration loaded with align=True) used as a member / array element of a packed
    structure, at an offset k that may or may not be a multiple of its alignment.  The packed rule gives the outer
    size (members back to back, the inner one with its own padded size); len, bytes consumed and bytes dumped must
    agree with it, the member after the inner one and every array element sit where the layout says."""
    import io

    for i in range(n):
        rng = ctx.rng("mixed", i)
        case = engine.make_case(rng, fixed_only=True, dyn_unions=False, eof=False, ptrs=False, leb=False, wchar=False,
                                max_fields=rng.choice([2, 3, 5]), max_depth=1)
        if gen.has_eof(case["top"]) or gen.node_dynamic(case["top"]):
            continue
        k = rng.choice([0, 1, 2, 3, 4, 5, 7, 8, 9, 16])
        endian = rng.choice("<>")
        outer = (f"struct outer {{ uint8 lead[{k}]; T body; uint8 next; }};\n"
                 f"struct outer2 {{ uint8 lead[{k}]; T arr[2]; uint8 next; }};\n")
        for compiled in (True, False):
            det = {"text": case["text"], "outer": outer, "k": k, "endian": endian, "compiled": compiled,
                   "workload": "mixed-modes"}
            try:
                cs = lib.cstruct(endian=endian)
                cs.load(case["text"], align=True, compiled=compiled)
                cs.load(outer, compiled=compiled)
            except Exception as e:  # noqa: BLE001
                ctx.violation("mixed-modes", f"load-fails:{type(e).__name__}", dict(det, error=lib.exc_sig(e)))
                continue
            T = cs.T
            L, al = len(T), T.alignment
            if L == 0:
                continue
            aligned_pos = k % al == 0
            ctx.evaluation(("mixed", case["text"], k, endian, compiled))
            ctx.cell("mixed-modes", "mixed-modes:" + ("aligned-offset" if aligned_pos else "unaligned-offset"))
            data = bytes(rng.randrange(1, 256) for _ in range(k + 2 * L + 1 + 16))
            problems = []
            for name, count in (("outer", 1), ("outer2", 2)):
                O = getattr(cs, name)
                want_len = k + count * L + 1
                if len(O) != want_len:
                    problems.append(f"len({name})={len(O)} but members back to back give {want_len}")
                    continue
                st = io.BytesIO(data)
                try:
                    o = O(st)
                    d = o.dumps()
                except Exception as e:  # noqa: BLE001
                    problems.append(f"{name}: {lib.exc_sig(e)}")
                    continue
                if st.tell() != want_len:
                    problems.append(f"{name}: parsing consumed {st.tell()} bytes, len is {want_len}")
                if len(d) != want_len:
                    problems.append(f"{name}: dumps() wrote {len(d)} bytes, len is {want_len}")
                if int(o.next) != data[want_len - 1]:
                    problems.append(f"{name}: member after the aligned structure read from the wrong position")
                if count == 2:
                    try:
                        alone = [T(data[k + j * L:k + (j + 1) * L]) for j in range(2)]
                        if [lib.stable_repr(x) for x in alone] != [lib.stable_repr(x) for x in o.arr]:
                            problems.append(f"{name}: array elements are not at k + j*len(T)")
                    except Exception:  # noqa: BLE001
                        pass
            if not problems:
                ctx.event("mixed_modes_consistent")
                continue
            if aligned_pos:
                ctx.violation("mixed-modes", "aligned-structure-in-packed-structure:size-consumed-dumped-disagree",
                              dict(det, problems=problems))
            else:
                ctx.violation("mixed-modes", "K9:aligned-structure-at-unaligned-position-pads-on-absolute-stream-position",
                              dict(det, problems=problems))


def offset_gaps(ctx, n):
    """Structures built through the API whose fields sit at explicit forward offsets (gaps between the fields), packed
    and aligned: the declared size is the end of the last field (rounded in aligned mode), every field is read from
    and written to its offset, the gaps are written as zeros, and len / consumed / dumped / write() agree."""
    import io

    from dissect.cstruct import Field

    sizes = {"uint8": 1, "uint16": 2, "uint32": 4, "uint64": 8, "int24": 3, "char": 1}
    for it in range(n):
        rng = ctx.rng("offset-gaps", it)
        endian = rng.choice("<>")
        spec, off = [], 0
        for j in range(rng.randint(2, 6)):
            t = rng.choice(list(sizes))
            explicit = None
            if j and rng.random() < 0.5:
                off += rng.choice([1, 2, 3, 5, 8])
                explicit = off
            spec.append((f"f{j}", t, off, explicit))
            off += sizes[t]
        end = off
        for compiled in (True, False):
            ctx.evaluation(("offset-gaps", repr(spec), endian, compiled))
            ctx.cell("explicit-forward-offsets")
            det = {"fields": spec, "endian": endian, "compiled": compiled, "workload": "offset-gaps"}
            try:
                cs = lib.cstruct(endian=endian)
                T = cs._make_struct("T", [Field(nm, getattr(cs, t), offset=ex) for nm, t, _o, ex in spec])
                if compiled:
                    from dissect.cstruct import compiler

                    T = compiler.compile(T)
                data = bytes(rng.randrange(1, 256) for _ in range(end + 9))
                st = io.BytesIO(data)
                o = T(st)
                d = o.dumps()
                out = io.BytesIO()
                wrote = o.write(out)
                bo = "little" if endian == "<" else "big"
                covered = bytearray(end)
                vals_ok = True
                for nm, t, fo, _ex in spec:
                    raw = data[fo:fo + sizes[t]]
                    v = getattr(o, nm)
                    want = raw if t == "char" else int.from_bytes(raw, bo, signed=t.startswith("int"))
                    vals_ok = vals_ok and (bytes(v) if t == "char" else int(v)) == want and d[fo:fo + sizes[t]] == raw
                    covered[fo:fo + sizes[t]] = b"\x01" * sizes[t]
                gaps_zero = all(d[i] == 0 for i in range(min(end, len(d))) if not covered[i])
                facts = (len(T), [f.offset for f in T.__fields__], st.tell(), len(d), wrote, vals_ok, gaps_zero, T(d) == o)
                want = (end, [fo for _n, _t, fo, _e in spec], end, end, end, True, True, True)
            except Exception as e:  # noqa: BLE001
                ctx.violation("offset-gaps", f"structure-with-explicit-offsets-raises:{type(e).__name__}", dict(det, error=lib.exc_sig(e)))
                continue
            if facts != want:
                ctx.violation("offset-gaps", "structure-with-explicit-forward-offsets:size-read-write-disagree",
                              dict(det, got=repr(facts), want=repr(want)))
            else:
                ctx.event("offset_gaps_checked")


def empty_structures(ctx):
    """A structure without members has size 0 and goes anywhere: it changes neither the offsets of its neighbours nor
    the position of the stream."""
    import io

    for align in (False, True):
        for compiled in (True, False):
            text = "struct e {};\nstruct o { uint32 a; e x; uint8 b; };\nstruct p { uint8 n; char s[n]; e x; uint16 t; };"
            ctx.evaluation(("empty-struct", align, compiled))
            ctx.cell("empty-structures")
            det = {"text": text, "align": align, "compiled": compiled, "workload": "empty-structures"}
            try:
                cs = lib.load(text, "<", align, compiled)
                want_o = 8 if align else 5
                fh = io.BytesIO(bytes(range(1, 65)))
                fh.seek(8)
                cs.e(fh)
                pos_e = fh.tell()
                fh.seek(0)
                arr = cs.o[3](fh)
                got = (len(cs.e), len(cs.o), pos_e, fh.tell(), [int(x.a) for x in arr], [int(x.b) for x in arr])
                base = bytes(range(1, 65))
                want = (0, want_o, 8, 3 * want_o, [int.from_bytes(base[i * want_o:i * want_o + 4], "little") for i in range(3)],
                        [base[i * want_o + 4] for i in range(3)])
                o = cs.p(b"\x01x\x00\x07\x00\x00" if align else b"\x01x\x07\x00")
                got += (int(o.t), o.dumps())
                want += (7, b"\x01x\x07\x00" if not align else b"\x01x\x07\x00")
            except Exception as e:  # noqa: BLE001
                ctx.violation("empty-struct", f"empty-structure-raises:{type(e).__name__}", dict(det, error=lib.exc_sig(e)))
                continue
            if got[:6] != want[:6]:
                ctx.violation("empty-struct", "empty-structure-moves-the-stream-or-its-neighbours", dict(det, got=repr(got), want=repr(want)))
            else:
                ctx.event("empty_structures_checked")


def sizeof_of_names(ctx):
    """sizeof(name) inside expressions = len(type) for every way a type can be named: every built-in name and alias
    (also the multi-word ones, which are stored as the *name* of their target), typedef chains, aliases added through
    the API, structures, arrays by typedef."""
    from ..gen import ALL_INTS, FLOATS, INT_ALIASES, OTHER_ALIASES

    sizes = {n: sz for n, (sz, _) in ALL_INTS.items()}
    sizes.update(FLOATS)
    sizes.update({"char": 1, "wchar": 2})
    want = dict(sizes)
    want.update({a: sizes[t] for a, t in INT_ALIASES.items()})
    want.update({a: sizes[t] for a, t in OTHER_ALIASES.items()})
    extra = ("typedef uint32 A1;\ntypedef A1 A2;\ntypedef uint16 ARR[5];\nstruct S3 { uint8 a; uint16 b; };\n"
             "typedef S3 S3a;\nunion U4 { uint32 a; uint8 b[6]; };\n")
    for align in (False, True):
        cs = lib.load(extra, "<", align, True)
        cs.add_type("BY_NAME", "uint48")
        cs.add_type("BY_NAME2", "BY_NAME")
        w = dict(want)
        w.update({"A1": 4, "A2": 4, "ARR": 10, "S3": 4 if align else 3, "S3a": 4 if align else 3, "U4": 8 if align else 6,
                  "BY_NAME": 6, "BY_NAME2": 6})
        for name, size in sorted(w.items()):
            ctx.evaluation(("sizeof-name", align, name))
            ctx.cell("sizeof-of-names:" + ("alias" if name in INT_ALIASES or name in OTHER_ALIASES else "other"))
            det = {"name": name, "align": align, "workload": "sizeof-of-names", "want": size}
            try:
                from dissect.cstruct.expression import Expression as _E

                got = {"len": len(cs.resolve(name)), "expression": _E(cs, f"sizeof({name})").evaluate(),
                       "expression-in-sum": _E(cs, f"(1 + 1) * sizeof({name}) - sizeof({name})").evaluate()}
                probe = f"P_{abs(hash(name)) % 10**8}_{int(align)}"
                cs.load(f"struct {probe} {{ char pad[sizeof({name})]; uint8 mark; uint8 more[sizeof({name}) + 1]; }};", align=align)
                P = getattr(cs, probe)
                got["array-size"] = P.fields["mark"].offset
                got["struct-size"] = len(P) - 2 - size
                o = P(bytes(range(1, 1 + len(P))))
                got["parsed"] = int(o.mark) - 1
                got["dumped"] = len(o.dumps()) - size - 2
            except Exception as e:  # noqa: BLE001
                ctx.violation("sizeof", f"sizeof-of-a-type-name-raises:{type(e).__name__}", dict(det, error=lib.exc_sig(e)))
                continue
            bad = {k: v for k, v in got.items() if v != size}
            if bad:
                ctx.violation("sizeof", "sizeof-in-expression-differs-from-len", dict(det, got=bad))
            else:
                ctx.event("sizeof_of_names_checked")


def sizeof_of_a_name_that_is_also_a_member(ctx):
    """The operand of sizeof() is the name of a type, also when a preceding member carries the same name: the array is
    fixed-size, the structure static, every later offset known."""
    for align in (False, True):
        for compiled in (True, False):
            text = ("struct header { uint8 a; uint16 b; };\ntypedef uint32 word;\n"
                    "struct block { header header; uint8 reserved[8 - sizeof(header)]; uint32 crc; };\n"
                    "struct inner { struct { word word; }; char pad[sizeof(word) * 2]; uint8 t; };\n"
                    "struct file { uint8 kind; block blocks[2]; uint8 tail[sizeof(block)]; };\n")
            ctx.evaluation(("sizeof-name-is-a-member", align, compiled))
            ctx.cell("sizeof-of-names:also-a-member")
            det = {"text": text, "align": align, "compiled": compiled, "workload": "sizeof-of-names"}
            try:
                cs = lib.load(text, "<", align, compiled)
                hs = 4 if align else 3
                bs = hs + (8 - hs) + 4
                fs = (4 if align else 1) + 2 * bs + bs
                want = {"header": hs, "block": bs, "block offsets": [0, hs, 8], "inner": 4 + 8 + (4 if align else 1),
                        "file": fs, "static": True}
                got = {"header": len(cs.header), "block": cs.block.size, "block offsets": [f.offset for f in cs.block.__fields__],
                       "inner": cs.inner.size, "file": cs.file.size, "static": not (cs.block.dynamic or cs.file.dynamic or cs.inner.dynamic)}
                data = bytes(range(1, 1 + fs))
                o = cs.file(data)
                got["consumed-and-dumped"] = (len(o.dumps()), len(o.tail))
                want["consumed-and-dumped"] = (fs, bs)
            except Exception as e:  # noqa: BLE001
                ctx.violation("sizeof", f"sizeof-of-a-type-name-raises:{type(e).__name__}", dict(det, error=lib.exc_sig(e)))
                continue
            bad = {k: (got.get(k), v) for k, v in want.items() if got.get(k) != v}
            if bad:
                ctx.violation("sizeof", "sizeof-in-expression-differs-from-len", dict(det, got=repr(bad)))
            else:
                ctx.event("sizeof_of_names_checked")


def custom_alignments(ctx, rng, n):
    """A type registered with add_custom_type(name, T, size, alignment) is laid out like any member of that size and
    alignment: offsets, padding, structure alignment and size, elements of arrays, nesting; bytes consumed and
    dumped = len."""
    from dissect.cstruct.types import BaseType

    class Raw(bytes, BaseType):
        @classmethod
        def _read(cls, stream, context=None):
            data = stream.read(cls.size)
            if len(data) != cls.size:
                raise EOFError
            return type.__call__(cls, data)

        @classmethod
        def _write(cls, stream, data):
            return stream.write(bytes(data).ljust(cls.size, b"\x00")[:cls.size])

        @classmethod
        def __default__(cls):
            return type.__call__(cls, bytes(cls.size))

    for it in range(n):
        size, al = rng.choice([(6, 2), (4, 8), (3, 1), (12, 4), (2, 2), (5, 4), (8, 1), (1, 2), (16, 8), (10, 2)])
        for compiled in (True, False):
            cs = lib.cstruct()
            cs.add_custom_type("cust", Raw, size, al)
            pre, post = rng.choice(["uint8", "uint16", "uint32", "uint64"]), rng.choice(["uint8", "uint16", "uint32", "uint64"])
            k = rng.randint(1, 3)
            text = (f"struct In {{ uint8 a; cust c; }};\nstruct T {{ {pre} p; cust c; {post} q; cust arr[{k}]; uint8 r; In in; uint8 z; }};")
            ctx.evaluation(("custom-alignment", size, al, compiled, pre, post, k))
            ctx.cell("custom-type-alignment")
            det = {"text": text, "size": size, "alignment": al, "compiled": compiled, "workload": "custom-alignments"}
            sz = {"uint8": 1, "uint16": 2, "uint32": 4, "uint64": 8}

            def up(x, a):
                return -(-x // a) * a

            # reference layout (aligned mode)
            off, fields, maxal = 0, [], 1
            in_al = max(1, al)
            in_c = up(1, al)
            in_size = up(in_c + size, in_al)
            for nm, s_, a_ in (("p", sz[pre], sz[pre]), ("c", size, al), ("q", sz[post], sz[post]), ("arr", size * k, al),
                               ("r", 1, 1), ("in", in_size, in_al), ("z", 1, 1)):
                off = up(off, a_)
                fields.append((nm, off))
                off += s_
                maxal = max(maxal, a_)
            total = up(off, maxal)
            try:
                cs.load(text, align=True, compiled=compiled)
                T = cs.T
                got = {"alignment-of-the-type": cs.cust.alignment, "offsets": [(f.name, f.offset) for f in T.__fields__],
                       "size": len(T), "alignment": T.alignment, "inner": (len(cs.In), cs.In.alignment, cs.In.fields["c"].offset)}
                wantd = {"alignment-of-the-type": al, "offsets": fields, "size": total, "alignment": maxal,
                         "inner": (in_size, in_al, in_c)}
                data = bytes((i * 7 + 1) & 0xFF for i in range(total + 5))
                import io as _io

                st = _io.BytesIO(data)
                o = T(st)
                got["consumed"] = st.tell()
                wantd["consumed"] = total
                got["c"] = bytes(o.c)
                wantd["c"] = data[fields[1][1]:fields[1][1] + size]
                got["arr"] = [bytes(x) for x in o.arr]
                wantd["arr"] = [data[fields[3][1] + j * size:fields[3][1] + (j + 1) * size] for j in range(k)]
                got["in.c"] = bytes(getattr(o, "in").c) if False else bytes(o["in"].c)
                wantd["in.c"] = data[fields[5][1] + in_c:fields[5][1] + in_c + size]
                got["dumped"] = len(o.dumps())
                wantd["dumped"] = total
                got["reparsed"] = T(o.dumps()) == o
                wantd["reparsed"] = True
            except Exception as e:  # noqa: BLE001
                ctx.violation("custom", f"custom-type-alignment-raises:{type(e).__name__}", dict(det, error=lib.exc_sig(e)))
                continue
            bad = {k_: (got[k_], wantd[k_]) for k_ in wantd if got.get(k_) != wantd[k_]}
            if bad:
                ctx.violation("custom", "custom-type-not-laid-out-by-its-declared-size-and-alignment", dict(det, differing=repr(bad)[:900]))
            else:
                ctx.event("custom_alignments_checked")


def declared_after_extension(ctx):
    """A structure that is extended through the API after arrays of it were already declared: whatever is declared
    *afterwards* (members, arrays in one and two dimensions, array typedefs, `T[n]` through the API) is laid out with
    the structure as it is now -- the same as on a fresh object that saw the final declaration only.  (What was
    declared before the extension is the open finding K13 and is not judged.)"""
    import io

    exts = [("uint16", 2), ("uint64", 8), ("uint8", 1), ("int24", 3)]
    for align in (False, True):
        for compiled in (True, False):
            for first in ("uint32 id;", "uint8 k; uint8 m;", "uint16 w; uint8 c[3];"):
                for ext, _sz in exts:
                    rng = ctx.rng("after-extension", align, compiled, first, ext)
                    body = "uint16 n; rec items[2]; rec one; rec grid[2][2]; uint8 t; pair_t p;"
                    det = {"align": align, "compiled": compiled, "first": first, "ext": ext, "workload": "after-extension"}
                    ctx.evaluation(("after-extension", align, compiled, first, ext))
                    ctx.cell("declared-after-extension")
                    try:
                        cs = lib.cstruct()
                        cs.load(f"struct rec {{ {first} }};", align=align, compiled=compiled)
                        # used before the extension (K13 for these; they must not leak into later declarations)
                        cs.load(f"typedef rec pair0_t[2]; struct before {{ {body.replace('pair_t', 'pair0_t')} }};", align=align, compiled=compiled)
                        _ = cs.rec[2], cs.rec[2][2], len(cs.before)
                        cs.rec.add_field("x", getattr(cs, ext))
                        cs.load(f"typedef rec pair_t[2]; struct after {{ {body} }};", align=align, compiled=compiled)
                        ref = lib.cstruct()
                        ref.load(f"struct rec {{ {first} {ext} x; }}; typedef rec pair_t[2]; struct after {{ {body} }};",
                                 align=align, compiled=compiled)
                        ref.load("struct P__ { char pad[sizeof(after)]; uint8 m; };")
                        cs.load("struct P__ { char pad[sizeof(after)]; uint8 m; };")
                        n = len(ref.after)
                        data = bytes(rng.randrange(1, 256) for _ in range(n + 7))
                        facts, want = {}, {}
                        for nm, o in (("lib", cs), ("ref", ref)):
                            d = facts if nm == "lib" else want
                            A = o.after
                            st = io.BytesIO(data)
                            v = A(st)
                            d["len"] = len(A)
                            d["offsets"] = [f.offset for f in A.__fields__]
                            d["sizeof"] = len(o.P__) - 1
                            d["consumed"] = st.tell()
                            d["dumped"] = v.dumps().hex()
                            d["value"] = repr(v)
                            d["api_array"] = (len(o.rec[2]), len(o.rec[2][2]), len(o.rec[3]), len(o.pair_t))
                            d["elem"] = len(o.rec)
                    except Exception as e:  # noqa: BLE001
                        ctx.violation("after-extension", f"declaration-after-extension-raises:{type(e).__name__}", dict(det, error=lib.exc_sig(e)))
                        continue
                    e = want["elem"]
                    if want["api_array"] != (2 * e, 4 * e, 3 * e, 2 * e) or want["consumed"] != want["len"] or want["sizeof"] != want["len"]:
                        # the reference itself is inconsistent: nothing to compare with (reported by the general workload)
                        ctx.event("after_extension_reference_inconsistent")
                        continue
                    bad = {k: (facts[k], want[k]) for k in want if facts[k] != want[k]}
                    if bad:
                        ctx.violation("after-extension", "declared-after-an-extension:layout-differs-from-the-one-shot-declaration",
                                      dict(det, differing=repr(bad)[:900]))
                    else:
                        ctx.event("after_extension_checked")


def pointer_width_switched(ctx):
    """Pointer types keep the width they were made with: after cs.pointer was reassigned, len / sizeof / bytes consumed /
    bytes dumped of a structure declared before still agree (the layout is the one of the first width), and a structure
    declared afterwards has the new width."""
    import io

    sizes = {"uint8": 1, "uint16": 2, "uint32": 4, "uint64": 8}
    text = "typedef char *PSTR;\nstruct T { uint8 h; PSTR s; uint16 *arr[2]; uint8 t; };"
    for align in (False, True):
        for compiled in (True, False):
            for w1, w2 in (("uint64", "uint32"), ("uint32", "uint64"), ("uint16", "uint64"), ("uint64", "uint8"), ("uint8", "uint16")):
                ctx.evaluation(("pointer-width-switched", align, compiled, w1, w2))
                ctx.cell("pointer-width-switched")
                det = {"text": text, "align": align, "compiled": compiled, "first": w1, "second": w2, "workload": "pointer-width-switched"}
                try:
                    cs = lib.cstruct(pointer=w1)
                    cs.load(text, align=align, compiled=compiled)
                    cs.pointer = getattr(cs, w2)
                    cs.load(text.replace("PSTR", "PSTR2").replace("struct T", "struct U"), align=align, compiled=compiled)
                    cs.load("struct P__ { char pad[sizeof(T)]; uint8 m; };")

                    def lay(w):
                        a = w if align else 1
                        off = -(-1 // a) * a          # h, then the first pointer
                        end = off + 3 * w + 1
                        return -(-end // a) * a
                    facts, want = {}, {}
                    for nm, w in (("T", sizes[w1]), ("U", sizes[w2])):
                        S = getattr(cs, nm)
                        data = bytes(range(1, lay(w) + 9))
                        st = io.BytesIO(data)
                        o = S(st)
                        facts[nm] = (len(S), st.tell(), len(o.dumps()), len(S().dumps()), o.write(io.BytesIO()))
                        want[nm] = (lay(w),) * 5
                    facts["sizeof"], want["sizeof"] = len(cs.P__) - 1, lay(sizes[w1])
                except Exception as e:  # noqa: BLE001
                    ctx.violation("pointer-width", f"pointer-width-switch-raises:{type(e).__name__}", dict(det, error=lib.exc_sig(e)))
                    continue
                if facts != want:
                    ctx.violation("pointer-width", "size-read-write-disagree-after-the-pointer-type-was-switched", dict(det, got=repr(facts), want=repr(want)))
                else:
                    ctx.event("pointer_width_switches_checked")


def run(ctx):
    mixed_modes(ctx, 10 if not ctx.thorough else 150)
    if ctx.shard == 0:
        empty_structures(ctx)
    if ctx.shard == 1:
        sizeof_of_names(ctx)
        sizeof_of_a_name_that_is_also_a_member(ctx)
    if ctx.shard == 3:
        declared_after_extension(ctx)
    if ctx.shard == 4:
        pointer_width_switched(ctx)
    if ctx.shard % 4 == 2:
        custom_alignments(ctx, ctx.rng("custom-alignments"), 6 if not ctx.thorough else 60)
    offset_gaps(ctx, 6 if not ctx.thorough else 120)
    cc = CCompilerOracle(ctx)
    for i in range(N_CASES[ctx.tier]):
        if ctx.out_of_time():
            break
        rng = ctx.rng("case", i)
        case = engine.make_case(rng, **gen_opts(rng, ctx.thorough))
        for t in case["feats"]:
            ctx.cell("feat:" + t)
        check_case(ctx, case, rng, cc)
        if i < 2:
            ctx.sample({"text": case["text"], "feats": case["feats"]})
    cc.run()


def replay(ctx, detail):
    if detail.get("workload") == "offset-gaps":
        print(detail)
        offset_gaps(ctx, 120)
        return
    if detail.get("workload") == "empty-structures":
        empty_structures(ctx)
        return
    if detail.get("workload") == "pointer-width-switched":
        print(detail)
        pointer_width_switched(ctx)
        return
    if detail.get("workload") == "after-extension":
        print(detail)
        declared_after_extension(ctx)
        return
    if detail.get("workload") == "sizeof-of-names":
        print(detail)
        sizeof_of_names(ctx)
        sizeof_of_a_name_that_is_also_a_member(ctx)
        return
    if detail.get("workload") == "custom-alignments":
        print(detail)
        custom_alignments(ctx, ctx.rng("custom-alignments"), 60)
        return
    if detail.get("workload") == "mixed-modes":
        print({k: v for k, v in detail.items()})
        mixed_modes(ctx, 150)
        return
    case = engine.case_from_detail(detail)
    print("definition:\n" + case["text"])
    print("config:", detail["cfg"])
    for k in ("path", "got", "want", "label", "error"):
        if k in detail:
            print(f"{k}: {detail[k]}")
    import random

    check_case(ctx, case, random.Random(0))
