"""C04  Structure layout follows C rules; declared size = bytes read = bytes written."""
from __future__ import annotations

import ctypes

from .. import engine, gen, lib, model
from ..engine import case_detail, outcome

N_CASES = {"quick": 160, "thorough": 2500}

CT = {
    "int8": ctypes.c_int8, "uint8": ctypes.c_uint8, "int16": ctypes.c_int16, "uint16": ctypes.c_uint16,
    "int32": ctypes.c_int32, "uint32": ctypes.c_uint32, "int64": ctypes.c_int64, "uint64": ctypes.c_uint64,
    "float": ctypes.c_float, "double": ctypes.c_double, "float16": ctypes.c_uint16,
}


class Unmappable(Exception):
    pass


def to_ctypes(node, cfg, counter):
    k = node["k"]
    if k == "int":
        if node["t"] not in CT:
            raise Unmappable(node["t"])
        return CT[node["t"]]
    if k == "float":
        return CT[node["t"]]
    if k == "char":
        return ctypes.c_uint8
    if k == "wchar":
        return ctypes.c_uint16
    if k == "enum":
        if node["base"] not in CT:
            raise Unmappable(node["base"])
        return CT[node["base"]]
    if k == "ptr":
        return CT[cfg.ptr]
    if k == "array":
        if node["len"]["f"] != "fixed":
            raise Unmappable("dynamic array")
        return to_ctypes(node["elem"], cfg, counter) * max(0, node["len"]["n"])
    if k == "struct":
        fields = []
        for i, f in enumerate(node["fields"]):
            if f.get("bits"):
                raise Unmappable("bit-field")
            fields.append((f["name"] or f"anon{i}", to_ctypes(f["t"], cfg, counter)))
        counter[0] += 1
        ns = {"_fields_": fields}
        if not cfg.align:
            ns["_pack_"] = 1
        return type(f"S{counter[0]}", (ctypes.Union if node["union"] else ctypes.Structure,), ns)
    raise Unmappable(k)


def gen_opts(rng, thorough):
    o = dict(fixed_only=True, dyn=False, leb=False, eof=False, dyn_unions=False)
    if thorough:
        o.update(max_fields=rng.choice([6, 9, 12]), max_depth=3, max_len=rng.choice([4, 9]))
    if rng.random() < 0.5:
        o["bits"] = False  # keep a large ctypes-mappable share
    if rng.random() < 0.4:
        o["wide"] = False
    return o


def compare_layout(ctx, case, cfgd, cfg, node, T, viol, path="T"):
    """Model (and ctypes where mappable) vs the library's size / alignment / offsets, recursively."""
    lay = model.layout(node, cfg)
    if len(T) != lay["size"]:
        viol("size", "declared-size-differs-from-model", path=path, got=len(T), want=lay["size"])
        return False
    if cfgd["align"] and T.alignment != lay["alignment"]:
        viol("alignment", "alignment-differs-from-model", path=path, got=T.alignment, want=lay["alignment"])
        return False
    ctx.cell(f"alignclass:{lay['alignment']}")
    ok = True
    for i, (nf, lf) in enumerate(zip(node["fields"], T.__fields__)):
        if nf.get("bits"):
            continue
        if lf.offset != lay["offsets"][i] and not node["union"]:
            viol("offset", "field-offset-differs-from-model", path=f"{path}.{nf['name']}", got=lf.offset,
                 want=lay["offsets"][i])
            ok = False
        t, lt = nf["t"], lf.type
        while t["k"] == "array":
            t, lt = t["elem"], lt.type
        if t["k"] == "struct":
            ok = compare_layout(ctx, case, cfgd, cfg, t, lt, viol, f"{path}.{nf['name'] or '#%d' % i}") and ok
    return ok


def compare_ctypes(ctx, case, cfgd, cfg, node, T, viol):
    try:
        ct = to_ctypes(node, cfg, [0])
    except Unmappable:
        ctx.event("model_only")
        return
    ctx.event("checked_against_ctypes")

    def rec(ct, T, path):
        if ctypes.sizeof(ct) != len(T):
            viol("c-abi", "size-differs-from-C-compiler-layout", path=path, got=len(T), want=ctypes.sizeof(ct))
            return
        if cfgd["align"] and ctypes.alignment(ct) != T.alignment:
            viol("c-abi", "alignment-differs-from-C-compiler-layout", path=path, got=T.alignment,
                 want=ctypes.alignment(ct))
        for (name, ft), lf in zip(ct._fields_, T.__fields__):
            off = getattr(ct, name).offset
            if not issubclass(T, lib.Union) and lf.offset != off:
                viol("c-abi", "offset-differs-from-C-compiler-layout", path=f"{path}.{name}", got=lf.offset, want=off)
            lt = lf.type
            while hasattr(ft, "_type_") and hasattr(ft, "_length_"):
                ft, lt = ft._type_, lt.type
            if hasattr(ft, "_fields_"):
                rec(ft, lt, f"{path}.{name}")

    rec(ct, T, "T")


def check_case(ctx, case, rng):
    top = case["top"]
    text = case["text"] + "struct P__ { char pad[sizeof(T)]; uint8 mark; };\n"
    for cfgd in engine.std_configs(rng, ctx.thorough, top):
        cfg = engine.mcfg(case, cfgd["endian"], cfgd["align"], cfgd["ptr"])
        try:
            cs = lib.load(text, cfgd["endian"], cfgd["align"], cfgd["compiled"], cfgd["ptr"])
        except Exception as e:  # noqa: BLE001
            try:
                model.layout(top, cfg)
                ctx.violation("load", f"load-fails:{type(e).__name__}", case_detail(case, cfg=cfgd, error=repr(e)))
            except model.ModelReject:
                ctx.event("rejected_by_both")
            continue
        T = cs.T
        key = (case["text"], tuple(sorted(cfgd.items())))
        ctx.evaluation(key)
        ctx.cell(f"align:{cfgd['align']}", f"ptr:{cfgd['ptr']}", f"compiled:{bool(T.__compiled__)}")

        def viol(kind, sig, **kw):
            ctx.violation(kind, sig, case_detail(case, cfg=cfgd, **kw))

        if T.size is None:
            viol("size", "fixed-size-definition-reported-dynamic")
            continue
        if not compare_layout(ctx, case, cfgd, cfg, top, T, viol):
            continue
        compare_ctypes(ctx, case, cfgd, cfg, top, T, viol)
        # the four size observations
        n = len(T)
        sizeof_seen = cs.P__.fields["mark"].offset
        if sizeof_seen != n:
            viol("sizeof", "sizeof-in-expression-differs-from-len", got=sizeof_seen, want=n)
        try:
            d0 = T().dumps()
            if len(d0) != n:
                viol("dump-default", "default-dump-length-differs-from-len", got=len(d0), want=n, dump=d0)
        except Exception as e:  # noqa: BLE001
            viol("dump-default", f"default-dump-raises:{type(e).__name__}", error=lib.exc_sig(e))
        try:
            inp, used, mask, v = engine.model_input(case, cfg, rng, tail=0)
        except model.ModelUnsupported:
            continue
        for data, lab in ((inp, "exact"), (inp + bytes(rng.randrange(256) for _ in range(17)), "tail")):
            r = outcome(T, data)
            ctx.evaluation(key + (data.hex(),))
            if r[0] == "err":
                viol("read", f"reader-raises-on-declared-size-input:{type(r[1]).__name__}", data=data, label=lab,
                     error=lib.exc_sig(r[1]))
                continue
            if r[2] != n:
                viol("read", "bytes-consumed-differ-from-len", data=data, label=lab, got=r[2], want=n)
                continue
            try:
                d = r[1].dumps()
            except Exception as e:  # noqa: BLE001
                viol("dump", f"dump-of-parsed-raises:{type(e).__name__}", data=data, error=lib.exc_sig(e))
                continue
            if len(d) != n:
                viol("dump", "dump-length-differs-from-len", data=data, got=len(d), want=n)


def run(ctx):
    for i in range(N_CASES[ctx.tier]):
        if ctx.out_of_time():
            break
        rng = ctx.rng("case", i)
        case = engine.make_case(rng, **gen_opts(rng, ctx.thorough))
        for t in case["feats"]:
            ctx.cell("feat:" + t)
        check_case(ctx, case, rng)
        if i < 2:
            ctx.sample({"text": case["text"], "feats": case["feats"]})


def replay(ctx, detail):
    case = engine.case_from_detail(detail)
    print("definition:\n" + case["text"])
    print("config:", detail["cfg"])
    for k in ("path", "got", "want", "label", "error"):
        if k in detail:
            print(f"{k}: {detail[k]}")
    import random

    check_case(ctx, case, random.Random(0))
