#!/usr/bin/env python3
"""Regenerate MANIFEST.json from vf/registry.py (single source for levels and commands)."""
import json, os, sys
ROOT = os.path.dirname(os.path.abspath(__file__))
sys.path.insert(0, ROOT)
from vf import registry

TEXT = registry.MANIFEST_TEXT
props = [json.loads(l)["id"] for l in open(os.path.join(ROOT, "properties.jsonl"))]
checks = []
for pid in props:
    if pid not in registry.CHECKS:
        continue
    m = registry.CHECKS[pid]
    t = TEXT[pid]
    checks.append({
        "property_id": pid,
        "quick_cmd": f"./check {pid} quick",
        "thorough_cmd": f"./check {pid} thorough",
        "evidence_file": f"evidence/{pid}.json",
        "replay_cmd_template": f"./check {pid} --replay {{path}}",
        "engine": "vf",
        "level_claimed": {"category": m["level"], "text": t["text"], "design_ref": t["design_ref"]},
        "level_note": t["note"],
        "technique": t["technique"],
    })
na = [{"property_id": pid, "reason": registry.NOT_APPLICABLE.get(pid, "check not built yet in this session")}
      for pid in props if pid not in registry.CHECKS]
manifest = {
    "version": 1,
    "setup_cmd": "mkdir -p evidence replays && /venv/bin/python -B -c \"import sys; sys.path.insert(0,'/verif'); import vf.registry\"",
    "hooks": {
        "guard": "DISSECT_CSTRUCT_VERIF",
        "enable": "no source hooks: monitors are attached from the harness by wrapping the real classes/functions "
                  "and the streams passed in; checks run /venv/bin/python with PYTHONPATH=$VERIF_REPO (default /repo)",
        "baseline_off_cmd": "cd /repo && /venv/bin/python -m pytest -ra -q -p no:cacheprovider --timeout=900 "
                            "--continue-on-collection-errors",
        "source_commits": [],
        "add_only": True,
    },
    "engines": [{"name": "vf", "path": "vf/", "serves_properties": [c["property_id"] for c in checks],
                 "kind_free_text": "runtime monitoring: generated hostile workloads on the real library, "
                                   "instrumented streams, call wrappers, reference-model oracle, deterministic "
                                   "thread scheduler, fault injection; shard fan-out in subprocesses"}],
    "checks": checks,
    "not_applicable": na,
    "notes": "exit 0 held / KNOWN-FINDING lines for listed findings; exit 1 VIOLATION; exit 2 INCONCLUSIVE "
             "(deciding monitor never reached, watchdog). See DESIGN.md.",
}
json.dump(manifest, open(os.path.join(ROOT, "MANIFEST.json"), "w"), indent=1)
print("checks:", [c["property_id"] for c in checks], "not_applicable:", [n["property_id"] for n in na])
