#!/bin/sh
# usage: tools/coverage_gaps.sh [tier] [checks...]  -- diagnostic, not a check: runs the checks with coverage.py switched on
# in every shard and prints the library lines / branches that no workload reached (candidates for new workloads).
tier="${1:-quick}"; [ $# -gt 0 ] && shift
cd "$(dirname "$0")/.." || exit 2
D=$(mktemp -d /tmp/vf-cov-XXXXXX)
for c in ${@:-C01 C02 C03 C04 C05 C06 C07 C08 C09 C10 C11 C12 C13 C14 C15 C16 C17 C18 C19 C20}; do
  VF_COVERAGE_DIR=$D VERIF_OUT=$D/out ./check $c $tier 2>&1 | grep "^\[$c"
done
cd $D && /venv/bin/python -m coverage combine -q --data-file=$D/.coverage $D/cov-* >/dev/null 2>&1
/venv/bin/python -m coverage report --data-file=$D/.coverage -m --skip-empty 2>&1 | cut -c1-400
echo "data: $D/.coverage"
