#!/bin/sh
# For every "fixed:" entry in KNOWN_FINDINGS.txt: revert that commit in a scratch worktree and confirm that the
# property's quick check reports the violation again (a fixed entry suppresses nothing).
cd "$(dirname "$0")/.." || exit 2
WT=/tmp/vf-revert-wt-$$
grep "^fixed:" KNOWN_FINDINGS.txt | grep -E "${REVERT_ONLY:-.}" | while read -r _ prop sha rest; do
  prop=${prop#property=}
  git -C /repo worktree remove --force $WT >/dev/null 2>&1; rm -rf $WT
  git -C /repo worktree add -q --detach $WT HEAD || { echo "$prop $sha WORKTREE-FAILED"; continue; }
  if ! git -C $WT revert --no-edit $sha >/dev/null 2>&1; then
    git -C $WT revert --abort >/dev/null 2>&1
    echo "$prop $sha REVERT-CONFLICT (not checked)"; continue
  fi
  out=$(VERIF_REPO=$WT VERIF_OUT=$WT/_vf_out ./check $prop quick 2>&1); rc=$?
  echo "$prop $sha rc=$rc $(echo "$out" | grep -m1 'violation kind' )"
done
git -C /repo worktree remove --force $WT >/dev/null 2>&1; rm -rf $WT
