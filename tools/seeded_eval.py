#!/usr/bin/env python3
"""Evaluate one seeded change:  tools/seeded_eval.py <patch.diff> <demo.py> <Cxx>[,Cyy...] [tier]

In a scratch worktree of /repo (never in /repo itself): demo passes unpatched, patch applies, the repository's tests
still pass, demo fails patched, then the given checks are run against the patched tree (VERIF_REPO) and must exit 1.
Prints one JSON object.
"""
import json, os, shutil, subprocess, sys

ROOT = os.path.dirname(os.path.dirname(os.path.abspath(__file__)))
patch, demo, props = os.path.abspath(sys.argv[1]), os.path.abspath(sys.argv[2]), sys.argv[3].split(",")
tier = sys.argv[4] if len(sys.argv) > 4 else "quick"
WT = f"/tmp/vf-seed-wt-{os.getpid()}"


def sh(cmd, **kw):
    return subprocess.run(cmd, shell=True, capture_output=True, text=True, **kw)


res = {"patch": patch, "props": props}
sh(f"git -C /repo worktree remove --force {WT}; rm -rf {WT}")
r = sh(f"git -C /repo worktree add -q --detach {WT} HEAD")
try:
    env = dict(os.environ, PYTHONPATH=WT, PYTHONDONTWRITEBYTECODE="1")
    shutil.copy(demo, os.path.join(WT, "_demo.py"))
    # demos were written against /tmp/sb/Cxx: point them at the scratch worktree
    src = open(os.path.join(WT, "_demo.py")).read()
    import re
    src = re.sub(r"/tmp/sb\d*/C\d\d", WT, src)
    open(os.path.join(WT, "_demo.py"), "w").write(src)
    r = sh(f"/venv/bin/python _demo.py", cwd=WT, env=env, timeout=600)
    res["demo_unpatched_rc"] = r.returncode
    r = sh(f"git apply {patch}", cwd=WT)
    res["apply_rc"] = r.returncode
    if r.returncode:
        res["apply_err"] = r.stderr[-300:]
    else:
        r = sh("/venv/bin/python -m pytest -q -p no:cacheprovider -x tests 2>&1 | tail -1", cwd=WT, env=env, timeout=900)
        res["tests"] = r.stdout.strip()
        r = sh(f"/venv/bin/python _demo.py", cwd=WT, env=env, timeout=600)
        res["demo_patched_rc"] = r.returncode
        res["demo_patched_out"] = (r.stdout + r.stderr)[-300:]
        res["checks"] = {}
        for p in props:
            r = sh(f"VERIF_REPO={WT} VERIF_OUT={WT}/_vf_out ./check {p} {tier}", cwd=ROOT, timeout=3600)
            sig = [l.strip() for l in r.stdout.splitlines() if "violation kind" in l][:2]
            inc = [l.strip() for l in r.stdout.splitlines() if l.startswith("INCONCLUSIVE")][:2]
            res["checks"][p] = {"rc": r.returncode, "sig": sig, "inconclusive": inc}
finally:
    sh(f"git -C /repo worktree remove --force {WT}; rm -rf {WT}")
print(json.dumps(res))
