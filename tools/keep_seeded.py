#!/usr/bin/env python3
"""Keep a confirmed seeded change:  tools/keep_seeded.py <Cxx> <i> "<needs>" [checks]  -> seeded/<Cxx>-<i>/"""
import json, os, shutil, subprocess, sys
ROOT = os.path.dirname(os.path.dirname(os.path.abspath(__file__)))
prop, i, needs = sys.argv[1], sys.argv[2], sys.argv[3]
checks = sys.argv[4] if len(sys.argv) > 4 else prop
src = os.path.join(os.environ.get("SB_DIR", "/tmp/sb"), prop)
suffix = os.environ.get("SB_SUFFIX", "")
dst = os.path.join(ROOT, "seeded", f"{prop}-{suffix}{i}")
os.makedirs(dst, exist_ok=True)
shutil.copy(f"{src}/patch{i}.diff", f"{dst}/patch.diff")
shutil.copy(f"{src}/demo{i}.py", f"{dst}/demo.py")
r = subprocess.run([sys.executable, os.path.join(ROOT, "tools/seeded_eval.py"), f"{dst}/patch.diff", f"{dst}/demo.py", checks],
                   capture_output=True, text=True)
ev = json.loads(r.stdout.strip().splitlines()[-1])
meta = {
    "property": prop,
    "breaks": prop,
    "needs_to_manifest": needs,
    "origin": os.environ.get("SB_ORIGIN", "independent sub-agent given only the property text and a scratch worktree"),
    "confirmed": {
        "repo_tests_with_patch": ev.get("tests"),
        "demo_rc_unpatched": ev.get("demo_unpatched_rc"),
        "demo_rc_patched": ev.get("demo_patched_rc"),
        "ran": "tools/seeded_eval.py (scratch worktree of /repo HEAD, VERIF_REPO=<worktree> ./check <id> quick)",
    },
    "checks": ev.get("checks"),
    "caught": any(c["rc"] == 1 for c in ev.get("checks", {}).values()),
}
json.dump(meta, open(f"{dst}/meta.json", "w"), indent=1)
print(prop, i, "caught" if meta["caught"] else "MISSED", {k: v["rc"] for k, v in ev.get("checks", {}).items()})
