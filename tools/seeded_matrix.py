#!/usr/bin/env python3
"""Re-run every kept seeded change against the current /repo HEAD:  [MATRIX_IDS=a,b] tools/seeded_matrix.py [jobs] [id-prefix]

For each seeded/<id>/ (patch.diff, demo.py, meta.json): scratch worktree of /repo HEAD, demo passes unpatched, patch
applies, the repository's tests pass, demo fails patched, and the check(s) named in meta.json ("checks") are run with
VERIF_REPO=<worktree>.  Prints one line per change and writes seeded/MATRIX.json.  Nothing in /repo is touched.
"""
import concurrent.futures
import json
import os
import subprocess
import sys

ROOT = os.path.dirname(os.path.dirname(os.path.abspath(__file__)))
jobs = int(sys.argv[1]) if len(sys.argv) > 1 else 3
prefix = sys.argv[2] if len(sys.argv) > 2 else ""


def one(sid):
    d = os.path.join(ROOT, "seeded", sid)
    meta = json.load(open(os.path.join(d, "meta.json")))
    if meta.get("caught") is None and "neutralised" in meta.get("status", ""):
        return sid, {"status": "neutralised (not run)"}
    props = ",".join(meta.get("checks") or [meta["property"]])
    r = subprocess.run([sys.executable, os.path.join(ROOT, "tools/seeded_eval.py"), os.path.join(d, "patch.diff"),
                        os.path.join(d, "demo.py"), props], capture_output=True, text=True)
    try:
        ev = json.loads(r.stdout.strip().splitlines()[-1])
    except Exception:  # noqa: BLE001
        return sid, {"status": "eval-failed", "out": (r.stdout + r.stderr)[-300:]}
    if ev.get("apply_rc"):
        return sid, {"status": "patch-does-not-apply"}
    caught = [p for p, c in ev.get("checks", {}).items() if c["rc"] == 1]
    st = "caught" if caught else "MISSED"
    if ev.get("demo_patched_rc") == 0:
        st = "demo-passes-with-patch (" + st + ")"
    if not str(ev.get("tests", "")).startswith("500 passed"):
        st += " [tests: " + str(ev.get("tests")) + "]"
    return sid, {"status": st, "caught_by": caught, "checks": {p: c["rc"] for p, c in ev.get("checks", {}).items()}}


ids = sorted(x for x in os.listdir(os.path.join(ROOT, "seeded")) if os.path.isdir(os.path.join(ROOT, "seeded", x))
             and x.startswith(prefix))
only = os.environ.get("MATRIX_IDS")
out = {}
if only:
    # re-run a selection and merge it into the stored matrix
    ids = [x for x in ids if x in only.split(",")]
    try:
        out = json.load(open(os.path.join(ROOT, "seeded", "MATRIX.json")))["results"]
    except Exception:  # noqa: BLE001
        out = {}
with concurrent.futures.ThreadPoolExecutor(max_workers=jobs) as ex:
    for sid, res in ex.map(one, ids):
        out[sid] = res
        print(sid, res["status"], res.get("caught_by", ""), flush=True)
head = subprocess.run(["git", "-C", "/repo", "log", "--format=%h", "-1"], capture_output=True, text=True).stdout.strip()
json.dump({"repo_head": head, "results": out}, open(os.path.join(ROOT, "seeded", "MATRIX.json"), "w"), indent=1)
bad = [k for k, v in out.items() if not v["status"].startswith(("caught", "neutralised"))]
print("not caught / not applicable:", bad)
sys.exit(1 if bad else 0)
