#!/bin/sh
# usage: tools/sweep.sh <tier> <seed>...   -- runs every registered check, prints one line per (check, seed)
tier="$1"; shift
cd "$(dirname "$0")/.." || exit 2
rc_all=0
for seed in "$@"; do
  for c in ${SWEEP_CHECKS:-C01 C02 C03 C04 C05 C06 C07 C08 C09 C10 C11 C12 C13 C14 C15 C16 C17 C18 C19 C20}; do
    out=$(VERIF_SEED=$seed ./check $c $tier 2>&1); rc=$?
    line=$(echo "$out" | grep "^\[$c" | tail -1)
    echo "rc=$rc $line"
    if [ $rc -ne 0 ]; then rc_all=1; echo "$out" | grep -v "^KNOWN-FINDING" | tail -8; cp replays/$c-0.json /tmp/sweep-$c-$tier-$seed.json 2>/dev/null; fi
  done
done
exit $rc_all
